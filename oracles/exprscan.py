"""C02 reference: extent of a ${...} expression, from Python's lexical rules (not from mako/lexer.py).

scan(items, i): items[i:] follows '${'.
  ('ok', text_items, escapes_items_or_None, resume)   expression text, filter text (after the first top-level '|'), offset after '}'
  ('unterminated',)                                    no closing top-level '}'
  ('undet', why)                                       outside the scanner's domain (only C01's accounting applies)
Tracks (), [], {} nesting, '...' "..." '''...''' \"\"\"...\"\"\" literals with backslash escapes, and # comments inside brackets.
"""
from symx.values import ch_eq, ch_in

OPEN = {"(": ")", "[": "]", "{": "}"}


def _sw(s, i, lit):
    if i + len(lit) > len(s):
        return False
    return all(ch_eq(s[i + k], c) for k, c in enumerate(lit))


def scan(s, i):
    n = len(s)
    stack = []
    j = i
    bar = None
    while j < n:
        c = s[j]
        if ch_eq(c, "#"):
            if not stack:
                return ("undet", "comment at bracket depth 0")
            k = j
            while k < n and not ch_eq(s[k], "\n"):
                k += 1
            if k >= n:
                return ("undet", "comment without newline")
            j = k + 1
            continue
        if ch_in(c, "\"'"):
            q1 = '"' if ch_eq(c, '"') else "'"
            q = q1 * 3 if _sw(s, j, q1 * 3) else q1
            k = j + len(q)
            while True:
                if k >= n:
                    return ("undet", "unterminated string")
                if ch_eq(s[k], "\\"):
                    if k + 1 >= n:
                        return ("undet", "unterminated string")
                    k += 2
                    continue
                if _sw(s, k, q):
                    k += len(q)
                    break
                if len(q) == 1 and ch_eq(s[k], "\n"):
                    return ("undet", "newline in single-quoted string")
                k += 1
            j = k
            continue
        hit = None
        for o in OPEN:
            if ch_eq(c, o):
                hit = o
                break
        if hit:
            stack.append(OPEN[hit])
            j += 1
            continue
        if ch_in(c, ")]}"):
            if stack:
                if not ch_eq(c, stack[-1]):
                    return ("undet", "mismatched bracket")
                stack.pop()
                j += 1
                continue
            if ch_eq(c, "}"):
                if bar is None:
                    return ("ok", s[i:j], None, j + 1)
                return ("ok", s[i:bar], s[bar + 1:j], j + 1)
            return ("undet", "unbalanced closer")
        if ch_eq(c, "|") and not stack and bar is None:
            bar = j
        j += 1
    return ("unterminated",)
