"""C19 reference: Python's lexical state at the start of each physical line (from the language reference,
not from mako/pygen.py).

line_states(lines) -> list of states, one per line, or None when the text is outside the scanner's domain:
   'code'            a new logical line may start here (its indentation is significant)
   'cont'            explicit continuation (previous line ended in a backslash outside strings/comments)
   ('str', q)        inside a triple-quoted literal opened with q
also returns for each line whether it is blank/comment-only (indentation insignificant).
Works on lists of items through the forking char API.
"""
from symx.values import ch_eq, ch_in


def _sw(ln, i, lit):
    if i + len(lit) > len(ln):
        return False
    return all(ch_eq(ln[i + k], c) for k, c in enumerate(lit))


def line_states(lines):
    states = []
    insignificant = []
    st = "code"
    depth = 0          # open ( [ { : implicit line joining, indentation of the following lines is insignificant
    for ln in lines:
        states.append(st if (isinstance(st, tuple) or depth == 0) else "cont")
        n = len(ln)
        i = 0
        cur = st if isinstance(st, tuple) else None
        nxt = "code"
        # blank or comment-only line (only meaningful when st is 'code')
        j = 0
        while j < n and ch_in(ln[j], " \t\f"):
            j += 1
        insignificant.append(st == "code" and (j >= n or ch_eq(ln[j], "#")))
        ended_with_backslash = False
        while i < n:
            if cur is not None:
                q = cur[1]
                if ch_eq(ln[i], "\\"):
                    ended_with_backslash = i == n - 1
                    i += 2
                    continue
                if _sw(ln, i, q):
                    cur = None
                    i += len(q)
                    continue
                i += 1
                continue
            c = ln[i]
            if ch_eq(c, "#"):
                i = n
                break
            if ch_in(c, "\"'"):
                q1 = '"' if ch_eq(c, '"') else "'"
                if _sw(ln, i, q1 * 3):
                    cur = ("str", q1 * 3)
                    i += 3
                    continue
                j = i + 1
                closed = False
                continued = False
                while j < n:
                    if ch_eq(ln[j], "\\"):
                        continued = j == n - 1
                        j += 2
                        continue
                    if ch_eq(ln[j], q1):
                        closed = True
                        j += 1
                        break
                    j += 1
                if not closed:
                    if not continued:
                        return None, None       # unterminated single-quoted literal: not Python
                    # the literal goes on after a backslash-newline: the next physical line is inside it
                    cur = ("str1", q1)
                    ended_with_backslash = True
                    i = n
                    continue
                i = j
                continue
            if ch_eq(c, "\\") and i == n - 1:
                nxt = "cont"
                i += 1
                continue
            if ch_in(c, "([{"):
                depth += 1
            elif ch_in(c, ")]}"):
                depth = max(0, depth - 1)
            i += 1
        if cur is not None and cur[0] == "str1" and not ended_with_backslash:
            return None, None               # a single-quoted literal may only cross a line end behind a backslash
        st = cur if cur is not None else nxt
    if isinstance(st, tuple) or st == "cont" or depth:
        return None, None
    return states, insignificant


# ---- concrete helpers used by the characteristic predicates of listed findings
def lexical_map(text):
    """per character: 'c' code, 's' inside a string literal (delimiters included), '#' inside a comment; None if ill-formed"""
    out = []
    i, n = 0, len(text)
    while i < n:
        c = text[i]
        if c == "#":
            j = text.find("\n", i)
            j = n if j < 0 else j
            out.extend("#" * (j - i))
            i = j
            continue
        if c in "\"'":
            q = c * 3 if text.startswith(c * 3, i) else c
            j = i + len(q)
            while True:
                if j >= n:
                    return None
                if text[j] == "\\":
                    j += 2
                    continue
                if text.startswith(q, j):
                    j += len(q)
                    break
                if len(q) == 1 and text[j] == "\n":
                    return None
                j += 1
            out.extend("s" * (j - i))
            i = j
            continue
        out.append("c")
        i += 1
    return out[:n]


def backslash_ends_comment(text):
    """a physical line ends in a backslash that is part of a comment (Python: no continuation there)"""
    m = lexical_map(text)
    if m is None:
        return False
    for i, ch in enumerate(text):
        if ch == "\\" and (i + 1 == len(text) or text[i + 1] == "\n") and m[i] == "#":
            return True
    return False


def triple_sequence_not_delimiter(text):
    """a ''' or \"\"\" character sequence occurs where Python does not read a triple-quote delimiter:
    inside a comment, or inside a string literal delimited differently"""
    m = lexical_map(text)
    if m is None:
        return False
    n = len(text)
    # simpler: re-scan literals
    delim = set()
    i = 0
    while i < n:
        c = text[i]
        if m[i] == "#":
            i += 1
            continue
        if c in "\"'" and m[i] == "s":
            q = c * 3 if text.startswith(c * 3, i) else c
            j = i + len(q)
            while not text.startswith(q, j) or text[j] == "\\":
                j += 2 if text[j] == "\\" else 1
            if len(q) == 3:
                delim.update((i, j))
            i = j + len(q)
            continue
        i += 1
    for q in ("'''", '"""'):
        k = text.find(q)
        while k >= 0:
            if k not in delim:
                return True
            k = text.find(q, k + 1)
    return False
