"""C01 reference tokenizer R, written from doc/build/syntax.rst (not from mako/lexer.py).

Works on a list of items (1-char str or SymChar) through the forking char API, so the same code runs
concretely and symbolically.  Where the property statement admits several readings, `policy` decides and
`consulted` records which policy keys were looked at, so the caller can enumerate exactly the admissible
readings.

result: ('out', items)          expected rendered text (text-level input: text, %%, ## lines, continuations,
                                <%doc>, <%text>)
        ('exc',)                a Mako Syntax/Compile exception is required
        ('dir', i)              a directive R does not expand begins at offset i (only accounting is asserted)
"""
from symx.values import ch_eq, ch_in, SymStr

BLANK = " \t"
POLICIES = {
    # a ##/% line containing a bare CR: the whole (continued) line is a directive / it is all literal text /
    # it is a directive that ends at its first newline (a backslash before that newline being part of it)
    "cr_line": ("directive", "text", "first-newline"),
    "doc_nl": ("kept", "dropped"),         # the line terminator directly after </%doc>
    "ws_pct": ("escape", "text"),          # non-blank whitespace before a line-leading %%
}


def _sw(s, i, lit):
    if i + len(lit) > len(s):
        return False
    for k, c in enumerate(lit):
        if not ch_eq(s[i + k], c):
            return False
    return True


def _find(s, i, lit):
    for j in range(i, len(s) - len(lit) + 1):
        if _sw(s, j, lit):
            return j
    return -1


def R(s, policy=None, consulted=None):
    policy = policy or {}
    if consulted is None:
        consulted = set()

    def pol(k):
        consulted.add(k)
        return policy.get(k, POLICIES[k][0])

    n = len(s)
    i = 0
    out = []
    from symx.values import is_space, ch_pred
    # a magic coding comment on the first line is not template content (PEP 263 shape: '#', anything, 'coding',
    # ':' or '=', optional blanks, an encoding name)
    if n and ch_eq(s[0], "#"):
        e = 0
        while e < n and not ch_eq(s[e], "\n"):
            e += 1
        for c0 in range(1, e):
            if _sw(s, c0, "coding") and c0 + 6 < e and ch_in(s[c0 + 6], ":="):
                k = c0 + 7
                while k < e and is_space(s[k]):
                    k += 1
                if k < e and (ch_pred(s[k], lambda c: c.isalnum() or c in "_-.", "encname")):
                    if e < n:
                        i = e + 1
                    else:
                        return ("dir", 0)   # coding comment without a line terminator: not specified
                    break
                if k >= e:
                    return ("dir", 0)       # 'coding:' followed only by whitespace up to the newline: not specified

    def line_start(i):
        return i == 0 or ch_eq(s[i - 1], "\n")

    while i < n:
        if line_start(i):
            j = i
            while j < n and ch_in(s[j], BLANK):
                j += 1
            is_comment = _sw(s, j, "##")
            is_ctl = (not is_comment) and j < n and ch_eq(s[j], "%") and not _sw(s, j, "%%")
            if is_comment or is_ctl:
                k = j
                bare_cr = False
                first_nl = None
                while k < n:
                    if first_nl is None and (_sw(s, k, "\\\n") or _sw(s, k, "\\\r\n")):
                        first_nl = k + (2 if _sw(s, k, "\\\n") else 3)
                    if _sw(s, k, "\\\n"):
                        k += 2
                        continue
                    if _sw(s, k, "\\\r\n"):
                        k += 3
                        continue
                    if ch_eq(s[k], "\n"):
                        k += 1
                        break
                    if ch_eq(s[k], "\r"):
                        if _sw(s, k, "\r\n"):
                            k += 2
                            break
                        bare_cr = True
                    k += 1
                if bare_cr and pol("cr_line") == "text":
                    # the whole physical line is literal text: emit its first char; the rest of the
                    # line is then no longer at a line start and flows through the generic rules below
                    out.append(s[i])
                    i += 1
                    continue
                if is_ctl:
                    return ("dir", j)
                if bare_cr and first_nl is not None and pol("cr_line") == "first-newline":
                    k = first_nl
                i = k
                continue
            if _sw(s, j, "%%"):
                k = j + 2
                while k < n and ch_eq(s[k], "%"):
                    k += 1
                out.extend(s[i:j])
                out.append("%")
                out.extend(s[j + 2:k])
                i = k
                continue
            j2 = i
            while j2 < n and is_space(s[j2]):
                j2 += 1
            if j2 > i and _sw(s, j2, "%%"):
                # only whitespace other than blank/newline can bring us here
                nonblank = False
                for c in s[i:j2]:
                    if not ch_in(c, " \t\n"):
                        nonblank = True
                if nonblank and pol("ws_pct") == "escape":
                    k = j2 + 2
                    while k < n and ch_eq(s[k], "%"):
                        k += 1
                    out.extend(s[i:j2])
                    out.append("%")
                    out.extend(s[j2 + 2:k])
                    i = k
                    continue
        if _sw(s, i, "${"):
            return ("dir", i)
        if _sw(s, i, "<%doc>"):
            e = _find(s, i + 6, "</%doc>")
            if e < 0:
                return ("dir", i)   # '<%doc>' without a closer: lexed as an (unknown / unclosed) tag
            i = e + 7
            if pol("doc_nl") == "dropped":
                if _sw(s, i, "\n"):
                    i += 1
                elif _sw(s, i, "\r\n"):
                    i += 2
            continue
        if _sw(s, i, "<%text"):
            k = i + 6
            while k < n and is_space(s[k]):
                k += 1
            if k < n and ch_eq(s[k], ">"):
                e = _find(s, k + 1, "</%text>")
                if e < 0:
                    return ("exc", i, "unclosed-text")
                out.extend(s[k + 1:e])
                i = e + 8
                continue
            return ("dir", i)
        if _sw(s, i, "<%"):
            return ("dir", i)
        if _sw(s, i, "</%"):
            # a complete closing tag  </% name >  is a directive (here: without opener -> exception)
            k = i + 3
            while k < n and ch_in(s[k], BLANK):
                k += 1
            k0 = k
            # name = shortest non-empty run of non-blank chars followed by optional blanks and '>'
            closed = False
            while k < n and not ch_in(s[k], BLANK):
                if k > k0 and ch_eq(s[k], ">"):
                    closed = True
                    break
                k += 1
            if not closed and k > k0:
                k2 = k
                while k2 < n and ch_in(s[k2], BLANK):
                    k2 += 1
                if k2 < n and ch_eq(s[k2], ">"):
                    closed = True
            if closed:
                return ("exc", i, "closer")
            out.append(s[i])      # a stray '<' is literal text
            i += 1
            continue
        if _sw(s, i, "\\\n"):
            i += 2
            continue
        if _sw(s, i, "\\\r\n"):
            i += 3
            continue
        out.append(s[i])
        i += 1
    return ("out", out)


def readings(s):
    """all admissible results of R on s: list of (policy dict, result)"""
    consulted = set()
    first = R(s, {}, consulted)
    if not consulted:
        return [({}, first)]
    keys = sorted(consulted)
    res = []
    import itertools
    seen = set()
    for combo in itertools.product(*[POLICIES[k] for k in keys]):
        pol = dict(zip(keys, combo))
        c2 = set()
        r = R(s, pol, c2)
        res.append((pol, r))
    return res
