# table of claimed checks (exec'd by tools/manifest.py)
SOLVER = "bounded symbolic execution of the real functions (symx) with z3 deciding every branch feasibility and verification condition; exhaustive path tree within the stated bound; witnesses replayed on the unpatched code"

claim("C01",
      "For EVERY string up to the length bound (quick: 4, thorough: 6 symbolic characters over a sound character abstraction) and for every instance of 16 directive skeletons with symbolic holes, the real Lexer is executed symbolically; z3 decides on every path that the text nodes equal the output of a reference tokenizer written from the documentation (one of the admissible readings where the statement is ambiguous), that every reported (line, column) equals the position formula, and that only Mako exceptions escape. Each path's witness is re-lexed by the unpatched lexer in a separate interpreter and must agree node for node; counterexamples are replayed through Template.render_unicode. The time clause is attacked by a solver search for exponentially ambiguous loops in the live lexer regexes.",
      "bounded: nothing is claimed for longer strings outside the skeletons; Python parsing and tag construction are stubbed; the character abstraction and the reference tokenizer are trusted (see evidence assumptions)",
      SOLVER, "DESIGN.md section 4 C01")
