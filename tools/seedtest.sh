#!/bin/sh
# tools/seedtest.sh <patch.diff> <Cxx> [tier] : apply a seeded change to /repo, run the check, undo the change
P="$1"; ID="$2"; TIER="${3:-quick}"
cd /repo || exit 9
git diff --quiet || { echo "repo dirty"; exit 9; }
git apply "$P" || { echo "patch does not apply"; exit 9; }
cd /verif && ./run "$ID" "$TIER" > /tmp/seedtest.$$.log 2>&1; RC=$?
cd /repo && git checkout -- . 
grep -E "^(VIOLATION|KNOWN-FINDING|HARNESS-ERROR|\[C)" /tmp/seedtest.$$.log | head -${LINES_MAX:-8}
echo "exit=$RC"; rm -f /tmp/seedtest.$$.log
