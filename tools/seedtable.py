"""prints the markdown tables of DESIGN.md section 0.4 from seeded*/matrix*.json
usage: .venv/bin/python tools/seedtable.py"""
import json, os, re
HERE = os.path.dirname(os.path.dirname(os.path.abspath(__file__)))


def first_file(diff):
    try:
        txt = open(diff).read()
    except OSError:
        return "?"
    m = re.search(r"^\+\+\+ b/(\S+)", txt, re.M)
    ctx = re.findall(r"^@@ [^@]*@@ ?(.*)$", txt, re.M)
    fn = ""
    for c in ctx:
        m2 = re.search(r"(def|class) (\w+)", c)
        if m2:
            fn = m2.group(2)
            break
    return (m.group(1) if m else "?") + ((" " + fn) if fn else "")


def table(sdir, matrix, before=None):
    m = json.load(open(os.path.join(HERE, sdir, matrix)))
    b = json.load(open(os.path.join(HERE, sdir, before))) if before and os.path.exists(os.path.join(HERE, sdir, before)) else {}
    out = ["| change | touches | caught by (quick tier) | first counterexample kind |" + (" before strengthening |" if b else ""), "|---|---|---|---|" + ("---|" if b else "")]
    own = other = miss = 0
    for k in sorted(m):
        pid, ch = k.split("/")
        caught = [(c, x) for c, x in m[k].items() if isinstance(x, dict) and x["exit"] == 1]
        na = [c for c, x in m[k].items() if not isinstance(x, dict)]
        kind = ""
        if caught:
            f = caught[0][1].get("first") or ""
            mm = re.search(r"replays/C\d\d-(.*?)-[0-9a-f]{10}\.py", f)
            kind = mm.group(1) if mm else ""
            if caught[0][0] == pid:
                own += 1
            else:
                other += 1
        else:
            miss += 1
        was = ""
        if b:
            cb = [c for c, x in b.get(k, {}).items() if isinstance(x, dict) and x["exit"] == 1]
            was = " %s |" % (", ".join(cb) if cb else "missed")
        out.append("| %s | %s | %s | %s |%s" % (k, first_file(os.path.join(HERE, sdir, pid, ch + ".diff")),
                                               ", ".join(c for c, _x in caught) or ("**missed**" if not na else "patch does not apply any more (%s)" % ", ".join(na)), kind, was))
    out.append("")
    out.append("%d changes: %d caught by the check of their own property, %d by a related check, %d missed." % (len(m), own, other, miss))
    return "\n".join(out)


if __name__ == "__main__":
    for sdir, matrix, before in (("seeded", "matrix.json", None), ("seeded2", "matrix.json", "matrix_before_strengthening.json"),
                                 ("seeded3", "matrix.json", "matrix_before_strengthening.json"),
                                 ("seeded4", "matrix.json", "matrix_before_strengthening.json")):
        if os.path.exists(os.path.join(HERE, sdir, matrix)):
            print("#### %s\n" % sdir)
            print(table(sdir, matrix, before))
            print()
