"""regenerates MANIFEST.json from the table below; validates it.  run:  .venv/bin/python tools/manifest.py"""
import json, os
HERE = os.path.dirname(os.path.dirname(os.path.abspath(__file__)))
TITLES = {json.loads(l)["id"]: json.loads(l)["title"] for l in open(os.path.join(HERE, "properties.jsonl"))}

CHECKS = {}
NA = {}


def claim(pid, text, note, technique, design_ref, category="model_checking"):
    CHECKS[pid] = dict(text=text, note=note, technique=technique, design_ref=design_ref, category=category)


exec(open(os.path.join(HERE, "tools", "claims.py")).read())

m = {
    "version": 1,
    "setup_cmd": "./setup.sh",
    "hooks": {
        "guard": "MAKO_VERIF",
        "enable": "no source hooks: checks import /repo's mako through an instrumenting import hook (AST rewrite at import time) and rebind stdlib names in the imported modules' namespaces at run time; nothing in /repo is guarded or changed for verification",
        "baseline_off_cmd": "cd /repo && /venv/bin/python -m pytest -ra -q -p no:cacheprovider --timeout=900 --continue-on-collection-errors",
        "source_commits": [],
        "add_only": True,
    },
    "engines": [{
        "name": "symx", "path": "symx/", "serves_properties": sorted(CHECKS),
        "kind_free_text": "purpose-built bounded symbolic executor for Python: runs the real mako functions (imported from /repo through an instrumenting loader) on symbolic characters/ints backed by z3 terms, forks on every symbolic branch, exhausts the path tree within the stated bound, decides each verification condition with z3 per path, replays every path witness and every counterexample on the unpatched real code",
    }],
    "checks": [],
    "not_applicable": [],
    "notes": "fix: commits in /repo and known findings are listed in known_findings.json; seeded changes under seeded/.",
}
for pid in sorted(TITLES):
    if pid in CHECKS:
        c = CHECKS[pid]
        m["checks"].append({
            "property_id": pid,
            "quick_cmd": "./run %s quick" % pid,
            "thorough_cmd": "./run %s thorough" % pid,
            "evidence_file": "evidence/%s.json" % pid,
            "replay_cmd_template": "/verif/.venv/bin/python {path}",
            "engine": "symx",
            "level_claimed": {"category": c["category"], "text": c["text"], "design_ref": c["design_ref"]},
            "level_note": c["note"],
            "technique": c["technique"],
        })
    else:
        m["not_applicable"].append({"property_id": pid, "reason": NA.get(pid, "check not built yet (build in progress; see DESIGN.md section 4)")})
json.dump(m, open(os.path.join(HERE, "MANIFEST.json"), "w"), indent=1)
try:
    import jsonschema
    jsonschema.validate(m, json.load(open("/root/.vp/MANIFEST.schema.json")))
    print("MANIFEST ok:", len(m["checks"]), "checks,", len(m["not_applicable"]), "not applicable")
except ImportError:
    print("written (jsonschema not available)")
