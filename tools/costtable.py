"""prints the measured-cost table of DESIGN.md section 7: quick tier from evidence/*.json, thorough tier from run logs given as arguments
usage: .venv/bin/python tools/costtable.py [thorough-log ...]"""
import json, os, re, sys
HERE = os.path.dirname(os.path.dirname(os.path.abspath(__file__)))
th = {}
for fn in sys.argv[1:]:
    for line in open(fn, errors="replace"):
        m = re.match(r"\[(C\d\d)\] thorough tier: (\d+) paths, (\d+) VCs, (\d+) violations, (\d+) known, (\d+) unconfirmed, (\d+) harness errors, ([\d.]+)s -> exit (\d+)", line)
        if m:
            th.setdefault(m.group(1), {}).update(paths=int(m.group(2)), vcs=int(m.group(3)), wall=float(m.group(8)), exit=int(m.group(9)))
        m = re.match(r"BOUND-NOT-EXHAUSTED property=(C\d\d)", line)
        if m:
            th.setdefault(m.group(1), {})["partial_seen"] = True
print("| property | quick: paths | VCs | wall s | thorough: paths | VCs | wall s | bound exhausted |")
print("|---|---|---|---|---|---|---|---|")
tq = tt = 0.0
for i in range(1, 21):
    pid = "C%02d" % i
    e = json.load(open(os.path.join(HERE, "evidence", pid + ".json")))
    cov = e["coverage"]
    q = (cov.get("evaluations"), cov.get("vcs_discharged"), e.get("wall_s"))
    t = th.get(pid, {})
    tq += q[2] or 0
    tt += t.get("wall", 0)
    print("| %s | %s | %s | %.0f | %s | %s | %s | %s |" % (pid, q[0], q[1], q[2] or 0, t.get("paths", "-"), t.get("vcs", "-"), ("%.0f" % t["wall"]) if "wall" in t else "-",
                                                     ("no" if t.get("partial_seen") else "yes") if t else "-"))
print("| total | | | %.0f | | | %.0f | |" % (tq, tt))
