"""run the quick check of the target property (and a few related ones) against every seeded change; writes <dir>/matrix.json
usage: [SEED_TREE=/tmp/clean] [SEED_DIR=seeded2] .venv/bin/python tools/seedmatrix.py [Cxx ...]
SEED_TREE: the git tree the change is applied to and the checks run against (default /repo; a scratch worktree keeps /repo clean)"""
import json, os, subprocess, sys, time
HERE = os.path.dirname(os.path.dirname(os.path.abspath(__file__)))
ALSO = {"C01": ["C02", "C19", "C18", "C08"], "C02": ["C19", "C10"], "C03": ["C19", "C13"], "C04": ["C19"], "C05": ["C13", "C19"], "C06": ["C07"], "C07": ["C09"], "C08": ["C18"],
        "C09": ["C15"], "C15": ["C14"], "C14": ["C15", "C16"], "C13": ["C03"], "C12": ["C11"], "C11": ["C12"], "C16": ["C17"], "C17": ["C06"], "C19": ["C18"], "C20": ["C18"]}
TREE = os.environ.get("SEED_TREE", "/repo")
SDIR = os.environ.get("SEED_DIR", "seeded")
ids = sys.argv[1:] or sorted(d for d in os.listdir(os.path.join(HERE, SDIR)) if d.startswith("C"))
out_path = os.path.join(HERE, SDIR, "matrix.json")
matrix = json.load(open(out_path)) if os.path.exists(out_path) else {}
for pid in ids:
    for k in ("1", "2"):
        patch = os.path.join(HERE, SDIR, pid, "change%s.diff" % k)
        if not os.path.exists(patch):
            continue
        key = "%s/change%s" % (pid, k)
        res = {}
        for chk in [pid] + ALSO.get(pid, []):
            assert subprocess.run(["git", "-C", TREE, "diff", "--quiet"]).returncode == 0, "tree dirty"
            a = subprocess.run(["git", "-C", TREE, "apply", patch])
            if a.returncode != 0:
                res[chk] = "patch does not apply to the fixed tree"
                continue
            t = time.time()
            try:
                r = subprocess.run([os.path.join(HERE, "run"), chk, "quick"], capture_output=True, text=True, timeout=1500,
                                   env=dict(os.environ, MAKO_TREE=TREE))
                viol = [l for l in r.stdout.splitlines() if l.startswith("VIOLATION")]
                res[chk] = dict(exit=r.returncode, violations=len(viol), first=(viol[0] if viol else None), seconds=round(time.time() - t, 1))
            finally:
                subprocess.run(["git", "-C", TREE, "checkout", "--", "."])
            print(key, chk, res[chk], flush=True)
            if isinstance(res[chk], dict) and res[chk]["exit"] == 1:
                break
        matrix[key] = res
        json.dump(matrix, open(out_path, "w"), indent=1, sort_keys=True)
