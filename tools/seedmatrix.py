"""run the quick check of the target property (and a few related ones) against every seeded change; writes seeded/matrix.json
usage: .venv/bin/python tools/seedmatrix.py [Cxx ...]"""
import json, os, subprocess, sys, time
HERE = os.path.dirname(os.path.dirname(os.path.abspath(__file__)))
ALSO = {"C01": ["C18", "C08"], "C05": ["C13"], "C08": ["C18"], "C14": ["C16"], "C13": ["C03"], "C03": ["C13"], "C12": ["C11"], "C11": ["C12"]}
ids = sys.argv[1:] or sorted(d for d in os.listdir(os.path.join(HERE, "seeded")) if d.startswith("C"))
out_path = os.path.join(HERE, "seeded", "matrix.json")
matrix = json.load(open(out_path)) if os.path.exists(out_path) else {}
for pid in ids:
    for k in ("1", "2"):
        patch = os.path.join(HERE, "seeded", pid, "change%s.diff" % k)
        if not os.path.exists(patch):
            continue
        key = "%s/change%s" % (pid, k)
        res = {}
        for chk in [pid] + ALSO.get(pid, []):
            assert subprocess.run(["git", "-C", "/repo", "diff", "--quiet"]).returncode == 0, "repo dirty"
            a = subprocess.run(["git", "-C", "/repo", "apply", patch])
            if a.returncode != 0:
                res[chk] = "patch does not apply to the fixed tree"
                continue
            t = time.time()
            try:
                r = subprocess.run([os.path.join(HERE, "run"), chk, "quick"], capture_output=True, text=True, timeout=1500)
                viol = [l for l in r.stdout.splitlines() if l.startswith("VIOLATION")]
                res[chk] = dict(exit=r.returncode, violations=len(viol), first=(viol[0] if viol else None), seconds=round(time.time() - t, 1))
            finally:
                subprocess.run(["git", "-C", "/repo", "checkout", "--", "."])
            print(key, chk, res[chk], flush=True)
            if isinstance(res[chk], dict) and res[chk]["exit"] == 1:
                break
        matrix[key] = res
        json.dump(matrix, open(out_path, "w"), indent=1, sort_keys=True)
