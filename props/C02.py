"""C02 - expression substitution applies the filter pipeline in the documented order."""
import types
import z3

from symx import core, values, driver, realproc
from symx.values import SymStr, SymChar, sym_string, str_eq_term, conc, lift
from oracles import exprscan
from . import common, C01

CG = FL = None

CONTEXTS = {
    "plain": ("${", "}"),
    "paren": ("${(", ")}"),
    "index-filter": ("${x[", "] | h}"),
    "dq-string": ('${"', '"}'),
    "triple-string": ("${'''", "'''}"),
    "call-then-filter": ("${f(", ") | g}"),
    "filter-part": ("${x | ", "}"),
    "filter-call": ("${x | f(", ")}"),
    "dict": ("${{", "}}"),
}


def setup():
    global CG, FL
    C01.setup()
    if CG is None:
        CG, FL = common.mako("codegen", "filters")


def kernel():
    L = C01.L
    return [L.Lexer.match_expression, L.Lexer.parse_until_text, CG._GenerateRenderMethod.create_filter_callable,
            CG._GenerateRenderMethod.visitExpression]


# ------------------------------------------------------------------ (a) extent of the expression
def h_extent(n, ctx, tail):
    op, cl = CONTEXTS[ctx]

    def h(p):
        e = sym_string(n, "e")
        t = sym_string(tail, "t")
        s = SymStr(list(op) + e.items + list(cl) + t.items)
        r = C01.run_lexer(s)
        r["scan"] = exprscan.scan(s.items, 2)
        return r
    return h


def on_extent(p, r, exc, acc):
    if exc is not None:
        acc.candidate(kind="non-mako-exception", input=None, detail="%s: %s" % (type(exc).__name__, str(exc)[:150]))
        return
    s = r["s"]
    sc = r["scan"]
    m = p.witness()
    w = s.concretize(m)
    acc.counts["scan:" + sc[0] + ("" if sc[0] != "undet" else ":" + sc[1])] += 1
    if sc[0] == "undet":
        return
    acc.tags["asserted"] += 1
    if sc[0] == "unterminated":
        acc.vcs += 1
        if r["exc"] is None:
            acc.candidate(kind="unterminated-accepted", input=dict(template=w), detail="no closing brace at nesting depth 0, yet lexed")
        return
    _, text, esc, resume = sc
    if r["exc"] is not None:
        acc.vcs += 1
        # a later construct in the tail may legitimately fail; only an error located inside the expression is a violation
        e = r["exc"]
        if e.lineno == 1 and e.pos == 1:
            acc.candidate(kind="wellformed-rejected", input=dict(template=w), detail="%s" % str(e)[:120])
        return
    nodes = r["tree"].nodes
    first = nodes[0] if nodes else None
    if type(first).__name__ != "Expression":
        acc.vcs += 1
        acc.candidate(kind="no-expression-node", input=dict(template=w), detail=repr(first)[:100])
        return
    exp_text = SymStr(text).replace("\r\n", "\n")
    exp_esc = SymStr(esc).strip() if esc is not None else SymStr([])
    got_text, got_esc = lift(first.text), lift(first.escapes_code.code)
    acc.vcs += 2
    st, mod = p.vc(z3.And(str_eq_term(got_text, exp_text), str_eq_term(got_esc, exp_esc)))
    if st == "fails":
        acc.candidate(kind="expression-cut-short-or-long", input=dict(template=s.concretize(mod)),
                      detail="text %r filters %r" % (got_text.concretize(mod), got_esc.concretize(mod)))
    elif st == "unknown":
        acc.vcs_unknown += 1
    # lexing resumes right after the closing brace: the first match after the expression starts at `resume`
    starts = [x[0] for x in r["rec"]]
    after = [mp for mp in starts if mp >= 2]
    acc.vcs += 1
    if resume not in starts and resume < len(s):
        acc.candidate(kind="resume-position", input=dict(template=w), detail="expected lexing to resume at %d, matches at %r" % (resume, starts))
    real = realproc.call("lex_structure", w)
    acc.replayed += 1
    mine = ("ok", C01.conc_flat(C01.flat(r["tree"].nodes), m))
    if C01._norm(real) != C01._norm(mine):
        raise core.EngineError("engine/real disagreement on %r: real=%r mine=%r" % (w, real, mine))
    acc.sample(dict(template=w, text=got_text.concretize(m), filters=got_esc.concretize(m)))


# ------------------------------------------------------------------ (b) composition of the pipeline
CONCRETE_FILTERS = ["n", "h", "trim", "entity", "str", "unicode", "decode.utf8", "ff", "gg(1)", "ns.ff(aa, bb)", "gg((-2) ** 2)", "gg(u)",
                    "ns.mk(3).ap", "gg(len([e for e in (1, 2)]))"]        # an attribute after a call; a comprehension as argument
# ways of writing the same filter list (the list is Python: blanks, a line break after a comma and a comment are no part of it)
SPELLINGS = ["plain", "newline-after-comma", "comment-after-last", "leading-newline"]
DEFAULTS = [None, [], ["str"], ["ff"], ["ff", "h"], ("ff",)]          # None = not configured -> ['str']
PAGE = [None, [], ["h"], ["n"], ["gg(1)", "n"], ["ff", "trim"]]
TABLE = {"x": "filters.xml_escape", "h": "filters.html_escape", "u": "filters.url_escape", "trim": "filters.trim",
         "entity": "filters.html_entities_escape", "unicode": "str", "str": "str", "decode": "decode"}


def pick_filter(p, tag):
    """a filter spelling: a symbolic 1-character name (covers n, h, x, u and every other single letter) or a concrete longer one"""
    k = p.choose(len(CONCRETE_FILTERS) + 1, tag)
    if k == 0:
        c = values.new_char(tag)
        p.assume(z3.And(c.v >= 97, c.v <= 122))
        return SymStr([c])
    return CONCRETE_FILTERS[k - 1]


def h_compose(nlocal):
    def h(p):
        local = [pick_filter(p, "l%d" % i) for i in range(nlocal)]
        d = DEFAULTS[p.choose(len(DEFAULTS), "defaults")]
        pg = PAGE[p.choose(len(PAGE), "page")]
        is_expr = bool(p.choose(2, "is_expression"))
        compiler = types.SimpleNamespace(
            pagetag=None if pg is None else types.SimpleNamespace(filter_args=types.SimpleNamespace(args=list(pg))),
            default_filters=["str"] if d is None else d)
        gen = CG._GenerateRenderMethod.__new__(CG._GenerateRenderMethod)
        gen.compiler = compiler
        try:
            out, err = gen.create_filter_callable(list(local), "X", is_expr), None
        except Exception as e:
            out, err = None, e
        return dict(local=local, d=d, pg=pg, is_expr=is_expr, out=out, err=err)
    return h


def is_n(p, f):
    return f == "n" if isinstance(f, str) else (len(f) == 1 and values.ch_eq(f.items[0], "n"))


def ref_compose(p, local, d, pg, is_expr):
    """the statement: f_k(...f_1(P(D(x)))) ; local n drops D and P ; n in P drops D ; flags map through the table"""
    d = ["str"] if d is None else d
    chain = list(local)
    if is_expr and not any(is_n(p, f) for f in local):
        if pg is not None:
            chain = list(pg) + chain
        if not any(is_n(p, f) for f in (pg or [])):
            chain = list(d) + chain
    target = SymStr(list("X"))
    for f in chain:
        if is_n(p, f):
            continue
        if isinstance(f, SymStr):
            name = None
            for k, v in TABLE.items():
                if len(k) == 1 and values.ch_eq(f.items[0], k):
                    name = v
                    break
            fn = SymStr(list(name)) if name else f
        else:
            base, _, args = f.partition("(")
            args = ("(" + args) if args else ""
            if base.startswith("decode."):
                fn = "filters." + base + args
            else:
                fn = TABLE.get(base, base) + args
            fn = SymStr(list(fn))
        target = fn + "(" + target + ")"
    return target


def on_compose(p, r, exc, acc):
    if exc is not None:
        acc.candidate(kind="compose-exception", input=None, detail="%s: %s" % (type(exc).__name__, str(exc)[:150]))
        return
    acc.tags["asserted"] += 1
    m = p.witness()
    if r.get("err") is not None:
        acc.vcs += 1
        acc.candidate(kind="pipeline-render", input=dict(local=[conc(f, m) for f in r["local"]], default_filters=r["d"], page_expression_filter=r["pg"], is_expression=True),
                      detail="the code generator raised %s: %s" % (type(r["err"]).__name__, r["err"]))
        return
    exp = ref_compose(p, r["local"], r["d"], r["pg"], r["is_expr"])
    out = lift(r["out"])
    cfg = lambda mod: dict(local=[conc(f, mod) for f in r["local"]], default_filters=r["d"], page_expression_filter=r["pg"], is_expression=r["is_expr"])
    acc.vcs += 1
    oc, ec = out.concrete_or_none(), exp.concrete_or_none()
    if oc is not None and ec is not None:
        # concrete on this path: the emitted expression may differ in redundant parentheses, not in meaning
        import ast as _ast
        try:
            same = _ast.dump(_ast.parse(oc, mode="eval")) == _ast.dump(_ast.parse(ec, mode="eval"))
        except SyntaxError:
            same = oc == ec
        if not same:
            acc.candidate(kind="pipeline-order", input=cfg(m), detail="emitted %r, documented %r" % (oc, ec))
    else:
        st, mod = p.vc(str_eq_term(out, exp))
        if st == "fails":
            acc.candidate(kind="pipeline-order", input=cfg(mod), detail="emitted %r, documented %r" % (out.concretize(mod), exp.concretize(mod)))
        elif st == "unknown":
            acc.vcs_unknown += 1
    # concrete replay through a real Template with tagging, non-commuting filters
    if r["is_expr"]:
        for sp in (SPELLINGS if r["local"] else SPELLINGS[:1]):
            c = dict(cfg(m), spelling=sp)
            real = realproc.call("pipeline_render", c)
            acc.replayed += 1
            acc.vcs += 1
            if real[0] != real[1]:
                acc.candidate(kind="pipeline-render" + ("" if sp == "plain" else "-" + sp), input=c,
                              detail="rendered %r, documented composition gives %r" % (real[0], real[1]))
    elif r["local"] and not any(is_n(p, f) for f in r["local"]):
        # the same list as filter= of a def / block / <%text>, and as buffer_filters: no D, no P
        c = cfg(m)
        for where in ("def", "block", "text", "buffer_filters"):
            real = realproc.call("pipeline_render_nonexpr", c, where)
            acc.replayed += 1
            if real[0] != real[1]:
                acc.candidate(kind="pipeline-render-" + where, input=dict(c, where=where), detail="rendered %r, documented %r" % (real[0], real[1]))
    acc.sample(dict(cfg(m), emitted=out.concretize(m)))


def make_replay(c):
    i = c["input"] or {}
    body = '''
sys.path.insert(0, "/verif")
CASE = %r
KIND = %r
bad = None
if "template" in CASE:
    from oracles import exprscan
    from mako import lexer, parsetree
    T = CASE["template"]
    print("template:", repr(T))
    sc = exprscan.scan(list(T), 2)
    print("reference scan:", sc[0])
    from props.realops import lex_structure
    res = lex_structure(T)
    print("lexer:", repr(res)[:300])
    if sc[0] == "ok":
        text = "".join(sc[1]).replace("\\r\\n", "\\n"); esc = "".join(sc[2]).strip() if sc[2] is not None else ""
        if res[0] != "ok":
            if res[2:] == (1, 1): bad = "well-formed expression rejected"
        else:
            first = res[1][0]
            if first[0] != "Expression" or first[1] != text or first[2] != esc: bad = "expression is %%r | %%r, lexer gave %%r" %% (text, esc, first[:3])
    elif sc[0] == "unterminated" and res[0] == "ok": bad = "unterminated expression accepted"
elif "where" in CASE:
    from props.realops import pipeline_render_nonexpr
    got, want = pipeline_render_nonexpr(CASE, CASE["where"])
    print("filter list on", CASE["where"], ":", CASE["local"]); print("rendered:", repr(got)); print("documented:", repr(want))
    if got != want: bad = "filter= / buffer_filters do not apply exactly the listed filters in order"
else:
    from props.realops import pipeline_render
    got, want = pipeline_render(CASE)
    print("config:", CASE); print("rendered:", repr(got)); print("documented composition:", repr(want))
    if got != want: bad = "filters applied in a different order / set than documented"
print("VIOLATED: " + bad if bad else "HOLDS")
sys.exit(1 if bad else 0)
''' % (i, c["kind"])
    return (c["kind"], body, (c["kind"], repr(sorted(i.items(), key=str))))


def classify(c):
    return None


def run(check, tier):
    setup()
    check.encode(*kernel())
    check.assume(
        "(a) the expression body is a fully symbolic string over the lexer's character abstraction placed in nine bracket/quote/filter "
        "contexts; the oracle is an independent scanner of Python's lexical structure (oracles/exprscan.py); bodies it cannot judge "
        "(comment at depth 0, unterminated string, newline in a single-quoted string, mismatched brackets) are not asserted",
        "(b) create_filter_callable is driven directly with solver-chosen configurations: each local filter is a symbolic one-letter name "
        "or one of %r; default_filters from %r; page expression_filter from %r; is_expression symbolic" % (CONCRETE_FILTERS, DEFAULTS, PAGE),
        "Python parsing of the filter list (ArgumentList) happens only in the concrete replay through a real Template, once per way of "
        "writing the list (%s); gg(u) takes a context variable named like a flag as its argument" % ", ".join(SPELLINGS))
    check.not_claimed("nesting deeper than the length bound allows", "Python-level meaning of filter arguments (C19)",
                      "filter= on defs/blocks/<%text> and buffer_filters beyond the replayed configurations")
    Ln = {"quick": 2, "thorough": 4}[tier]
    jobs = []
    for ctx in CONTEXTS:
        for n in range(0, Ln + 1):
            tail = 1 if n < Ln else 0
            jobs.append(("C02-a-%s-%d" % (ctx, n), h_extent(n, ctx, tail), on_extent,
                         "extent of %s...%s with %d symbolic chars (+%d after)" % (CONTEXTS[ctx][0], CONTEXTS[ctx][1], n, tail),
                         dict(context=CONTEXTS[ctx], symbolic_chars=n + tail), ("asserted",) if n == 0 else ()))
    for k in range(0, {"quick": 2, "thorough": 3}[tier] + 1):
        jobs.append(("C02-b-%d" % k, h_compose(k), on_compose, "filter pipeline with %d local filters" % k,
                     dict(local_filters=k, defaults=len(DEFAULTS), page=len(PAGE)), ("asserted",)))
    for j in jobs:
        driver.register(j[0], j[1], j[2])
    cands = []
    for name, _h, _o, title, bounds, req in jobs:
        st, acc = driver.explore(name, time_limit=1200)
        check.section(title, st, acc, bounds, tags_required=req)
        cands.extend(acc.candidates)
    check.confirm(cands, make_replay, classify)
    driver.close_pool()
    realproc.shutdown()
