"""shared set-up for property harnesses: instrumented import of /repo's mako, domains, stubs."""
import os
import re as _re
import re._parser as _parser
import re._constants as _C
import sys
import types

from symx import core, values, symre, loader
from symx.values import SymStr, SymChar, SymInt

REPO = os.environ.get("MAKO_TREE", "/repo")
_LOADED = {}


def mako(*names):
    """instrumented modules of /repo's current working tree (loaded once per process)"""
    if not _LOADED:
        loader.install("mako", os.path.join(REPO, "mako"))
        _LOADED["ok"] = True
    out = []
    for n in names:
        mod = __import__("mako." + n, fromlist=["x"])
        if not getattr(mod, "__sx_instrumented__", False):
            raise RuntimeError("module mako.%s is not the instrumented copy" % n)
        if not getattr(mod, "__sx_re_rebound__", False):
            loader.rebind_re(mod)
            mod.__sx_re_rebound__ = True
        out.append(mod)
    return out[0] if len(out) == 1 else out


def code_constants(module):
    """all str constants in the code objects of a module (regex sources, literals compared against)"""
    out = set()
    seen = set()

    def walk(co):
        if id(co) in seen:
            return
        seen.add(id(co))
        for c in co.co_consts:
            if isinstance(c, str):
                out.add(c)
            elif isinstance(c, types.CodeType):
                walk(c)
            elif isinstance(c, (tuple, frozenset)):
                for x in c:
                    if isinstance(x, str):
                        out.add(x)

    for v in vars(module).values():
        if isinstance(v, types.FunctionType) and v.__module__ == module.__name__:
            walk(v.__code__)
        elif isinstance(v, type) and v.__module__ == module.__name__:
            for w in vars(v).values():
                f = getattr(w, "__func__", w)
                if isinstance(f, types.FunctionType):
                    walk(f.__code__)
                elif isinstance(w, property) and w.fget:
                    walk(w.fget.__code__)
                elif isinstance(w, (str,)):
                    out.add(w)
                elif isinstance(w, symre.Pattern):
                    out.add(w.pattern)
        elif isinstance(v, symre.Pattern):
            out.add(v.pattern)
        elif isinstance(v, str):
            out.add(v)
    return out


def regex_sets(constants):
    """membership predicates of every character set / range occurring in constants that parse as regexes"""
    preds = []
    lits = set()

    def walk(tree):
        for op, av in tree:
            if op is _C.IN:
                items = list(av)
                preds.append(("set%d" % len(preds), (lambda its: lambda c: symre.set_concrete(its, c))(items)))
                for o2, a2 in items:
                    if o2 is _C.LITERAL:
                        lits.add(a2)
                    elif o2 is _C.RANGE:
                        lits.update((a2[0], a2[1]))
            elif op in (_C.LITERAL, _C.NOT_LITERAL):
                lits.add(av)
            elif op is _C.SUBPATTERN:
                walk(av[3])
            elif op is _C.BRANCH:
                for alt in av[1]:
                    walk(alt)
            elif op in (_C.MAX_REPEAT, _C.MIN_REPEAT):
                walk(av[2])
            elif op in (_C.ASSERT, _C.ASSERT_NOT):
                walk(av[1])

    for c in constants:
        for fl in (0, _re.X):
            try:
                walk(_parser.parse(c, fl))
            except Exception:
                pass
    return preds, lits


def domain_for(modules, extra_literals="", reps=2, ascii_all=True):
    consts = set()
    for m in modules:
        consts |= code_constants(m)
    preds, lits = regex_sets(consts)
    for c in consts:
        lits.update(ord(ch) for ch in c)
    lits.update(ord(ch) for ch in extra_literals)
    if ascii_all:
        lits.update(range(128))
    lits = {c for c in lits if not (0xD800 <= c <= 0xDFFF)}
    return values.build_domain(values.STD_PREDS + preds, lits, reps=reps)


class StubCode:
    """stands in for mako.ast.PythonCode & co: records the text, parses nothing"""

    def __init__(self, code, **kw):
        self.code = code
        self.declared_identifiers = set()
        self.undeclared_identifiers = set()
        self.args = []
        self.kwargs = kw


def stub_ast_namespace():
    return types.SimpleNamespace(PythonCode=StubCode, ArgumentList=StubCode, PythonFragment=StubCode,
                                 FunctionDecl=StubCode, FunctionArgs=StubCode)


def items_of(x):
    return values._items(x)
