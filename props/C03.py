"""C03 - control lines and Python blocks execute with Python semantics; the `loop` object."""
import types
import z3

from symx import core, values, driver, realproc
from symx.values import SymStr, SymInt, SymBool, sym_string, str_eq_term, conc
from . import common

RT = CG = TP = None


def setup():
    global RT, CG, TP
    if RT is not None:
        return
    RT, CG, TP = common.mako("runtime", "codegen", "template")


def kernel():
    LC, LS = RT.LoopContext, RT.LoopStack
    return [LC.__init__, LC.__iter__, LC.__len__, LC.reverse_index.fget, LC.first.fget, LC.last.fget, LC.even.fget, LC.odd.fget,
            LC.cycle, LS._enter, LS._exit, LS._push, LS._pop, LS._top.fget, CG.mangle_mako_loop,
            CG._GenerateRenderMethod.visitControlLine]


# ------------------------------------------------------------------ loop arithmetic, unbounded in n
class Sized:
    def __init__(self, n):
        self.n = n

    def __len__(self):
        return self.n

    def __iter__(self):
        return iter(())


def h_loopctx(p):
    n = values.new_int("n", 1, None)
    i = values.new_int("i", 0, None)
    p.assume(i.e < n.e)
    lc = RT.LoopContext(Sized(n))
    lc.index = i
    k = 1 + p.choose(4, "arity")
    vals = tuple("v%d" % j for j in range(k))
    got = dict(reverse_index=lc.reverse_index, first=lc.first, last=lc.last, even=lc.even, odd=lc.odd, cycle=lc.cycle(*vals), len=len(lc) if False else RT.len(lc))
    # one iteration step of the generator protocol from index i
    lc2 = RT.LoopContext([10, 20, 30])
    lc2.index = i
    it = iter(lc2)
    first_item = next(it)
    idx_during = lc2.index
    second = next(it)
    idx_after = lc2.index
    return dict(n=n, i=i, k=k, got=got, vals=vals, first_item=first_item, idx_during=idx_during, idx_after=idx_after)


def on_loopctx(p, r, exc, acc):
    if exc is not None:
        acc.candidate(kind="loopcontext-exception", input=None, detail="%s: %s" % (type(exc).__name__, str(exc)[:200]))
        return
    n, i, k, g = r["n"].e, r["i"].e, r["k"], r["got"]
    acc.tags["asserted"] += 1
    e = lambda x: x.e if isinstance(x, SymInt) else x
    b = lambda x: z3.BoolVal(bool(x))
    conds = {
        "reverse_index": e(g["reverse_index"]) == n - i - 1,
        "first": b(g["first"]) == (i == 0),
        "last": b(g["last"]) == (i == n - 1),
        "odd": b(g["odd"]) == (i % 2 == 1),
        "even": b(g["even"]) == (i % 2 == 0),
        "cycle": z3.Or([z3.And(i % k == j, z3.BoolVal(g["cycle"] == r["vals"][j])) for j in range(k)]),
        "len": e(g["len"]) == n,
        "iter-yields-first": z3.BoolVal(r["first_item"] == 10),
        "index-constant-during-body": e(r["idx_during"]) == i,
        "index-incremented-after-body": e(r["idx_after"]) == i + 1,
    }
    for name, f in conds.items():
        acc.vcs += 1
        st, mod = p.vc(f)
        if st == "fails":
            acc.candidate(kind="loop-" + name, input=dict(length=mod.eval(n, model_completion=True).as_long(), index=mod.eval(i, model_completion=True).as_long(), arity=k),
                          detail="%s = %r" % (name, conc(g.get(name), mod) if name in g else None))
        elif st == "unknown":
            acc.vcs_unknown += 1
    m = p.witness()
    acc.sample(dict(length=m.eval(n, model_completion=True).as_long(), index=m.eval(i, model_completion=True).as_long(), arity=k))


# ------------------------------------------------------------------ loop stack on the real generated code of a nested-loop template
NESTED = """% for a in outer():
[o${loop.index}
% try:
% for b in inner(a):
(i${loop.index}p${loop.parent.index}
% if brk(a, b):
<% break %>
% endif
${boom(a, b)})
% endfor
% except Boom:
!
% endtry
o${loop.index}${'L' if sized and loop.last else ''}]
% endfor
% for c in tail():
t${loop.index}
% endfor
end"""


class Boom(Exception):
    pass


def h_nested(p):
    t = TP.Template(NESTED)
    flags = {}

    def flag(name):
        if name not in flags:
            flags[name] = SymBool(p.new_bool(name))
        return bool(flags[name])

    outer_kind = p.choose(3, "outer_kind")       # list / generator (no len) / empty list

    def outer():
        if outer_kind == 0:
            return [0, 1]
        if outer_kind == 1:
            return (x for x in [0, 1])
        return []

    def inner(a):
        if flag("inner_iterable_raises_%d" % a):
            raise Boom()
        return [0, 1]

    def brk(a, b):
        return flag("break_%d_%d" % (a, b))

    def boom(a, b):
        if flag("body_raises_%d_%d" % (a, b)):
            raise Boom()
        return ""

    def tail():
        return ["x"]

    out = exc = None
    try:
        out = t.render(outer=outer, inner=inner, brk=brk, boom=boom, Boom=Boom, tail=tail, sized=outer_kind != 1)
    except Exception as e:
        exc = e
    return dict(out=out, exc=exc, flag=flag, outer_kind=outer_kind, flags=flags)


def ref_nested(flag, outer_kind):
    """the same loops written in Python, `loop` being the innermost enclosing loop's bookkeeping"""
    out = []
    items = [0, 1] if outer_kind in (0, 1) else []
    sized = outer_kind != 1
    for oi, a in enumerate(items):
        out.append("[o%d" % oi)
        try:
            if flag("inner_iterable_raises_%d" % a):
                raise Boom()
            for ii, b in enumerate([0, 1]):
                out.append("(i%dp%d" % (ii, oi))
                if flag("break_%d_%d" % (a, b)):
                    break
                if flag("body_raises_%d_%d" % (a, b)):
                    raise Boom()
                out.append(")")
        except Boom:
            out.append("!")
        out.append("o%d%s]" % (oi, "L" if sized and oi == len(items) - 1 else ""))
    out.append("t0")
    out.append("end")
    return "".join(out)


def on_nested(p, r, exc, acc):
    if exc is not None:
        acc.candidate(kind="nested-harness-exception", input=None, detail="%s: %s" % (type(exc).__name__, str(exc)[:200]))
        return
    want = ref_nested(r["flag"], r["outer_kind"])
    decided = {k: bool(v) for k, v in r["flags"].items()}
    desc = dict(outer_kind=["list", "generator", "empty"][r["outer_kind"]], decisions=decided)
    if want is None:
        acc.counts["unsized outer iterable with loop.last: not asserted"] += 1
        # still: everything before the TypeError of loop.last must be right; the exception must be that TypeError
        acc.vcs += 1
        if not isinstance(r["exc"], TypeError):
            acc.candidate(kind="loop-stack-unsized", input=desc, detail="expected TypeError from loop.last, got %r / %r" % (r["exc"], r["out"]))
        return
    acc.tags["asserted"] += 1
    acc.vcs += 1
    got = None if r["out"] is None else "".join(r["out"].split())
    if r["exc"] is not None or got != want:
        acc.candidate(kind="loop-stack", input=desc, detail="rendered %r (exception %r), python semantics give %r" % (got, r["exc"], want))
    acc.sample(dict(desc, output=got))


# ------------------------------------------------------------------ the for-header pattern
TARGETS = ["x", "x, y", "(x, y)", "x,y", "i, (a, b)"]
ITER = values.Domain([ord(c) for c in "ab()[], :1"])
CMT = values.Domain([ord(c) for c in "ab :#"])


def h_forheader(n, ncomment):
    def h(p):
        target = TARGETS[p.choose(len(TARGETS), "target")]
        e = sym_string(n, "e", ITER)
        # the iterable is an expression: it neither starts nor ends with a blank and is not empty
        if n:
            p.assume(z3.And(e.items[0].v != 32, e.items[-1].v != 32))
        text = SymStr(list("for " + target + " in ") + ["z"] + e.items + [":"])
        if ncomment is not None:
            c = sym_string(ncomment, "c", CMT)
            text = text + SymStr(list(" #") + c.items)
        m = CG._FOR_LOOP.match(text)
        return dict(target=target, e=SymStr(["z"] + e.items), text=text, m=m, ncomment=ncomment)
    return h


def on_forheader(p, r, exc, acc):
    if exc is not None:
        acc.candidate(kind="forheader-exception", input=None, detail="%s: %s" % (type(exc).__name__, str(exc)[:200]))
        return
    acc.tags["asserted"] += 1
    m = r["m"]
    wit = p.witness()
    acc.vcs += 1
    if m is None:
        acc.candidate(kind="for-header-not-recognised", input=dict(header=r["text"].concretize(wit)), detail="")
        return
    g1, g2 = values.lift(m.group(1)), values.lift(m.group(2))
    st, mod = p.vc(z3.And(str_eq_term(g1, SymStr(list(r["target"]))), str_eq_term(g2, r["e"])))
    if st == "fails":
        acc.candidate(kind="for-header-split", input=dict(header=r["text"].concretize(mod)),
                      detail="target %r iterable %r" % (g1.concretize(mod), g2.concretize(mod)))
    acc.sample(dict(header=r["text"].concretize(wit)))


def make_replay(c):
    i = c["input"] or {}
    body = """
sys.path.insert(0, "/verif")
from mako.template import Template
from mako import runtime
CASE = __CASE__
KIND = __KIND__
bad = None
if "header" in CASE:
    # a loop with this header that uses `loop` must compile and iterate
    hdr = CASE["header"]
    tmpl = "% " + hdr + "\\n${loop.index}\\n% endfor\\n"
    print("control line:", repr(hdr))
    try:
        compile(hdr.split("#")[0].rstrip() + "\\n    pass\\n", "<hdr>", "exec")
    except SyntaxError as e:
        print("not a valid Python for statement (%s): not a meaningful case" % e); sys.exit(0)
    try:
        Template(tmpl)
        print("template compiles")
    except Exception as e:
        bad = "template with a valid for header does not compile: %s: %s" % (type(e).__name__, str(e)[:100])
elif "decisions" in CASE:
    from props.C03 import NESTED, Boom, ref_nested
    D = CASE["decisions"]
    flag = lambda name: D.get(name, False)
    kind = ["list", "generator", "empty"].index(CASE["outer_kind"])
    outer = (lambda: [0, 1]) if kind == 0 else (lambda: (x for x in [0, 1])) if kind == 1 else (lambda: [])
    def inner(a):
        if flag("inner_iterable_raises_%d" % a): raise Boom()
        return [0, 1]
    def boom(a, b):
        if flag("body_raises_%d_%d" % (a, b)): raise Boom()
        return ""
    want = ref_nested(flag, kind)
    try:
        got = "".join(Template(NESTED).render(outer=outer, inner=inner, brk=lambda a, b: flag("break_%d_%d" % (a, b)), boom=boom, Boom=Boom, tail=lambda: ["x"], sized=kind != 1).split())
    except Exception as e:
        got = "raised %s: %s" % (type(e).__name__, e)
    print("decisions:", D); print("rendered:", got); print("python   :", want)
    if want is None:
        if not got.startswith("raised TypeError"): bad = "expected the documented TypeError of loop.last on an unsized iterable"
    elif got != want: bad = "loop bookkeeping differs from the equivalent Python loops"
else:
    n, i, k = CASE["length"], CASE["index"], CASE["arity"]
    lc = runtime.LoopContext(range(n)); lc.index = i
    vals = tuple("v%d" % j for j in range(k))
    checks = dict(reverse_index=(lc.reverse_index, n - i - 1), first=(lc.first, i == 0), last=(lc.last, i == n - 1), odd=(lc.odd, i % 2 == 1),
                  even=(lc.even, i % 2 == 0), cycle=(lc.cycle(*vals), vals[i % k]), len=(len(lc), n))
    for name, (got, want) in checks.items():
        if got != want: bad = "loop.%s is %r at index %d of %d, documented %r" % (name, got, i, n, want)
    lc2 = runtime.LoopContext([10, 20, 30]); lc2.index = i
    it = iter(lc2); next(it)
    if lc2.index != i: bad = "index changes during the body"
    next(it)
    if lc2.index != i + 1: bad = "index not incremented by one per iteration"
print("VIOLATED: " + bad if bad else "HOLDS")
sys.exit(1 if bad else 0)
""".replace("__CASE__", repr(i)).replace("__KIND__", repr(c["kind"]))
    return (c["kind"], body, (c["kind"], repr(sorted(i.items(), key=str))))


def classify(c):
    i = c.get("input") or {}
    if c["kind"] in ("for-header-split", "for-header-not-recognised") and "#" in i.get("header", ""):
        cmt = i["header"].split("#", 1)[1]
        if ":" in cmt:
            return "C03-for-header-comment-colon"
    return None


def run(check, tier):
    setup()
    check.encode(*kernel())
    check.assume(
        "loop arithmetic: length n and index i are unconstrained z3 Ints with 0 <= i < n (unbounded in n by arithmetic, not enumeration); "
        "the iterable is an object whose __len__ reports the symbolic n",
        "loop stack: the real generated code of one nested-loop template runs natively; which iterable expression raises, which body "
        "raises, where `break` happens and whether the outer iterable is a list / generator / empty are symbolic flags; the reference "
        "is the same loops written directly in Python",
        "for header: 'for <target> in z<e>:' with the iterable's characters symbolic over %r and an optional trailing comment over %r" % (
            "ab()[], :1", "ab :#"))
    check.not_claimed("'behave exactly as the equivalent Python statements' for arbitrary generated templates (needs compile())",
                      "the auto-pass rule and PythonPrinter's indentation state machine over arbitrary node sequences",
                      "enable_loop page override", "loop.last / reverse_index on unsized iterables (documented TypeError)")
    jobs = [("C03-loopctx", h_loopctx, on_loopctx, "LoopContext attributes for symbolic length and index", dict(n="unbounded", cycle_arity="1..4"), ("asserted",)),
            ("C03-nested", h_nested, on_nested, "loop stack through nested loops with symbolic exit modes", dict(template="nested for/try/break"), ("asserted",))]
    N = {"quick": 3, "thorough": 5}[tier]
    for n in range(0, N + 1):
        jobs.append(("C03-hdr-%d" % n, h_forheader(n, None), on_forheader, "for header with %d symbolic iterable characters" % n, dict(chars=n), ("asserted",)))
    for n in range(0, 2):
        for nc in range(0, {"quick": 2, "thorough": 3}[tier] + 1):
            jobs.append(("C03-hdrc-%d-%d" % (n, nc), h_forheader(n, nc), on_forheader,
                         "for header with %d symbolic iterable characters and a %d-character trailing comment" % (n, nc), dict(chars=n, comment=nc), ("asserted",)))
    for j in jobs:
        driver.register(j[0], j[1], j[2])
    cands = []
    for name, _h, _o, title, bounds, req in jobs:
        st, acc = driver.explore(name, time_limit=900)
        check.section(title, st, acc, bounds, tags_required=req)
        cands.extend(acc.candidates)
    check.confirm(cands, make_replay, classify)
    from . import C03b, C03c
    C03b.run(check, tier)
    C03c.run(check, tier)
    driver.close_pool()
    if tier == "thorough":
        from . import xh_run
        res = xh_run.run(["loop_attributes", "loop_cycle", "lru_bound", "densify"])
        print("  [C03] second engine (CrossHair 0.0.110) on the integer kernels:", res, flush=True)
        check.cross_engine = res
        for fn, verdict in res.items():
            if str(verdict).startswith("COUNTEREXAMPLE"):
                check.harness_error("CrossHair reports a counterexample for %s where symx found none: %s" % (fn, verdict))
