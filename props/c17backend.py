"""reference dict backends for C17, registered through mako's real plugin mechanism.

The backends are written the documented way - subclasses of mako.cache.CacheImpl whose constructor calls the base
constructor - and are therefore built against the CacheImpl of the mako under test: call install(CacheImpl) first."""
LOG = []
STORE = {}
RefDict = RefDictCtx = None


def install(CacheImpl):
    global RefDict, RefDictCtx

    class RefDict(CacheImpl):
        pass_context = False

        def __init__(self, cache):
            super().__init__(cache)

        def _k(self, key):
            return (self.cache.id, key)

        def get_or_create(self, key, creation_function, **kw):
            LOG.append(("get_or_create", self.cache.id, key, dict(kw)))
            k = self._k(key)
            if k not in STORE:
                STORE[k] = creation_function()
            return STORE[k]

        def set(self, key, value, **kw):
            LOG.append(("set", self.cache.id, key, dict(kw)))
            STORE[self._k(key)] = value

        def get(self, key, **kw):
            LOG.append(("get", self.cache.id, key, dict(kw)))
            return STORE.get(self._k(key))

        def invalidate(self, key, **kw):
            LOG.append(("invalidate", self.cache.id, key, dict(kw)))
            STORE.pop(self._k(key), None)

    class RefDictCtx(RefDict):
        pass_context = True

    g = globals()
    g["RefDict"], g["RefDictCtx"] = RefDict, RefDictCtx


def reset():
    del LOG[:]
    STORE.clear()
