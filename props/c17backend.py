"""reference dict backends for C17, registered through mako's real plugin mechanism."""
LOG = []
STORE = {}


class RefDict:
    pass_context = False

    def __init__(self, cache):
        self.cache = cache

    def _k(self, key):
        return (self.cache.id, key)

    def get_or_create(self, key, creation_function, **kw):
        LOG.append(("get_or_create", self.cache.id, key, dict(kw)))
        k = self._k(key)
        if k not in STORE:
            STORE[k] = creation_function()
        return STORE[k]

    def set(self, key, value, **kw):
        LOG.append(("set", self.cache.id, key, dict(kw)))
        STORE[self._k(key)] = value

    def get(self, key, **kw):
        LOG.append(("get", self.cache.id, key, dict(kw)))
        return STORE.get(self._k(key))

    def invalidate(self, key, **kw):
        LOG.append(("invalidate", self.cache.id, key, dict(kw)))
        STORE.pop(self._k(key), None)


class RefDictCtx(RefDict):
    pass_context = True


def reset():
    del LOG[:]
    STORE.clear()
