"""C19 - embedded Python keeps its meaning through re-margining (the claimed half of the property)."""
import types
import z3

from symx import core, values, driver, realproc
from symx.values import SymStr, SymChar, sym_string, str_eq_term, conc, ch_eq, ch_in
from oracles import pylex
from . import common

PG = None
HOLE = values.Domain([32, 9, 34, 39, 35, 92, 97, 61])     # space tab " ' # \ a =
BLANK = values.Domain([32, 9])

# skeletons: valid Python by construction.  "M" = the block's uniform margin (0..2 symbolic blanks, the same characters on every
# logical line), ("H", max, forbidden) = hole of 0..max symbolic characters, ("W", max) = 0..max symbolic blanks.
SKELETONS = {
    "single-quoted-literal": ["M", "x = '", ("H", 3, "'\\"), "'"],
    "double-quoted-literal": ["M", 'x = "', ("H", 3, '"\\'), '"'],
    "triple-literal-two-lines": ["M", 'x = """', ("H", 2, '"\\'), "\n", ("H", 2, '"\\'), '"""\n', "M", "y = 1"],
    "triple-single-literal": ["M", "x = '''", ("H", 2, "'\\"), "\n", ("W", 2), "z'''\n", "M", "y = 1"],
    "comment-then-statement": ["M", "x = 1 #", ("H", 3, "\t"), "\n", "M", "y = 2"],
    "explicit-continuation": ["M", "x = 'a' + \\\n", ("W", 2), "'b'\n", "M", "y = 3"],
    "nested-block": ["M", "if True:\n", "M", "    x = '", ("H", 2, "'\\"), "'\n", "M", "y = 4"],
    "two-literals": ["M", "x = '", ("H", 2, "'\\"), "'\n", "M", 'y = "', ("H", 2, '"\\'), '"'],
    "literal-with-hash-then-comment": ["M", "x = '", ("H", 2, "'\\"), "' # c\n", "M", "y = 5"],
    "bracket-continuation": ["M", "x = ('a',\n", ("W", 2), "'", ("H", 3, "'\\"), "')\n", "M", "y = 7"],
    "blank-line-between": ["M", "x = '", ("H", 1, "'\\"), "'\n", ("W", 2), "\n", "M", "y = 6"],
    # a string literal continued with a backslash: the second physical line is INSIDE the literal, its blanks are content
    "continued-literal": ["M", "x = 'a", ("H", 1, "'\\"), "\\\n", ("W", 2), "b", ("H", 1, "'\\"), "'\n", "M", "y = 8"],
    "continued-literal-with-hash": ["M", "x = '#a", ("H", 1, "'\\"), " \\\n", ("W", 2), "b'\n", "M", "y = 9"],
    "continued-double-quoted-literal": ["M", 'x = "a', ("H", 1, '"\\'), "\\\n", ("W", 2), 'b"\n', "M", "y = 10"],
}


def setup():
    global PG
    if PG is not None:
        return
    PG = common.mako("pygen")
    values.set_domain(HOLE)


def kernel():
    P = PG.PythonPrinter
    return [PG.adjust_whitespace, P.write_indented_block, P._flush_adjusted_lines, P._in_multi_line, P._indent_line,
            P._reset_multi_line_flags]


class Stream:
    def __init__(self):
        self.parts = []

    def write(self, s):
        self.parts.extend(values._items(s))


def build(p, sk, mlen):
    margin = sym_string(mlen, "m", BLANK).items
    items = []
    for part in sk:
        if part == "M":
            items.extend(margin)
        elif isinstance(part, str):
            items.extend(part)
        elif part[0] == "H":
            n = p.choose(part[1] + 1, "hlen")
            h = sym_string(n, "h%d_" % len(items), HOLE)
            for c in h.items:
                for f in part[2] + "\n":
                    p.assume(c.v != ord(f))
            items.extend(h.items)
        else:
            n = p.choose(part[1] + 1, "wlen")
            items.extend(sym_string(n, "w%d_" % len(items), BLANK).items)
    return margin, SymStr(items)


def split_lines(items):
    lines, cur = [], []
    for c in items:
        if isinstance(c, str) and c == "\n":
            lines.append(cur)
            cur = []
        else:
            cur.append(c)
    lines.append(cur)
    return lines


def h_block(name, mlen, indent):
    sk = SKELETONS[name]

    def h(p):
        margin, text = build(p, sk, mlen)
        p.note("block", text)
        # lexer side (Lexer.match_python_block): adjust_whitespace(text) + "\n"
        adj = PG.adjust_whitespace(text) + "\n"
        # printer side (codegen.visitCode): write_indented_block at the current indent level, flushed by the next writeline
        st = Stream()
        pr = PG.PythonPrinter(st)
        pr.indent = indent
        pr.indent_detail = ["def"] * indent
        pr.write_indented_block(adj)
        pr._flush_adjusted_lines()
        return dict(margin=margin, text=text, adj=adj, out=SymStr(st.parts), indent=indent, printer=pr)
    return h


def lstrip_items(items):
    i = 0
    while i < len(items) and ch_in(items[i], " \t"):
        i += 1
    return items[i:]


def on_block(name):
    def on(p, r, exc, acc):
        if isinstance(exc, core.PathTimeout):
            acc.candidate(kind="remargin-does-not-terminate", input=dict(block=exc.inputs.get("block"), margin=0, indent=0, hang=True), detail=str(exc))
            return
        if exc is not None:
            acc.candidate(kind="exception", input=None, detail="%s: %s" % (type(exc).__name__, str(exc)[:150]))
            return
        text, margin, out = r["text"], r["margin"], r["out"]
        lines = split_lines(text.items)
        states, insig = pylex.line_states(lines)
        m = p.witness()
        w = text.concretize(m)
        if states is None:
            acc.counts["outside the lexical oracle's domain"] += 1
            return
        acc.tags["asserted"] += 1
        olines = split_lines(out.items)
        # the lexer appends "\n" and the printer writes one more per line: the block ends with one empty trailing line
        while olines and all(isinstance(c, str) and c in " \t" for c in olines[-1]):
            olines.pop()
        prefix = list("    " * r["indent"])
        k = len(margin)
        conds = []
        bad_shape = None
        exp_lines = len(lines)
        while exp_lines and not lines[exp_lines - 1]:
            exp_lines -= 1
        if len(olines) != exp_lines:
            bad_shape = "line count %d -> %d" % (exp_lines, len(olines))
        else:
            for i in range(exp_lines):
                ln, ol, st = lines[i], olines[i], states[i]
                if isinstance(st, tuple):
                    conds.append(str_eq_term(SymStr(ol), SymStr(ln)))            # inside a literal: untouched
                elif st == "cont" or insig[i]:
                    a, b = lstrip_items(ol), lstrip_items(ln)                    # indentation insignificant
                    conds.append(str_eq_term(SymStr(a), SymStr(b)))
                else:
                    conds.append(str_eq_term(SymStr(ol), SymStr(prefix + ln[k:])))  # logical line: margin replaced, rest untouched
        acc.vcs += 1
        if bad_shape:
            acc.candidate(kind="remargin-shape", input=dict(block=w, skeleton=name, margin=k, indent=r["indent"]), detail=bad_shape)
        else:
            st_, mod = p.vc(z3.And(conds) if conds else z3.BoolVal(True))
            if st_ == "fails":
                acc.candidate(kind="remargin-changed-code", input=dict(block=text.concretize(mod), skeleton=name, margin=k, indent=r["indent"]),
                              detail="emitted %r" % out.concretize(mod))
            elif st_ == "unknown":
                acc.vcs_unknown += 1
        real = realproc.call("remargin", w, r["indent"])
        acc.replayed += 1
        if real != out.concretize(m):
            raise core.EngineError("engine/real disagreement for block %r: real %r mine %r" % (w, real, out.concretize(m)))
        acc.sample(dict(block=w, skeleton=name, emitted=real))
    return on


def make_replay(c):
    i = c["input"] or {}
    body = """
# the block, written in a <% %> tag, must compute the same values as the same code executed by Python itself
from mako.template import Template
CASE = __CASE__
block = CASE["block"]
print("block:", repr(block))
if CASE.get("hang"):
    # the re-margining of this block did not finish within the engine's time limit: run the real lexer under an alarm
    import signal
    def _alarm(*a):
        print("VIOLATED: compiling a template with this <% %> block does not terminate (no result after 8 s)"); os._exit(1)
    signal.signal(signal.SIGALRM, _alarm); signal.alarm(8)
    from mako import exceptions
    try:
        Template("<" + "%\\n" + block + "\\n%" + ">")
        print("compiled")
    except exceptions.MakoException as e:
        print("rejected:", type(e).__name__)
    signal.alarm(0)
    print("HOLDS"); sys.exit(0)
names = ["x", "y", "z"]
def native():
    ns = {}
    # a uniformly indented block is what Python accepts as the body of `if True:`
    code = block + "\\n" if CASE["margin"] == 0 else "if True:\\n" + "\\n".join(((" " + ln) if ln.strip() else ln) for ln in block.split("\\n")) + "\\n"
    exec(compile(code, "<native>", "exec"), ns)
    return [ns.get(k) for k in names]
try:
    want = native()
except Exception as e:
    print("block is not valid Python natively (%s: %s): not a meaningful case" % (type(e).__name__, e)); sys.exit(0)
tmpl = "<" + "%\\n" + block + "\\n%" + ">${repr([locals().get(n) for n in " + repr(names) + "])}"
bad = None
try:
    got = Template(tmpl).render_unicode()
    print("native:", repr(want)); print("mako  :", got)
    if got != repr(want): bad = "values differ after re-margining"
except Exception as e:
    bad = "template fails: %s: %s" % (type(e).__name__, e)
print("VIOLATED: " + bad if bad else "HOLDS")
sys.exit(1 if bad else 0)
""".replace("__CASE__", repr(i))
    return (c["kind"], body, (c["kind"], i.get("block"), i.get("indent")))


def classify(c):
    """characteristic predicates of the listed findings, evaluated on the witness block (not on the property id)"""
    b = (c.get("input") or {}).get("block") or ""
    if c["kind"] not in ("remargin-changed-code", "remargin-shape"):
        return None
    if pylex.backslash_ends_comment(b):
        return "C19-backslash-in-comment"
    if pylex.triple_sequence_not_delimiter(b):
        return "C19-triple-quote-sequence-not-a-delimiter"
    return None


def run(check, tier):
    setup()
    check.encode(*kernel())
    check.assume(
        "blocks are instances of %d skeletons that are valid Python by construction: a uniform margin of 0..2 SYMBOLIC blanks "
        "(space/tab, the same characters on every logical line), concrete statements, and holes of symbolic characters over "
        "{space, tab, \", ', #, backslash, a, =} inside string literals, comments and continuation-line indentation" % len(SKELETONS),
        "oracle: an independent scanner of Python's lexical line structure (oracles/pylex.py) decides per physical line whether it starts "
        "a logical line (margin must be replaced by the target indentation, everything else untouched), lies inside a triple-quoted "
        "literal (untouched) or has insignificant indentation (continuation, blank, comment-only: only its stripped content is compared)",
        "both halves of the real pipeline run: adjust_whitespace (lexer side) then PythonPrinter.write_indented_block/_flush_adjusted_lines "
        "at target indentation levels 0..2")
    check.not_claimed("blocks outside the skeletons", "expression / statement forms outside the grammars of the re-emission and name-analysis parts")
    M = {"quick": (0, 1), "thorough": (0, 1, 2)}[tier]
    I = {"quick": (0, 2), "thorough": (0, 1, 2)}[tier]
    jobs = []
    for name in SKELETONS:
        for mlen in M:
            for ind in I:
                jobs.append(("C19-%s-%d-%d" % (name, mlen, ind), h_block(name, mlen, ind), on_block(name),
                             "skeleton %s, margin %d symbolic blanks, target indent %d" % (name, mlen, ind),
                             dict(skeleton=SKELETONS[name].__repr__(), margin=mlen, indent=ind), ("asserted",)))
    import os
    if os.environ.get("C19_ONLY"):          # development aid
        jobs = [j for j in jobs if j[0].startswith(os.environ["C19_ONLY"])]
    for j in jobs:
        driver.register(j[0], j[1], j[2])
    cands = []
    for name, _h, _o, title, bounds, req in jobs:
        st, acc = driver.explore(name, time_limit=900)
        check.section(title, st, acc, bounds, tags_required=req)
        cands.extend(acc.candidates)
    check.confirm(cands, make_replay, classify, max_confirm=80)
    from . import C19b, C19c
    C19b.run(check, tier)
    cc = []
    C19c.run(check, tier, cc)
    check.confirm(cc, C19c.make_replay, C19c.classify, max_confirm=30)
    driver.close_pool()
    realproc.shutdown()
