"""shared by C05 and C13: one construct of real generated code executed from an arbitrary valid render state.

Each "site" is a tiny def whose body contains exactly one construct kind; the harness builds a Context with a symbolic
pre-state (buffer-stack depth, caller-stack depth, pending nextcaller), calls the site's real render function, lets a
symbolic probe raise (or not), and reports pre/post state and what reached each buffer.  Because every construct restores
the state it found, given that its body does, the result composes to arbitrary nesting."""
import types

from symx import core, values
from symx.values import SymBool
from . import common

TEMPLATE = '''<%!
    def dec(fn):
        def decorate(context, *args, **kw):
            context.write("<")
            fn(*args, **kw)
            context.write(">")
            return ""
        return decorate

    def dec2(fn):
        # a decorator that changes the arguments on the way through
        def decorate(context, x, level=1, **kw):
            context.write("<")
            fn(x.upper(), level=level + 1, **kw)
            context.write(">")
            return ""
        return decorate

    @runtime.supports_caller
    def pydef(context):
        # a plain Python function called with content: runtime.supports_caller manages the caller stack around it
        context.write("Y[")
        context.write(context["probe"](16))
        context["caller"].body()
        context.write(context["probe"](17) + "]")
        return ""
%>\\
<%def name="plain()">P[${probe(1)}]</%def>
<%def name="buf()" buffered="True">B[${probe(2)}]</%def>
<%def name="filt()" filter="up">f[${probe(3)}]</%def>
<%def name="wcaller()">W[${probe(4)}${caller.body()}${probe(5)}]</%def>
<%def name="deco()" decorator="dec">D[${probe(6)}]</%def>
<%def name="buf2()" buffered="True">X${plain()}Y${filt()}Z</%def>
<%def name="bufw()" buffered="True">V[${caller.body()}]</%def>
<%def name="wargs()">A[${caller.body(q=probe(13))}]</%def>
<%def name="s_plain()">a${plain()}b</%def>
<%def name="s_buf()">a${buf()}b</%def>
<%def name="s_filt()">a${filt()}b</%def>
<%def name="s_call()">a<%call expr="wcaller()">y${probe(7)}z</%call>b</%def>
<%def name="s_capture()">a${capture(plain)}b</%def>
<%def name="s_loop()">a\\
% for x in (1, 2):
${loop.index}${probe(8)}\\
% endfor
b</%def>
<%def name="s_text()">a<%text filter="tf">T</%text>b</%def>
<%def name="s_deco()">a${deco()}b</%def>
<%def name="s_nested()">a${buf2()}b</%def>
<%def name="s_callbuf()">a<%call expr="bufw()">q${probe(10)}</%call>b</%def>
<%def name="s_include()">a<%include file="inc"/>b</%def>
<%def name="s_block()">a<%block filter="up">k[${probe(12)}]</%block>b</%def>
<%def name="s_callargs()">a<%call expr="wargs()" args="q">r${q}</%call>b</%def>
<%def name="s_nscall()">a<%self:wcaller>n${probe(14)}</%self:wcaller>b</%def>
<%def name="s_loopiter()">a\\
% for o in (1, 2):
${loop.index}\\
% for x in items(probe(15)):
${loop.index}${loop.parent.index}\\
% endfor
o${loop.index}\\
% endfor
b</%def>
<%def name="s_bufblock()">a<%block buffered="True">k[${probe(19)}]</%block>b</%def>
<%def name="deco2(x, level=1)" decorator="dec2">E[${x}${level}${probe(22)}]</%def>
<%def name="wkw(v)">K[${v}|${caller.body(q=probe(21))}]</%def>
<%def name="s_deco2()">a${deco2('x')}b</%def>
<%def name="s_nsargs()">a<%self:wkw v="${q}" args="q">r${q}</%self:wkw>b</%def>
<%def name="s_exprarg()">a<%call expr="wkw(q)" args="q">r${q}</%call>b</%def>
<%def name="s_foreign()">a<% other.render_context(context) %>b</%def>
<%def name="s_pydef()">a<%call expr="pydef(context)">c${probe(18)}</%call>b</%def>
<%def name="who()">${caller.body() if caller else 'none'}</%def>
'''

HOST = '''<%def name="h___SITE__()">h\\
% try:
${__SITE__()}\\
% except Boom:
!\\
% endtry
[${who()}]${caller.body() if caller else 'nocaller'}e</%def>
'''
INC = "I[${probe(11)}]"

# site -> (normal output with probe markers, {probe id: text that must have reached the outer buffer when that probe raises})
SITES = {
    "s_plain": ("aP[#1#]b", {1: "aP["}),
    "s_buf": ("aB[#2#]b", {2: "a"}),
    "s_filt": ("aF[#3#]b", {3: "a"}),
    "s_call": ("aW[#4#y#7#z#5#]b", {4: "aW[", 7: "aW[#4#y", 5: "aW[#4#y#7#z"}),
    "s_capture": ("aP[#1#]b", {1: "a"}),
    "s_loop": ("a0#8#1#8#b", {(8, 1): "a0", (8, 2): "a0#8#1"}),
    "s_text": ("a#9#tb", {9: "a"}),
    "s_deco": ("a<D[#6#]>b", {6: "a<D["}),
    "s_nested": ("aXP[#1#]YF[#3#]Zb", {1: "a", 3: "a"}),
    "s_callbuf": ("aV[q#10#]b", {10: "a"}),
    "s_include": ("aI[#11#]b", {11: "aI["}),
    "s_block": ("aK[#12#]b", {12: "a"}),
    "s_callargs": ("aA[r#13#]b", {13: "aA["}),
    "s_nscall": ("aW[#4#n#14#z#5#]b".replace("z", ""), {4: "aW[", 14: "aW[#4#n", 5: "aW[#4#n#14#"}),
    "s_bufblock": ("ak[#19#]b", {19: "a"}),
    "s_deco2": ("a<E[X2#22#]>b", {22: "a<E[X2"}),
    "s_nsargs": ("aK[Q|r#21#]b", {21: "aK[Q|"}),
    "s_exprarg": ("aK[Q|r#21#]b", {21: "aK[Q|"}),
    "s_foreign": ("aN[#20#]b", {20: "aN["}),
    "s_pydef": ("aY[#16#c#18##17#]b", {16: "aY[", 18: "aY[#16#c", 17: "aY[#16#c#18#"}),
    "s_loopiter": ("a000o0100o1b".replace("000o0100o1", "0" + "00" + "o0" + "1" + "01" + "o1"), {(15, 1): "a0", (15, 2): "a000o01"}),
}
def _site_body(name):
    import re as _re
    m = _re.search('<%def name="' + name + r'\(\)">(.*?)</%def>', TEMPLATE, _re.S)
    return m.group(1)


# the hosted variant inlines the construct inside % try in the SAME def, so that nothing but the construct's own
# generated code stands between the raise and the handler
TEMPLATE = TEMPLATE + "".join(HOST.replace("${__SITE__()}", _site_body(s_)).replace("__SITE__", s_) for s_ in SITES)


class Boom(Exception):
    pass


_T = {}


def template(LK):
    if "t" not in _T:
        lk = LK.TemplateLookup()
        lk.put_string("inc", INC)
        lk.put_string("main", TEMPLATE_FULL)
        _T["t"] = lk.get_template("main")
        _T["lk"] = lk
    return _T["t"]


def foreign_template():
    """a template that belongs to ANOTHER lookup, rendered into the running context by other.render_context(context)"""
    if "other" not in _T:
        import mako.lookup as _LK
        lk2 = _LK.TemplateLookup()
        lk2.put_string("foreign", "N[${probe(20)}]")
        _T["other"] = lk2.get_template("foreign")
    return _T["other"]


def make_data(p, raise_id, raise_occ):
    """context data: probe() raises at the symbolic point (raise_id is a z3 Int, 0 = nowhere; raise_occ the occurrence)"""
    seen = {}

    def probe(i):
        seen[i] = seen.get(i, 0) + 1
        if p.fork(raise_id == i) and (p.fork(raise_occ == seen[i])):
            e = Boom("probe %d occurrence %d" % (i, seen[i]))
            probe.__dict__.setdefault("log", []).append(e)
            raise e
        return "#%d#" % i

    def dec(fn):
        def decorate(context, *args, **kw):
            context.write("<")
            fn(*args, **kw)
            context.write(">")
            return ""
        return decorate

    return dict(probe=probe, up=lambda s: s.upper(), tf=lambda s: probe(9) + s.lower(), dec=dec, Boom=Boom, items=lambda marker: (7,),
                other=foreign_template(), q="Q"), seen


def step(p, RT, LK, UT, site, with_exception, hosted=False):
    """returns a dict describing pre-state, outcome and post-state"""
    t = template(LK)
    d = 1 + p.choose(3, "buffer_depth")         # buffers already on the stack (1 = only the output buffer)
    c = p.choose(3, "caller_depth")
    pending = bool(p.choose(2, "nextcaller_pending"))
    raise_id = p.new_int("raise_at")
    raise_occ = p.new_int("raise_occurrence")
    if with_exception:
        p.assume(raise_id >= 1)
    else:
        p.assume(raise_id == 0)
    p.assume(raise_occ >= 1)
    data, seen = make_data(p, raise_id, raise_occ)
    ctx = RT.Context(UT.FastEncodingBuffer(), **data)
    ctx._set_with_template(t)
    RT._populate_self_namespace(ctx, t)
    for i in range(d - 1):
        ctx._push_buffer()
    for i in range(d):
        ctx._buffer_stack[i].write("pre%d|" % i)
    def _hb(**k):
        ctx.write("hb")
        return ""
    sentinels = [types.SimpleNamespace(body=_hb, tag="frame%d" % i) for i in range(c)]
    for s in sentinels:
        ctx.caller_stack.append(s)
    nxt = types.SimpleNamespace(body=_hb, tag="pending") if pending else None
    ctx.caller_stack.nextcaller = nxt
    pre = dict(buffers=len(ctx._buffer_stack), callers=list(ctx.caller_stack), nextcaller=ctx.caller_stack.nextcaller, with_template=ctx._with_template)
    fn = getattr(t.module, "render_" + ("h_" if hosted else "") + site)
    ret = exc = None
    raised = []
    data["probe"].__dict__["log"] = raised
    try:
        ret = fn(ctx)
    except Exception as e:
        exc = e
    post = dict(buffers=len(ctx._buffer_stack), callers=list(ctx.caller_stack), nextcaller=ctx.caller_stack.nextcaller, with_template=ctx._with_template)
    contents = [b.getvalue() for b in ctx._buffer_stack]
    # continue rendering from the post-state: a later construct must behave as from a fresh state
    later = later_exc = None
    ctx2data, _ = make_data(p, 0, raise_occ)
    ctx._data.update(ctx2data)
    try:
        ctx.write("|then:")
        later = t.module.render_s_call(ctx)
    except Exception as e:
        later_exc = e
    after = dict(buffers=len(ctx._buffer_stack), callers=list(ctx.caller_stack), nextcaller=ctx.caller_stack.nextcaller,
                 contents=[b.getvalue() for b in ctx._buffer_stack])
    m = p.witness()
    rid = m.eval(raise_id, model_completion=True).as_long()
    occ = m.eval(raise_occ, model_completion=True).as_long()
    return dict(site=site, d=d, c=c, pending=pending, pre=pre, post=post, ret=ret, exc=exc, contents=contents, seen=dict(seen), hosted=hosted,
                raised=list(raised),
                later=later, later_exc=later_exc, after=after, raise_id=rid, raise_occ=occ)


# ------------------------------------------------------------------ depth 2: every site nested inside every kind of wrapper (thorough tier)
def _up(s):
    return s.upper()


WRAPPERS = {
    # kind: (helper def or None, body of the nested site, normal(N), on_raise(R))
    "direct": ('<%def name="w_direct_{s}()">o[${{{s}()}}]o</%def>', "a2${{w_direct_{s}()}}b2", lambda N: "a2o[" + N + "]ob2", lambda R: "a2o[" + R),
    "buffered": ('<%def name="w_buffered_{s}()" buffered="True">o[${{{s}()}}]o</%def>', "a2${{w_buffered_{s}()}}b2", lambda N: "a2o[" + N + "]ob2", lambda R: "a2"),
    "filtered": ('<%def name="w_filtered_{s}()" filter="up">o[${{{s}()}}]o</%def>', "a2${{w_filtered_{s}()}}b2", lambda N: "a2" + _up("o[" + N + "]o") + "b2", lambda R: "a2"),
    "capture": (None, "a2${{capture(w_direct_{s})}}b2", lambda N: "a2o[" + N + "]ob2", lambda R: "a2"),
    "callbody": (None, 'a2<%call expr="wcaller()">${{{s}()}}</%call>b2', lambda N: "a2W[#4#" + N + "#5#]b2", lambda R: "a2W[#4#" + R),
    "loopbody": (None, "a2\\\n% for z in (1,):\n${{{s}()}}\\\n% endfor\nb2", lambda N: "a2" + N + "b2", lambda R: "a2" + R),
}
BASE_SITES = dict(SITES)
NESTED = {}
_helpers = []
_defs = []
for _s, (_N, _R) in BASE_SITES.items():
    for _w, (_helper, _body, _fn, _fr) in WRAPPERS.items():
        if _w == "callbody" and ("#4#" in _N or "#5#" in _N):
            continue            # the wrapper's own probes would repeat inside
        if _helper:
            _helpers.append(_helper.format(s=_s))
        name = "n_%s_%s" % (_w, _s)
        _defs.append('<%%def name="%s()">%s</%%def>' % (name, _body.format(s=_s)))
        NESTED[name] = (_fn(_N), {k: _fr(v) for k, v in _R.items()})
TEMPLATE_FULL = TEMPLATE + "\n".join(dict.fromkeys(_helpers)) + "\n" + "\n".join(_defs) + "\n"
TEMPLATE_FULL = TEMPLATE_FULL + "".join(
    HOST.replace("${__SITE__()}", '<%%def name="%s()">' % n).split("<%def name=\"%s()\">" % n)[0] if False else
    HOST.replace("${__SITE__()}", _defs[i][_defs[i].index(">") + 1:-len("</%def>")]).replace("__SITE__", n)
    for i, n in enumerate(NESTED))
ALL_SITES = dict(SITES)
ALL_SITES.update(NESTED)
