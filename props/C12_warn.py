"""C12, warnings clause: a warning raised while a template is compiled, or while its module-level code runs, is shown exactly
once, against the template's filename and line.

(A) solver part: the display-hook chain (_translate_module_warnings, optionally with _drop_expression_warnings nested in it, as
    during the generation of a module file) runs on a warning with a SYMBOLIC line number and a solver-chosen file name, over a
    symbolic sparse line map; the shown location must be the densified map's entry, exactly once.
(B) exploration part: one warning-triggering construct at a solver-chosen position of a real template, compiled through a
    solver-chosen construction path under a solver-chosen warnings filter, in a child interpreter holding the unpatched code."""
import types
import z3

from symx import core, values, driver, realproc
from symx.values import SymInt
from . import common

TP = PP = None
KEYS = [1, 2, 4, 5, 9]
MODULE_ID = "the_module_id"
TEMPLATE_FILE = "/templates/page.html"


def setup():
    global TP, PP
    if TP is None:
        TP, PP = common.mako("template", "pyparser")


def h_locate(p):
    present = [k for k in KEYS if p.fork(p.new_bool("has%d" % k))]
    if not present:
        raise core.Abort("empty map")
    vals = {k: p.new_int("tl%d" % k) for k in present}
    for k in present:
        p.assume(vals[k] >= 1)
    lineno = p.new_int("warning_line")
    p.assume(z3.And(lineno >= 1, lineno <= max(KEYS) + 2))
    which = p.choose(3, "warning_filename")
    wf = [MODULE_ID, "/site-packages/other.py", PP.EXPRESSION_FILENAME][which]
    nested = bool(p.choose(2, "inside_drop_expression_warnings"))
    shown = []
    W = TP.warnings
    saved = (TP.json, W.showwarning)
    TP.json = types.SimpleNamespace(loads=lambda s: {"line_map": {str(k): SymInt(vals[k]) for k in present}})
    rec = lambda message, category, filename, lineno, file=None, line=None: shown.append((filename, lineno, line))
    W.showwarning = rec
    try:
        with TP._translate_module_warnings(lambda: "x __M_BEGIN_METADATA {} __M_END_METADATA", MODULE_ID, TEMPLATE_FILE):
            for _twice in (0, 1):       # the second warning exercises the memoised line map
                if nested:
                    with TP._drop_expression_warnings():
                        W.showwarning("m", UserWarning, wf, SymInt(lineno), None, "the source line")
                else:
                    W.showwarning("m", UserWarning, wf, SymInt(lineno), None, "the source line")
        hook_restored = W.showwarning is rec
    finally:
        TP.json, W.showwarning = saved
    return dict(present=present, vals=vals, lineno=lineno, wf=wf, nested=nested, shown=shown, hook_restored=hook_restored)


def on_locate(p, r, exc, acc):
    if exc is not None:
        acc.candidate(kind="warning-hook-exception", input=None, detail="%s: %s" % (type(exc).__name__, str(exc)[:200]))
        return
    acc.tags["asserted"] += 1
    present, vals, lineno, shown = r["present"], r["vals"], r["lineno"], r["shown"]
    m = p.witness()
    ev = lambda mod, t: mod.eval(t, model_completion=True).as_long()

    def desc(mod):
        return dict(line_map={k: ev(mod, vals[k]) for k in present}, warning_file=r["wf"], warning_line=ev(mod, lineno),
                    inside_drop_expression_warnings=r["nested"], shown=[(f, ev(mod, l.e) if isinstance(l, SymInt) else l) for f, l, _s in shown])

    acc.vcs += 2
    if not r["hook_restored"]:
        acc.candidate(kind="warning-hook-not-restored", input=desc(m), detail="warnings.showwarning is not the caller's hook after the block")
    dropped = r["nested"] and r["wf"] == PP.EXPRESSION_FILENAME
    if len(shown) != (0 if dropped else 2):
        acc.candidate(kind="warning-shown-count", input=desc(m), detail="two warnings raised, %d shown" % len(shown))
        return
    if dropped:
        acc.counts["expression-parse warning dropped"] += 1
        return
    top = max(present)
    # reference: module line i maps to the entry of the greatest key <= i (1 before the first key); lines at or beyond the
    # highest key carry no entry and are shown untranslated
    want_line = z3.IntVal(1)
    for k in present:
        want_line = z3.If(lineno >= k, vals[k], want_line)
    translated = z3.And(z3.BoolVal(r["wf"] == MODULE_ID), lineno <= top - 1)
    for f, l, src in shown:
        le = l.e if isinstance(l, SymInt) else z3.IntVal(l)
        fn_ok = z3.If(translated, z3.BoolVal(f == TEMPLATE_FILE), z3.BoolVal(f == r["wf"]))
        ln_ok = z3.If(translated, le == want_line, le == lineno)
        src_ok = z3.If(translated, z3.BoolVal(src is None), z3.BoolVal(src == "the source line"))
        acc.vcs += 1
        st, mod = p.vc(z3.And(fn_ok, ln_ok, src_ok))
        if st == "fails":
            acc.candidate(kind="warning-location", input=desc(mod), detail="shown as (%r, %r)" % (f, l))
            break
        elif st == "unknown":
            acc.vcs_unknown += 1
    acc.sample(desc(m))


POSITIONS = ["code-block", "code-block-first-line", "module-block", "expression", "multi-line-expression", "control-line", "def-default",
             "module-code-runs"]
SOURCES = ["string", "string-with-uri", "file", "lookup", "lookup-module-directory", "module-file", "module-file-reload", "module-file-stale-magic"]
ACTIONS = ["always", "default", "module", "once"]


def h_probe(p):
    pos = POSITIONS[p.choose(len(POSITIONS), "position")]
    src = SOURCES[p.choose(len(SOURCES), "construction_path")]
    act = ACTIONS[p.choose(len(ACTIONS), "filter_action")]
    lead = [0, 3][p.choose(2, "leading_lines")]
    return dict(position=pos, source=src, action=act, lead=lead)


def on_probe(p, r, exc, acc):
    if exc is not None:
        acc.candidate(kind="harness-exception", input=None, detail=repr(exc)[:200])
        return
    got, want = realproc.call("warning_probe", r["position"], r["source"], r["action"], r["lead"])
    got = [tuple(x) for x in got]
    want = tuple(want)
    acc.replayed += 1
    acc.tags["asserted"] += 1
    acc.vcs += 1
    if got != [want]:
        acc.candidate(kind="warning-not-once-at-template-line", input=dict(r, shown=got, expected=want),
                      detail="shown %r, expected exactly %r" % (got, want))
    if len(acc.samples) < 8:
        acc.sample(dict(r, shown=got))


TB_POSITIONS = ["expression", "code-block", "control-line", "def-body", "call-body", "call-body-of-a-def-in-another-template", "strict-undefined-name"]
TB_SOURCES = ["string", "string-with-uri", "file", "lookup", "module-file", "module-file-reload", "module-file-after-edit", "relative-module-filename", "module-directory-through-symlink", "lookup-through-symlink"]


def h_tbprobe(p):
    return dict(tb_position=TB_POSITIONS[p.choose(len(TB_POSITIONS), "position")], source=TB_SOURCES[p.choose(len(TB_SOURCES), "construction_path")],
                lead=[0, 3][p.choose(2, "leading_lines")])


def on_tbprobe(p, r, exc, acc):
    if exc is not None:
        acc.candidate(kind="harness-exception", input=None, detail=repr(exc)[:200])
        return
    got, want = realproc.call("traceback_probe", r["tb_position"], r["source"], r["lead"])
    acc.replayed += 1
    acc.tags["asserted"] += 1
    acc.vcs += 1
    if tuple(got) != tuple(want):
        acc.candidate(kind="template-frame-on-construction-path", input=dict(r), detail="reported %r, the raise is at %r" % (got, want))
    else:
        acc.good("template-frame-on-construction-path", dict(r))
    if len(acc.samples) < 8:
        acc.sample(dict(r, reported=got))


def make_replay(c):
    i = c["input"] or {}
    if "tb_position" in i:
        body = """
sys.path.insert(0, "/verif")
CASE = __CASE__
from props.realops import traceback_probe, _TB_POS
print("\\n".join(_TB_POS[CASE["tb_position"]][0]))
got, want = traceback_probe(CASE["tb_position"], CASE["source"], CASE["lead"])
print("construction path:", CASE["source"], " leading lines:", CASE["lead"])
print("RichTraceback's template frame (own file?, line, source line):", got, " expected:", want)
bad = None if tuple(got) == tuple(want) else "the template frame is not reported with the template's file, line and source line"
print("VIOLATED: " + bad if bad else "HOLDS")
sys.exit(1 if bad else 0)
""".replace("__CASE__", repr(i))
        return (c["kind"], body, repr(sorted(i.items(), key=str)))
    body = """
sys.path.insert(0, "/verif")
import warnings
CASE = __CASE__
bad = None
if "position" in CASE:
    from props.realops import warning_probe, _WARN_POS
    print("\\\\n".join(_WARN_POS[CASE["position"]][0]))
    got, want = warning_probe(CASE["position"], CASE["source"], CASE["action"], CASE["lead"])
    print("construction path:", CASE["source"], " filter:", CASE["action"], " leading lines:", CASE["lead"])
    print("warnings shown:", got, " expected exactly:", [want])
    if [tuple(g) for g in got] != [tuple(want)]: bad = "the warning is not shown exactly once against the template's filename and line"
else:
    import json
    from mako import template as TP
    lm = {str(k): v for k, v in CASE["line_map"].items()}
    src = "__M_BEGIN_METADATA" + json.dumps({"line_map": lm, "filename": "/templates/page.html", "uri": "/page.html", "source_encoding": "utf-8"}) + "__M_END_METADATA"
    with warnings.catch_warnings(record=True) as rec:
        warnings.simplefilter("always")
        with TP._translate_module_warnings(lambda: src, "the_module_id", "/templates/page.html"):
            if CASE["inside_drop_expression_warnings"]:
                with TP._drop_expression_warnings():
                    warnings.warn_explicit("m", UserWarning, CASE["warning_file"], CASE["warning_line"])
            else:
                warnings.warn_explicit("m", UserWarning, CASE["warning_file"], CASE["warning_line"])
    got = [(w.filename, w.lineno) for w in rec]
    keys = sorted(int(k) for k in lm)
    wl = CASE["warning_line"]
    if CASE["warning_file"] == "the_module_id" and wl <= keys[-1] - 1:
        below = [k for k in keys if k <= wl]
        want = [("/templates/page.html", lm[str(below[-1])] if below else 1)]
    elif CASE["inside_drop_expression_warnings"] and CASE["warning_file"] not in ("the_module_id", "/site-packages/other.py"):
        want = []
    else:
        want = [(CASE["warning_file"], wl)]
    print("line map", lm, " warning at", (CASE["warning_file"], wl), " shown as", got, " expected", want)
    if got != want: bad = "warning shown at the wrong location / not exactly once"
print("VIOLATED: " + bad if bad else "HOLDS")
sys.exit(1 if bad else 0)
""".replace("__CASE__", repr(i))
    return (c["kind"], body, (c["kind"], repr(sorted(i.items(), key=str))))


def classify(c):
    i = c.get("input") or {}
    if c["kind"] == "template-frame-on-construction-path" and i.get("tb_position") == "strict-undefined-name":
        return "C12-strict-undefined-frame-line-zero"
    if c["kind"] != "warning-not-once-at-template-line":
        return None
    shown, want = [tuple(x) for x in i.get("shown", [])], tuple(i.get("expected", ()))
    if i.get("position") == "def-default" and shown == []:
        return "C12-signature-warning-dropped"
    if i.get("source") == "module-file-stale-magic" and shown == [want, want]:
        return "C12-stale-module-file-warning-twice"
    return None


def run(check, tier, cands):
    setup()
    check.encode(TP._translate_module_warnings, TP._drop_expression_warnings, TP._show_warnings_as)
    check.assume(
        "warnings, hook chain: warnings.showwarning is called with a symbolic line number (1..%d) and a solver-chosen file name (the module's, "
        "another module's, the expression-parse pseudo file) inside _translate_module_warnings, optionally nested in _drop_expression_warnings, "
        "over a symbolic sparse line map (json stubbed); the caller's hook must receive the template's filename and the densified map's line "
        "exactly once per warning (none for a dropped expression-parse warning), untranslated when the map has no entry" % (max(KEYS) + 2),
        "warnings, construction paths (exploration, real code in a child interpreter): %d positions x %d construction paths x %d filter actions "
        "x 0/3 leading lines; exactly one warning at (template filename, template line) is expected" % (len(POSITIONS), len(SOURCES), len(ACTIONS)))
    jobs = [("C12-warn-locate", h_locate, on_locate, "warning display hooks with a symbolic warning line over a symbolic line map", dict(keys=KEYS), ("asserted",)),
            ("C12-warn-paths", h_probe, on_probe, "warning-triggering construct x construction path x filter action (real compilation)",
             dict(positions=POSITIONS, paths=SOURCES, actions=ACTIONS), ("asserted",))]
    jobs.append(("C12-tb-paths", h_tbprobe, on_tbprobe, "raising construct x construction path (incl. module directory / template directory reached through a symbolic link): RichTraceback's template frame",
                 dict(positions=TB_POSITIONS, paths=TB_SOURCES), ("asserted",)))
    for j in jobs:
        driver.register(j[0], j[1], j[2])
    goods = []
    for name, _h, _o, title, bounds, req in jobs:
        st, acc = driver.explore(name, time_limit=900)
        check.section(title, st, acc, bounds, tags_required=req)
        cands.extend(acc.candidates)
        goods.extend(acc.goods)
    return goods
