"""C12 corpus templates (shared with the stand-alone replay scripts; no engine imports)."""
# ------------------------------------------------------------------ corpus: every marker m<k>() sits on exactly one template line
CORPUS = {
    "body": """<%! import os %>
head ${m1()}
<%
    a = m2()
    b = m3()
%>
% if m4():
  ${m5()}
% elif m6():
  x
% endif
% for i in m7():
  ${loop.index} ${m8()}
% endfor
% for j in m9():
  ${m10()}
% endfor
% while m11():
  ${m12()}
% endwhile
% try:
  ${m13()}
% except m14():
  y
% endtry
% with m15() as w:
  ${m16()}
% endwith
tail ${m17() | m18()}
""",
    "defs": """<%def name="d(a)">
  in d ${m1()}
  % for k in m2():
    ${loop.index}
  % endfor
</%def>
<%def name="buffered()" buffered="True">
  ${m3()}
</%def>
${d(m4())}
<%call expr="d(m5())">
  body ${m6()}
</%call>
<%block name="blk">
  ${m7()}
</%block>
<%block name="blk2" filter="m8()">
  anon ${m9()}
</%block>
<%text filter="m10()">t</%text>
${buffered()}
${capture(d, m11())}
""",
    "module-block": """line one
<%!
    def helper():
        return m1()
    x1 = 1
%>
${helper()}
<%
    c = 1


    d = m2()
%>
${m3()}
""",
    "tags": """<%inherit file="${m1()}"/>
<%namespace name="ns" file="${m2()}"/>
<%page args="pa=3"/>
text line
<%include file="${m4()}" args="q=m5()"/>
<%ns:somedef a="${m6()}">
  ${m7()}
</%ns:somedef>
<%def name="d(x=8)">
  in d
</%def>
<%call expr="d(m9())"></%call>
last ${m10()}
""",
}
