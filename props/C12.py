"""C12 - runtime tracebacks and compile warnings map to template lines."""
import re
import types
import z3

from symx import core, values, driver, realproc
from symx.values import SymStr, SymChar, SymInt, sym_string, str_eq_term, conc, ch_eq
from . import common

L = PT = CG = PG = TP = EXC = UT = None

from .C12_corpus import CORPUS


def setup():
    global L, PT, CG, PG, TP, EXC, UT
    if L is not None:
        return
    L, PT, CG, PG, TP, EXC, UT = common.mako("lexer", "parsetree", "codegen", "pygen", "template", "exceptions", "util")


def kernel():
    P = PG.PythonPrinter
    G = CG._GenerateRenderMethod
    return [P.start_source, P._update_lineno, P.write_blanks, P.writeline, P.write_indented_block, P._flush_adjusted_lines,
            G.visitExpression, G.visitControlLine, G.visitCode, G.visitText, G.visitDefTag, G.visitBlockTag, G.visitCallTag,
            G.visitTextTag, G.write_metadata_struct, CG.mangle_mako_loop, TP.ModuleInfo.get_module_source_metadata,
            EXC.RichTraceback._init, TP._translate_module_warnings]


def all_nodes(tree):
    seen = {}

    def walk(n):
        if id(n) in seen:
            return
        seen[id(n)] = n
        for c in getattr(n, "nodes", []) or []:
            walk(c)

    for n in tree.nodes:
        walk(n)
    return list(seen.values())


def code_spans(tree):
    """template line ranges covered by <% %> / <%! %> blocks (lines inside one block are consecutive by construction)"""
    spans = []
    for n in all_nodes(tree):
        if type(n).__name__ == "Code":
            spans.append((n.lineno, n.lineno + n.text.count("\n")))
    return spans


def h_emission(name):
    text = CORPUS[name]
    nlines = text.count("\n") + 1

    def h(p):
        tree = L.Lexer(text).parse()
        # one symbolic line number per template line: strictly increasing (arbitrary vertical layout between constructs),
        # consecutive inside a multi-line code block
        v = [None] + [p.new_int("line%d" % i) for i in range(1, nlines + 1)]
        p.assume(v[1] >= 1)
        for i in range(1, nlines):
            p.assume(v[i + 1] > v[i])
        for a, b in code_spans(tree):
            for i in range(a, min(b, nlines)):
                p.assume(v[i + 1] == v[i] + 1)
        for n in all_nodes(tree):
            n.lineno = SymInt(v[n.lineno])
        buf = UT.FastEncodingBuffer()
        printer = PG.PythonPrinter(buf)
        CG.json = types.SimpleNamespace(dumps=lambda obj, **k: "{}")
        try:
            CG._GenerateRenderMethod(printer, CG._CompileContext("u", None, ["str"], [], None, None, "utf-8", True, False, True, CG.RESERVED_NAMES), tree)
        finally:
            import json
            CG.json = json
        return dict(v=v, gen=buf.getvalue(), smap=dict(printer.source_map), text=text, name=name)
    return h


MARK = re.compile(r"\bm(\d+)\(\)")


def on_emission(p, r, exc, acc):
    if exc is not None:
        acc.candidate(kind="emission-exception", input=None, detail="%s: %s" % (type(exc).__name__, str(exc)[:200]))
        return
    v, gen, smap, text = r["v"], r["gen"], r["smap"], r["text"]
    tlines = text.split("\n")
    where = {}
    for i, ln in enumerate(tlines, 1):
        for mk in MARK.findall(ln):
            where[int(mk)] = i
    keys = sorted(smap)
    glines = gen.split("\n")
    checked = 0
    for g, ln in enumerate(glines, 1):
        if re.match(r"^\s*m\d+ = (context|_import_ns)\.get\(", ln) or "__M_BEGIN" in ln:
            continue
        for mk in MARK.findall(ln):
            k = int(mk)
            below = [x for x in keys if x <= g]
            acc.vcs += 1
            if not below:
                acc.candidate(kind="generated-line-unmapped", input=dict(template=r["name"], marker=k), detail="generated line %d" % g)
                continue
            mapped = smap[below[-1]]
            me = mapped.e if isinstance(mapped, SymInt) else mapped
            st, mod = p.vc(me == v[where[k]])
            checked += 1
            if st == "fails":
                layout = [mod.eval(x, model_completion=True).as_long() for x in v[1:]]
                acc.candidate(kind="frame-maps-to-wrong-line", input=dict(template=r["name"], marker=k, layout=layout),
                              detail="generated line %d %r maps to template line %s, marker m%d is on line %s" % (
                                  g, ln.strip()[:60], mod.eval(me, model_completion=True) if not isinstance(me, int) else me, k,
                                  mod.eval(v[where[k]], model_completion=True)))
            elif st == "unknown":
                acc.vcs_unknown += 1
    acc.tags["asserted"] += 1
    acc.counts["markers checked"] += checked
    acc.sample(dict(template=r["name"], generated_lines=len(glines), marker_lines_checked=checked))


# ------------------------------------------------------------------ densification of the line map
KEYS = [1, 2, 4, 5, 9, 12]


def h_dense(p):
    present = [k for k in KEYS if p.fork(p.new_bool("has%d" % k))]
    if not present:
        raise core.Abort("empty map")
    vals = {k: p.new_int("tl%d" % k) for k in present}
    for k in present:
        p.assume(vals[k] >= 0)
    saved = TP.json
    TP.json = types.SimpleNamespace(loads=lambda s: {"line_map": {str(k): SymInt(vals[k]) for k in present}})
    try:
        meta = TP.ModuleInfo.get_module_source_metadata("x __M_BEGIN_METADATA {} __M_END_METADATA", full_line_map=True)
    finally:
        TP.json = saved
    return dict(present=present, vals=vals, full=meta["full_line_map"])


def on_dense(p, r, exc, acc):
    if exc is not None:
        acc.candidate(kind="densify-exception", input=None, detail="%s: %s" % (type(exc).__name__, str(exc)[:200]))
        return
    present, vals, full = r["present"], r["vals"], r["full"]
    acc.tags["asserted"] += 1
    top = max(present)
    acc.vcs += 1
    if len(full) != top - 1:
        acc.candidate(kind="full-line-map-length", input=dict(keys=present), detail="length %d for highest key %d" % (len(full), top))
        return
    conds = []
    for i in range(1, top):
        below = [k for k in present if k <= i]
        want = vals[below[-1]] if below else 1
        got = full[i - 1]
        ge = got.e if isinstance(got, SymInt) else got
        conds.append(ge == want)
    st, mod = p.vc(z3.And(conds) if conds else z3.BoolVal(True))
    if st == "fails":
        acc.candidate(kind="full-line-map-values", input=dict(keys=present, values={k: mod.eval(vals[k], model_completion=True).as_long() for k in present}),
                      detail="")
    acc.sample(dict(keys=present))


# ------------------------------------------------------------------ RichTraceback._init index arithmetic and source-line selection
SRC = values.Domain([97, 10, 13, 12, 0x1c, 0x85, 0x2028, 32])


def h_tb(nsrc, nmap):
    def h(p):
        src = sym_string(nsrc, "s", SRC)
        lm = [p.new_int("map%d" % i) for i in range(nmap)]
        for x in lm:
            p.assume(z3.And(x >= 1, x <= nsrc + 2))
        lineno = 1 + p.choose(nmap, "frame_line")
        info = types.SimpleNamespace(code="module source", source=src, template_filename="/t/page.html", template_uri="page.html")
        saved = (EXC.traceback, TP._get_module_info, TP.ModuleInfo.get_module_source_metadata)
        EXC.traceback = types.SimpleNamespace(extract_tb=lambda tb: [("plain.py", 7, "f", "x = 1"), ("memory:0x1", lineno, "render_body", "gen line")])
        TP._get_module_info = lambda fn: info if fn == "memory:0x1" else (_ for _ in ()).throw(KeyError(fn))
        TP.ModuleInfo.get_module_source_metadata = classmethod(lambda cls, src_, full_line_map=False: {"full_line_map": [SymInt(x) for x in lm]})
        try:
            rt = EXC.RichTraceback(error=ValueError("boom"), traceback=object())
        finally:
            EXC.traceback, TP._get_module_info = saved[0], saved[1]
            TP.ModuleInfo.get_module_source_metadata = saved[2]
        return dict(src=src, lm=lm, lineno=lineno, rt=rt)
    return h


def on_tb(p, r, exc, acc):
    if exc is not None:
        acc.candidate(kind="richtraceback-exception", input=None, detail="%s: %s" % (type(exc).__name__, str(exc)[:200]))
        return
    src, lm, lineno, rt = r["src"], r["lm"], r["lineno"], r["rt"]
    acc.tags["asserted"] += 1
    m = p.witness()
    desc = lambda mod: dict(source=src.concretize(mod), line_map=[mod.eval(x, model_completion=True).as_long() for x in lm], frame_line=lineno)
    recs = rt.records
    acc.vcs += 1
    if len(recs) != 2 or recs[0][4] is not None or recs[0][:4] != ("plain.py", 7, "f", "x = 1"):
        acc.candidate(kind="python-frame-altered", input=desc(m), detail=repr(recs[0])[:100])
        return
    rec = recs[1]
    tl = rec[5]
    tle = tl.e if isinstance(tl, SymInt) else tl
    acc.vcs += 1
    st, mod = p.vc(z3.And(tle == lm[lineno - 1], z3.BoolVal(rec[4] == "/t/page.html")))
    if st == "fails":
        acc.candidate(kind="template-line-number", input=desc(mod), detail="")
        return
    # the source line reported must be line `tl` of the template, lines being separated by "\n" (as the lexer counts them)
    lines = [[]]
    for c in src.items:
        if ch_eq(c, "\n"):
            lines.append([])
        else:
            lines[-1].append(c)
    k = tl.__index__() if isinstance(tl, SymInt) else tl
    want = lines[k - 1] if 1 <= k <= len(lines) else None
    got = rec[6]
    acc.vcs += 1
    if want is None:
        if got is not None:
            acc.candidate(kind="template-line-text", input=desc(m), detail="line %d does not exist but %r reported" % (k, conc(got, m)))
    elif got is None:
        acc.candidate(kind="template-line-text", input=desc(m), detail="line %d exists but nothing reported" % k)
    else:
        st, mod = p.vc(str_eq_term(values.lift(got), SymStr(want)))
        if st == "fails":
            acc.candidate(kind="template-line-text", input=desc(mod), detail="reported %r" % conc(got, mod))
    # the same source, as the text before a raising expression of a real template: the HTML and text error templates must
    # show that expression's line (real code, child interpreter)
    w = src.concretize(m)
    disp = realproc.call("runtime_error_display", w)
    acc.replayed += 1
    acc.vcs += 2
    if disp is not None:
        if not any("MARK" in x for x in disp["html_highlighted"]) or len(disp["html_highlighted"]) != 1:
            acc.candidate(kind="error-page-wrong-line", input=dict(prefix=w), detail="html_error_template highlights %r" % (disp["html_highlighted"],))
        elif disp["text"] is None or disp["text"][0] != disp["line"] or "MARK" not in disp["text"][1]:
            acc.candidate(kind="error-page-wrong-line", input=dict(prefix=w), detail="text_error_template reports %r, the raise is on line %d" % (disp["text"], disp["line"]))
    acc.sample(desc(m))


def make_replay(c):
    i = c["input"] or {}
    body = """
sys.path.insert(0, "/verif")
from mako.template import Template
from mako import exceptions
CASE = __CASE__
KIND = __KIND__
bad = None
if "marker" in CASE:
    from props.C12_corpus import CORPUS
    text = CORPUS[CASE["template"]]
    lines = text.split("\\n")
    layout = CASE.get("layout") or list(range(1, len(lines) + 1))
    # realise the vertical layout: pad with empty lines so that template line i lands on line layout[i-1]
    out = []
    for idx, ln in enumerate(lines):
        while len(out) + 1 < layout[idx] if idx < len(layout) else False:
            out.append("")
        out.append(ln)
    tmpl = "\\n".join(out)
    k = CASE["marker"]
    target = [n for n, ln in enumerate(out, 1) if ("m%d()" % k) in ln][0]
    class Boom(Exception): pass
    def mk(j):
        def f(*a, **kw):
            if j == k: raise Boom("marker %d" % j)
            return [] if j in LOOPS else (lambda s: s) if j in FILTERS else ""
        return f
    import re
    LOOPS = {int(x) for x in re.findall(r"% (?:for \\w+ in|while) m(\\d+)\\(\\)", text)}
    FILTERS = {int(x) for x in re.findall(r"(?:filter=\\"|\\| )m(\\d+)\\(\\)", text)}
    ctx = {"m%d" % j: mk(j) for j in range(1, 40)}
    AUX = {"/base": "${next.body()}", "/lib": "<%def name='somedef(a)'>${caller.body()}</%def>", "/inc": "inc"}
    if CASE["template"] == "tags":
        URIS = {1: "/base", 2: "/lib", 4: "/inc"}
        for j, u in URIS.items():
            ctx["m%d" % j] = (lambda jj, uu: (lambda *a, **kw: (_ for _ in ()).throw(Boom("marker %d" % jj)) if jj == k else uu))(j, u)
    import builtins
    for kk, vv in ctx.items(): setattr(builtins, kk, vv)     # signature defaults and <%! %> code run at module level
    from mako.lookup import TemplateLookup
    for how in ("string", "file"):
        import tempfile, os, shutil
        base = tempfile.mkdtemp(prefix="c12")
        try:
            if how == "string":
                lk = TemplateLookup()
                for u, src_ in AUX.items(): lk.put_string(u, src_)
                lk.put_string("/t.html", tmpl)
            else:
                for u, src_ in list(AUX.items()) + [("/t.html", tmpl)]:
                    open(os.path.join(base, u.lstrip("/")), "w").write(src_)
                lk = TemplateLookup([base], module_directory=os.path.join(base, "m"))
            t = lk.get_template("/t.html")
            try:
                t.render(**ctx)
                print(how, ": marker did not raise"); continue
            except Boom:
                tb = exceptions.RichTraceback()
                recs = [r for r in tb.records if r[4] is not None and (r[4].endswith("t.html"))]
                got = recs[-1][5] if recs else None
                print(how, ": marker m%d is on template line %d, RichTraceback reports line %s (%r)" % (k, target, got, recs[-1][6] if recs else None))
                if got != target: bad = "traceback frame mapped to template line %s, the raising construct is on line %d" % (got, target)
        finally:
            shutil.rmtree(base, ignore_errors=True)
elif "prefix" in CASE:
    from props.realops import runtime_error_display
    d = runtime_error_display(CASE["prefix"])
    print("template:", repr(CASE["prefix"] + "\\n${1/0} MARK\\nafter"))
    print("raising line:", d["line"], " html highlights:", d["html_highlighted"], " text template reports:", d["text"])
    if len(d["html_highlighted"]) != 1 or "MARK" not in d["html_highlighted"][0]: bad = "the HTML error page highlights a different line"
    elif d["text"] is None or d["text"][0] != d["line"] or "MARK" not in d["text"][1]: bad = "the text error page reports a different line"
elif "source" in CASE:
    # a real template whose source is the counterexample text followed by a raising expression on a known line
    src = CASE["source"]
    tmpl = src + "\\n${1/0}"
    target = tmpl.count("\\n") + 1
    try:
        Template(tmpl).render()
    except ZeroDivisionError:
        tb = exceptions.RichTraceback()
        rec = [r for r in tb.records if r[4] is not None][-1]
        want = tmpl.split("\\n")[rec[5] - 1]
        print("reported line", rec[5], repr(rec[6]), "; line", rec[5], "of the template is", repr(want))
        if rec[5] != target: bad = "wrong line number %s (raise is on line %d)" % (rec[5], target)
        elif rec[6] != want: bad = "the source line shown is not the template's line %d" % rec[5]
else:
    from mako.template import ModuleInfo
    import json
    keys = CASE["keys"]; vals = CASE.get("values") or {k: k * 10 for k in keys}
    lm = {str(k): vals[k] if k in vals else vals[str(k)] for k in keys}
    src = "__M_BEGIN_METADATA" + json.dumps({"line_map": lm}) + "__M_END_METADATA"
    full = ModuleInfo.get_module_source_metadata(src, full_line_map=True)["full_line_map"]
    for i in range(1, max(keys)):
        below = [k for k in keys if k <= i]
        want = lm[str(below[-1])] if below else 1
        if i - 1 >= len(full) or full[i - 1] != want: bad = "module line %d maps to %s, expected %s" % (i, full[i - 1] if i - 1 < len(full) else None, want)
print("VIOLATED: " + bad if bad else "HOLDS")
sys.exit(1 if bad else 0)
""".replace("__CASE__", repr(i)).replace("__KIND__", repr(c["kind"]))
    return (c["kind"], body, (c["kind"], repr(sorted(i.items(), key=str))))


def classify(c):
    i = c.get("input") or {}
    if c["kind"] == "frame-maps-to-wrong-line" and "marker" in i:
        for ln in CORPUS[i["template"]].split("\n"):
            if ("m%d()" % i["marker"]) in ln:
                if re.search(r"<%%(def|block)\b[^>]*filter=\"m%d\(\)\"" % i["marker"], ln):
                    return "C12-def-block-filter-line"
    return None


def run(check, tier):
    setup()
    check.encode(*kernel())
    check.assume(
        "emission sites: the real code generator runs on the parse trees of %d concrete corpus templates whose node line numbers are replaced "
        "by z3 Ints - one per template line, strictly increasing (an arbitrary vertical layout), consecutive inside one <%% %%> block; "
        "every generated line containing a marker call m<k>() must map, through printer.source_map and the densification rule, to the "
        "symbolic line of the template line that holds m<k>()" % len(CORPUS),
        "json serialisation of the line map is stubbed in that harness; densification (get_module_source_metadata) is checked separately on "
        "a symbolic sparse map; RichTraceback._init runs on a symbolic line map and a symbolic template source containing several kinds "
        "of line boundary characters, with traceback.extract_tb and the module registry stubbed")
    check.not_claimed("templates outside the corpus (the claim is per emission site kind, for every vertical layout)",
                      "the 'error' filter action (the warning is raised from the first parse; pinned by the repository's tests)", "pygments highlighting in error templates")
    jobs = []
    for name in CORPUS:
        jobs.append(("C12-emit-" + name, h_emission(name), on_emission, "emission sites of corpus template '%s' with symbolic line numbers" % name,
                     dict(template=name, lines=CORPUS[name].count("\n") + 1), ("asserted",)))
    jobs.append(("C12-dense", h_dense, on_dense, "densification of a symbolic sparse line map (keys among %r)" % KEYS, dict(keys=KEYS), ("asserted",)))
    for nsrc in range(1, {"quick": 3, "thorough": 4}[tier] + 1):
        jobs.append(("C12-tb-%d" % nsrc, h_tb(nsrc, 2), on_tb, "RichTraceback._init with %d symbolic source characters and a symbolic line map" % nsrc,
                     dict(source_chars=nsrc, map_entries=2), ("asserted",)))
    for j in jobs:
        driver.register(j[0], j[1], j[2])
    cands = []
    for name, _h, _o, title, bounds, req in jobs:
        st, acc = driver.explore(name, time_limit=900)
        check.section(title, st, acc, bounds, tags_required=req)
        cands.extend(acc.candidates)
    check.confirm(cands, make_replay, classify)
    from . import C12_warn
    wc = []
    wgoods = C12_warn.run(check, tier, wc)
    check.confirm(wc, C12_warn.make_replay, C12_warn.classify, max_confirm=24, per_finding=2, goods=wgoods or ())
    driver.close_pool()
    realproc.shutdown()
