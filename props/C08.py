"""C08 - a template means the same on every compilation and rendering path (narrow claim, see DESIGN section 4)."""
import re
import z3

from symx import core, values, driver, realproc
from symx.values import SymStr, sym_string, str_eq_term, conc, lift
from . import common

TP = None
DOMAIN = None


def setup():
    global TP, DOMAIN
    if TP is not None:
        return
    TP = common.mako("template")
    from symx import env
    TP.os = env.sym_posixpath().__sx_os_shim__
    DOMAIN = common.domain_for([TP], reps=2, ascii_all=True)
    values.set_domain(DOMAIN)


def kernel():
    return [TP.Template.__init__, TP.ModuleInfo.__init__, TP._get_module_info_from_callable, TP.ModuleInfo.source.fget]


# ------------------------------------------------------------------ registry key injectivity (symbolic URIs)
def module_id_of(uri):
    """the registry / cache key derivation, executed by the real Template.__init__ up to the point it is fixed"""
    t = TP.Template.__new__(TP.Template)
    # run the real constructor with compilation stubbed out: module_id is assigned first thing
    saved = TP._compile_text
    TP._compile_text = lambda *a, **k: (_ for _ in ()).throw(_Stop())
    try:
        try:
            TP.Template.__init__(t, text="x", uri=uri)
        except _Stop:
            pass
    finally:
        TP._compile_text = saved
    return t.module_id


class _Stop(Exception):
    pass


def h_ids(n1, n2):
    def h(p):
        u1 = sym_string(n1, "a")
        u2 = sym_string(n2, "b")
        # distinct URIs that are legal lookup URIs (no '..' traversal is needed for the point)
        i1, i2 = lift(module_id_of(u1)), lift(module_id_of(u2))
        return dict(u1=u1, u2=u2, i1=i1, i2=i2)
    return h


def on_ids(p, r, exc, acc):
    if exc is not None:
        if type(exc).__name__ == "TemplateLookupException":
            acc.counts["uri rejected"] += 1
            return
        acc.candidate(kind="harness-exception", input=None, detail="%s: %s" % (type(exc).__name__, str(exc)[:200]))
        return
    acc.tags["asserted"] += 1
    u1, u2, i1, i2 = r["u1"], r["u2"], r["i1"], r["i2"]
    distinct = z3.Not(str_eq_term(u1, u2))
    acc.vcs += 1
    st, mod = p.vc(z3.Implies(distinct, z3.Not(str_eq_term(i1, i2))))
    if st == "fails":
        acc.candidate(kind="registry-key-collision", input=dict(uris=[u1.concretize(mod), u2.concretize(mod)]),
                      detail="both have module_id %r" % i1.concretize(mod))
    elif st == "unknown":
        acc.vcs_unknown += 1
    m = p.witness()
    acc.sample(dict(uris=[u1.concretize(m), u2.concretize(m)], ids=[i1.concretize(m), i2.concretize(m)]))


# ------------------------------------------------------------------ construction / rendering paths (concrete replay of solver-chosen cases)
PATHS = ["string", "file", "module_directory", "reloaded", "render_unicode", "render_context", "get_def", "module_template"]
CORPUS = ["plain", "inherits", "namespaces", "nonascii", "latin1"]


def h_paths(p):
    return dict(template=CORPUS[p.choose(len(CORPUS), "template")], path=PATHS[p.choose(len(PATHS), "path")])


def on_paths(p, r, exc, acc):
    acc.tags["asserted"] += 1
    res = realproc.call("path_equivalence", r["template"], r["path"])
    acc.replayed += 1
    acc.vcs += 1
    if res[0] != res[1]:
        acc.candidate(kind="path-dependent-output", input=dict(template=r["template"], path=r["path"]), detail="%r on this path, %r from a string" % (res[0], res[1]))
    acc.sample(dict(template=r["template"], path=r["path"], output=res[0]))


def make_replay(c):
    i = c["input"] or {"uris": ["a", "b"]}
    body = """
sys.path.insert(0, "/verif")
CASE = __CASE__
from mako.lookup import TemplateLookup
bad = None
if "uris" in CASE:
    a, b = CASE["uris"]
    print("uris:", repr(a), repr(b))
    lk = TemplateLookup()
    try:
        lk.put_string(a, "first template"); lk.put_string(b, "second template")
    except Exception as e:
        print("not constructible:", type(e).__name__, e); sys.exit(0)
    ta, tb = lk.get_template(a), lk.get_template(b)
    print("source of first :", repr(ta.source)); print("source of second:", repr(tb.source))
    if ta.source != "first template" or tb.source != "second template": bad = "Template.source returns another template's text"
else:
    from props.realops import path_equivalence
    got, want = path_equivalence(CASE["template"], CASE["path"])
    print("path", CASE["path"], "->", repr(got)); print("from a string ->", repr(want))
    if got != want: bad = "output depends on the construction / rendering path"
print("VIOLATED: " + bad if bad else "HOLDS")
sys.exit(1 if bad else 0)
""".replace("__CASE__", repr(i))
    return (c["kind"], body, repr(i))


def classify(c):
    i = c.get("input") or {}
    if c["kind"] == "registry-key-collision":
        a, b = i["uris"]
        # the listed finding: the URIs differ ONLY in non-word characters (same length, same word characters at the same places)
        if len(a) == len(b) and all(x == y or (not (x.isalnum() or x == "_") or x == "_") and (not (y.isalnum() or y == "_") or y == "_") for x, y in zip(a, b)):
            return "C08-module-id-collision"
    return None


def run(check, tier):
    setup()
    check.encode(*kernel())
    check.assume(
        "registry key: the real Template.__init__ derives module_id for two fully symbolic URIs (character abstraction: %d representatives, "
        "all ASCII individually); z3 is asked whether two DISTINCT URIs can get the same key; every collision witness is replayed through "
        "a real lookup reading Template.source" % len(DOMAIN.cps),
        "construction / rendering paths: for solver-chosen (corpus template, path) pairs the real output on that path is compared with the "
        "output of the same template compiled from a string - concrete replay, not a symbolic claim")
    check.not_claimed("equivalence of the paths for arbitrary templates", "PYTHONHASHSEED independence", "mako-render command line")
    jobs = []
    N = {"quick": 2, "thorough": 3}[tier]
    for a in range(1, N + 1):
        for b in range(a, N + 1):
            jobs.append(("C08-ids-%d-%d" % (a, b), h_ids(a, b), on_ids, "module_id of two symbolic URIs of %d and %d characters" % (a, b), dict(chars=[a, b]), ("asserted",)))
    jobs.append(("C08-paths", h_paths, on_paths, "corpus x construction/rendering paths (concrete)", dict(templates=CORPUS, paths=PATHS), ("asserted",)))
    for j in jobs:
        driver.register(j[0], j[1], j[2])
    cands = []
    for name, _h, _o, title, bounds, req in jobs:
        st, acc = driver.explore(name, time_limit=900)
        check.section(title, st, acc, bounds, tags_required=req)
        cands.extend(acc.candidates)
    check.confirm(cands, make_replay, classify, max_confirm=20)
    driver.close_pool()
    realproc.shutdown()
