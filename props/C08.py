"""C08 - a template means the same on every compilation and rendering path (narrow claim, see DESIGN section 4)."""
import re
import z3

from symx import core, values, driver, realproc
from symx.values import SymStr, sym_string, str_eq_term, conc, lift
from . import common

TP = None
DOMAIN = None


def setup():
    global TP, DOMAIN
    if TP is not None:
        return
    from symx import loader
    loader.ORDER_SETS = True          # the iteration order of every set built by mako's own code becomes a harness choice
    TP = common.mako("template")
    from symx import env
    TP.os = env.sym_posixpath().__sx_os_shim__
    DOMAIN = common.domain_for([TP], reps=2, ascii_all=True)
    values.set_domain(DOMAIN)


def kernel():
    return [TP.Template.__init__, TP.ModuleInfo.__init__, TP._get_module_info_from_callable, TP.ModuleInfo.source.fget]


# ------------------------------------------------------------------ registry key injectivity (symbolic URIs)
def module_id_of(uri):
    """the registry / cache key derivation, executed by the real Template.__init__ up to the point it is fixed"""
    t = TP.Template.__new__(TP.Template)
    # run the real constructor with compilation stubbed out: module_id is assigned first thing
    saved = TP._compile_text
    TP._compile_text = lambda *a, **k: (_ for _ in ()).throw(_Stop())
    try:
        try:
            TP.Template.__init__(t, text="x", uri=uri)
        except _Stop:
            pass
    finally:
        TP._compile_text = saved
    return t.module_id


class _Stop(Exception):
    pass


def h_ids(n1, n2):
    def h(p):
        u1 = sym_string(n1, "a")
        u2 = sym_string(n2, "b")
        # distinct URIs that are legal lookup URIs (no '..' traversal is needed for the point)
        i1, i2 = lift(module_id_of(u1)), lift(module_id_of(u2))
        return dict(u1=u1, u2=u2, i1=i1, i2=i2)
    return h


def on_ids(p, r, exc, acc):
    if exc is not None:
        if type(exc).__name__ == "TemplateLookupException":
            acc.counts["uri rejected"] += 1
            return
        acc.candidate(kind="harness-exception", input=None, detail="%s: %s" % (type(exc).__name__, str(exc)[:200]))
        return
    acc.tags["asserted"] += 1
    u1, u2, i1, i2 = r["u1"], r["u2"], r["i1"], r["i2"]
    distinct = z3.Not(str_eq_term(u1, u2))
    acc.vcs += 1
    st, mod = p.vc(z3.Implies(distinct, z3.Not(str_eq_term(i1, i2))))
    if st == "fails":
        acc.candidate(kind="registry-key-collision", input=dict(uris=[u1.concretize(mod), u2.concretize(mod)]),
                      detail="both have module_id %r" % i1.concretize(mod))
    elif st == "unknown":
        acc.vcs_unknown += 1
    m = p.witness()
    acc.sample(dict(uris=[u1.concretize(m), u2.concretize(m)], ids=[i1.concretize(m), i2.concretize(m)]))


# ------------------------------------------------------------------ construction / rendering paths (concrete replay of solver-chosen cases)
PATHS = ["string", "file", "module_directory", "reloaded", "render_unicode", "render_context", "get_def", "module_template", "mako_render", "moved_source", "stale_generation_module", "get_def_arguments", "mako_render_output_encoding"]
CORPUS = ["plain", "inherits", "namespaces", "nonascii", "latin1"]


def h_paths(p):
    return dict(template=CORPUS[p.choose(len(CORPUS), "template")], path=PATHS[p.choose(len(PATHS), "path")])


def on_paths(p, r, exc, acc):
    acc.tags["asserted"] += 1
    res = realproc.call("path_equivalence", r["template"], r["path"])
    acc.replayed += 1
    acc.vcs += 1
    if res[0] != res[1]:
        acc.candidate(kind="path-dependent-output", input=dict(template=r["template"], path=r["path"]), detail="%r on this path, %r from a string" % (res[0], res[1]))
    acc.sample(dict(template=r["template"], path=r["path"], output=res[0]))


# ------------------------------------------------------------------ PYTHONHASHSEED: the iteration order of sets as an environment choice
SEED_CORPUS = {
    "overlapping-imports": {
        "/t": '<%namespace name="widgets" file="/widgets" import="*"/><%namespace name="forms" file="/forms" import="*"/>'
              '<%namespace name="theme" file="/theme" import="label, only_theme"/>${label()} ${only_widgets()} ${only_theme()} ${field()}',
        "/widgets": '<%def name="label()">widgets-label</%def><%def name="only_widgets()">ow</%def><%def name="field()">widgets-field</%def>',
        "/forms": '<%def name="label()">forms-label</%def><%def name="field()">forms-field</%def>',
        "/theme": '<%def name="label()">theme-label</%def><%def name="only_theme()">ot</%def>'},
    "many-names": {
        "/t": "<%! import os %><%page args=\"pa=1, pb=2\"/><% la = 1; lb = 2; lc = la + lb %>"
              "<%def name=\"a(x, y=1)\">${x}${y}${z}${w}${la if False else ''}</%def><%def name=\"b()\">${a(1)}${q}${r}${s}<%def name=\"inner()\">${q}${z}</%def>${inner()}</%def>\n"
              "% for i in items:\n${i}${a(i)}${b()}${lc}${pa}${pb}\n% endfor\n<%block name=\"blk\">${z}${w}${q}</%block>"},
    "nested-def-defaults": {
        # the default of a nested def reads a context variable: the variable must be fetched before the closure is defined
        "/t": '<%def name="g()"><%def name="f(a=z)">${a}</%def><%def name="f2(b=w, c=q)">${b}${c}</%def>${f()}${f2()}</%def>${g()}'},
    "inheritance": {
        "/t": "<%inherit file='/base'/><%namespace name='n1' file='/widgets' import='label'/><%def name='d()'>${label()}${z}</%def><%block name='x'>${d()}${q}</%block>body ${w}",
        "/base": "<%namespace name='n2' file='/forms' import='*'/>B(${label()} <%block name='x'>bx</%block> ${next.body()} ${self.d()})",
        "/widgets": '<%def name="label()">widgets-label</%def>', "/forms": '<%def name="label()">forms-label</%def><%def name="field()">forms-field</%def>'},
}
SEED_DATA = dict(z="Z", w="W", q="Q", r="R", s="S", items=[1, 2])
ORDERS = ["sorted", "reversed", "rotated"]


def seed_render(LKm, name, mode):
    from symx import loader
    loader.SET_ORDER["mode"] = mode
    try:
        lk = LKm.TemplateLookup()
        for k, v in SEED_CORPUS[name].items():
            lk.put_string(k, v)
        try:
            return "".join(lk.get_template("/t").render(**SEED_DATA).split())
        except Exception as e:
            return "raised %s: %s" % (type(e).__name__, e)
    finally:
        loader.SET_ORDER["mode"] = None


def h_seed(p):
    LKm = common.mako("lookup")
    name = list(SEED_CORPUS)[p.choose(len(SEED_CORPUS), "template")]
    mode = ORDERS[p.choose(len(ORDERS), "set_iteration_order")]
    return dict(template=name, order=mode, got=seed_render(LKm, name, mode), base=seed_render(LKm, name, None))


def on_seed(p, r, exc, acc):
    if exc is not None:
        acc.candidate(kind="harness-exception", input=None, detail="%s: %s" % (type(exc).__name__, str(exc)[:200]))
        return
    acc.tags["asserted"] += 1
    acc.vcs += 1
    if r["got"] != r["base"] or r["base"].startswith("raised"):
        acc.candidate(kind="output-depends-on-set-order", input=dict(seed_template=r["template"], order=r["order"]),
                      detail="%r with sets iterated %s, %r in the interpreter's own order" % (r["got"], r["order"], r["base"]))
    acc.sample(dict(template=r["template"], order=r["order"], output=r["got"]))


SEED_CHILD = """
import sys, os
sys.path.insert(0, os.environ.get("MAKO_TREE", "/repo")); sys.path.insert(0, "/verif")
from mako.lookup import TemplateLookup
from props.C08 import SEED_CORPUS, SEED_DATA
lk = TemplateLookup()
for k, v in SEED_CORPUS[sys.argv[1]].items(): lk.put_string(k, v)
print("".join(lk.get_template("/t").render(**SEED_DATA).split()))
"""


def make_replay(c):
    i = c["input"] or {"uris": ["a", "b"]}
    if "seed_template" in i:
        body = """
# the same template set rendered by fresh interpreters under different PYTHONHASHSEED values
import subprocess
sys.path.insert(0, "/verif")
CASE = __CASE__
from props.C08 import SEED_CHILD
outs = {}
for seed in range(0, 24):
    r = subprocess.run([sys.executable, "-c", SEED_CHILD, CASE["seed_template"]], env=dict(os.environ, PYTHONHASHSEED=str(seed)), capture_output=True, text=True)
    outs.setdefault(r.stdout.strip() or r.stderr.strip()[-200:], []).append(seed)
for o, seeds in outs.items(): print("seeds", seeds, "->", o)
bad = None if len(outs) == 1 else "the rendered text depends on PYTHONHASHSEED"
print("VIOLATED: " + bad if bad else "HOLDS")
sys.exit(1 if bad else 0)
""".replace("__CASE__", repr(i))
        return (c["kind"], body, repr(i["seed_template"]))
    body = """
sys.path.insert(0, "/verif")
CASE = __CASE__
from mako.lookup import TemplateLookup
bad = None
if "uris" in CASE:
    a, b = CASE["uris"]
    print("uris:", repr(a), repr(b))
    lk = TemplateLookup()
    try:
        lk.put_string(a, "first template"); lk.put_string(b, "second template")
    except Exception as e:
        print("not constructible:", type(e).__name__, e); sys.exit(0)
    ta, tb = lk.get_template(a), lk.get_template(b)
    print("source of first :", repr(ta.source)); print("source of second:", repr(tb.source))
    if ta.source != "first template" or tb.source != "second template": bad = "Template.source returns another template's text"
else:
    from props.realops import path_equivalence
    got, want = path_equivalence(CASE["template"], CASE["path"])
    print("path", CASE["path"], "->", repr(got)); print("from a string ->", repr(want))
    if got != want: bad = "output depends on the construction / rendering path"
print("VIOLATED: " + bad if bad else "HOLDS")
sys.exit(1 if bad else 0)
""".replace("__CASE__", repr(i))
    return (c["kind"], body, repr(i))


def classify(c):
    i = c.get("input") or {}
    if c["kind"] == "registry-key-collision":
        a, b = i["uris"]
        # the listed finding: the URIs differ ONLY in non-word characters (same length, same word characters at the same places)
        if len(a) == len(b) and all(x == y or (not (x.isalnum() or x == "_") or x == "_") and (not (y.isalnum() or y == "_") or y == "_") for x, y in zip(a, b)):
            return "C08-module-id-collision"
    return None


def run(check, tier):
    setup()
    check.encode(*kernel())
    check.assume(
        "registry key: the real Template.__init__ derives module_id for two fully symbolic URIs (character abstraction: %d representatives, "
        "all ASCII individually); z3 is asked whether two DISTINCT URIs can get the same key; every collision witness is replayed through "
        "a real lookup reading Template.source" % len(DOMAIN.cps),
        "construction / rendering paths: for solver-chosen (corpus template, path) pairs the real output on that path is compared with the "
        "output of the same template compiled from a string - concrete replay, not a symbolic claim")
    check.assume("PYTHONHASHSEED: every set built by mako's own modules (set(), set displays, set comprehensions, results of set algebra) is a "
                 "set whose iteration order is a harness choice (sorted / reversed / rotated by one - orders some hash seed produces); three "
                 "template sets (overlapping import= namespaces, many names in nested scopes, inheritance with imports) are compiled and "
                 "rendered in-process under each order and must give the text of the interpreter's own order; counterexamples are replayed "
                 "in fresh interpreters under 24 hash seeds")
    check.not_claimed("equivalence of the paths for arbitrary templates", "set orders other than the three modelled")
    jobs = []
    N = {"quick": 2, "thorough": 3}[tier]
    for a in range(1, N + 1):
        for b in range(a, N + 1):
            jobs.append(("C08-ids-%d-%d" % (a, b), h_ids(a, b), on_ids, "module_id of two symbolic URIs of %d and %d characters" % (a, b), dict(chars=[a, b]), ("asserted",)))
    jobs.append(("C08-hashseed", h_seed, on_seed, "set iteration order as an environment choice x template sets", dict(templates=list(SEED_CORPUS), orders=ORDERS), ("asserted",)))
    jobs.append(("C08-paths", h_paths, on_paths, "corpus x construction/rendering paths (concrete)", dict(templates=CORPUS, paths=PATHS), ("asserted",)))
    for j in jobs:
        driver.register(j[0], j[1], j[2])
    cands = []
    for name, _h, _o, title, bounds, req in jobs:
        st, acc = driver.explore(name, time_limit=900)
        check.section(title, st, acc, bounds, tags_required=req)
        cands.extend(acc.candidates)
    check.confirm(cands, make_replay, classify, max_confirm=20)
    driver.close_pool()
    realproc.shutdown()
