"""C11 - compile-time errors name the template and the line of the fault."""
import types
import z3

from symx import core, values, driver, realproc
from symx.values import SymStr, SymChar, SymInt, sym_string, cv, conc
from oracles import tokenizer
from . import common

L = PT = EXC = AST = PP = PG = None
DOMAIN = None
FILENAME = "/templates/page.html"
OTHER_BOUNDARIES = "\r\x0b\x0c\x1c\x1d\x1e\x85\u2028\u2029"

# (name, construct text, offset of the offending construct inside it, which fields are asserted)
#   'linecol' = line and column of that offset; 'line' = line only (column convention not fixed by the statement)
STRUCT_FAULTS = [
    ("unterminated-expression", "${x + 1", 0, "linecol"),
    ("unterminated-expression-multiline", "${x +\n 1", 0, "linecol"),
    ("unterminated-block", "<% x = 1", 0, "linecol"),
    ("unterminated-module-block", "<%! x = 1\n", 0, "linecol"),
    ("closer-without-opener", "</%def>", 0, "linecol"),
    ("mismatched-closer", "<%block>b</%def>", 9, "linecol"),
    ("end-without-start", "\n% endfor\n", 1, "line"),
    ("mismatched-end", "\n% if x:\n% endfor\n", 9, "line"),
    ("illegal-ternary", "\n% for x in y:\n% elif z:\n", 15, "line"),
    ("invalid-control-line", "\n% \n", 1, "line"),
    ("unterminated-control", "\n% if x:\nbody\n", 1, "line"),
    ("unknown-tag", "<%nosuchtag/>", 0, "linecol"),
    ("missing-attribute", "<%include/>", 0, "linecol"),
    ("illegal-attribute", "<%include file=\"x\" bogus=\"1\"/>", 0, "linecol"),
    ("namespace-without-name", "<%namespace file=\"x\"/>", 0, "linecol"),
    ("expression-in-plain-attribute", "<%namespace name=\"${x}\" file=\"y\"/>", 0, "linecol"),
    ("unknown-tag-multiline", "<%nosuchtag\n  a=\"1\"/>", 0, "linecol"),
    ("tag-name-with-two-colons", "<%a:b:c/>", 0, "linecol"),
    ("else-without-open-block", "\n% else:\nx\n", 1, "line"),
    ("except-without-open-block", "\n% except KeyError:\nx\n", 1, "line"),
    ("elif-after-endif", "\n% if x:\n% endif\n% elif y:\n", 18, "line"),
    ("closing-tag-for-namespace-call-mismatch", "<%a:b>x</%a:c>", 7, "linecol"),
    ("unclosed-text-tag", "<%text>\nfoo\n\n", 0, "line"),
]


# faults found after lexing (by the node constructors with real Python parsing, or by the code generator)
COMPILE_FAULTS = [(n_, t_, (t_.rindex(m_) if m_ else 0), w_) for n_, t_, m_, w_ in [
    ("anonymous-block-in-namespace", "<%namespace name=\"n\">\n  <%block>x</%block>\n</%namespace>", "<%block", "linecol"),
    ("duplicate-block", "<%block name=\"a\">1</%block>\n  <%block name=\"a\">2</%block>", "<%block", "linecol"),
    ("block-named-like-def", "<%def name=\"a()\"></%def>\n  <%block name=\"a\">2</%block>", "<%block", "linecol"),
    ("named-block-in-def", "<%def name=\"d()\">\n  <%block name=\"b\">x</%block></%def>", "<%block", "linecol"),
    ("named-block-in-call", "<%call expr=\"d()\">\n  <%block name=\"b\">x</%block></%call>", "<%block", "linecol"),
    ("def-signature", "<%def name=\"d(a b)\"></%def>", None, "linecol"),
    ("def-without-parenthesis", "<%def name=\"d\"></%def>", None, "linecol"),
    ("page-args", "<%page args=\"a b\"/>", None, "linecol"),
    ("block-args", "<%block name=\"q\" args=\"a b\"></%block>", None, "linecol"),
    ("filter-list", "${x | a b}", None, "linecol"),
    ("attribute-expression", "<%include file=\"${a b}\"/>", None, "linecol"),
    ("call-expression", "<%call expr=\"f(a b)\"></%call>", None, "linecol"),
    ("text-filter", "<%text filter=\"a b\">x</%text>", None, "linecol"),
    ("tag-name-colon-only", "<%:/>", None, "linecol"),
    # Python faults on the continuation line of a control line continued with a backslash: the line holding the fault
    ("if-continuation-line-fault", "\n% if a and \\\n   b +* 2:\nx\n% endif\n", "b +*", "line"),
    ("elif-continuation-line-fault", "\n% if a:\n% elif y and \\\n   z +* 2:\nx\n% endif\n", "z +*", "line"),
    ("for-continuation-line-fault", "\n% for i in \\\n   [1, +* 2]:\nx\n% endfor\n", "[1, +*", "line"),
    ("except-continuation-line-fault", "\n% try:\nx\n% except (A, \\\n   B +* 2):\ny\n% endtry\n", "B +*", "line"),
    # faults that only the compilation of the generated module sees
    ("return-in-module-block", "<%!\n  return 1\n%>\n", "return 1", "line"),
    ("control-block-closed-inside-a-def", "\n% if x:\n<%def name=\"a()\">\n% endif\n</%def>\n", "% if", "any"),
    ("control-block-opened-inside-a-def", "\n<%def name=\"a()\">\n% if x:\n</%def>\n% endif\n", "% if", "any"),
    ("break-outside-loop", "<%\n  x = 1\n  break\n%>\n", "break", "line"),
    ("loop-context-on-an-unsupported-target", "\n% for x.y in z:\n${loop.index}\n% endfor\n", "% for", "line"),
    # a tag that is never closed: the line where the tag begins
    ("unclosed-tag", "<%def name=\"a()\">\nfoo\n\n", "<%def", "line"),
    ("unclosed-nested-tag", "<%def name=\"a()\">\n <%call expr=\"b()\">\nfoo\n\n\n", "<%call", "line"),
    # a clause keyword that does not belong to the open block
    ("else-inside-with", "\n% with a as b:\n% else:\nx\n% endwith\n", "% else", "linecol"),
    ("finally-inside-if", "\n% if a:\n% finally:\nx\n% endif\n", "% finally", "linecol"),
    ("except-inside-for", "\n% for a in b:\n% except E:\nx\n% endfor\n", "% except", "linecol"),
    ("elif-inside-while", "\n% while a:\n% elif b:\nx\n% endwhile\n", "% elif", "linecol"),
    ("namespace-call-without-def-name", "<%a:/>", None, "linecol"),
]]


def hybrid_ast_namespace():
    """real mako.ast classes for code that is concrete (the planted construct), recording stubs for symbolic code
    (directives formed by the symbolic prefix - paths that are not asserted)"""
    def mk(name):
        real = getattr(AST, name)

        def make(code, *a, **kw):
            cc = code.concrete_or_none() if isinstance(code, SymStr) else code
            if isinstance(cc, str):
                return real(cc, *a, **kw)
            return common.StubCode(code, **kw)
        return make
    return types.SimpleNamespace(**{n: mk(n) for n in ("PythonCode", "ArgumentList", "PythonFragment", "FunctionDecl", "FunctionArgs")})


def h_compile(n, fault):
    name, text, off, what = fault

    def h(p):
        PT.ast = hybrid_ast_namespace()
        pre = sym_string(n, "p")
        s = SymStr(pre.items + list(text))
        ref = tokenizer.R(s.items, {}, set())
        e = None
        lx = L.Lexer(s, filename=FILENAME)
        try:
            tree = lx.parse()
        except (EXC.SyntaxException, EXC.CompileException) as ex:
            e, tree = ex, None
        except Exception as ex:
            e, tree = Foreign(ex), None
        plain_prefix = ref[0] in ("dir", "exc") and ref[1] == n
        if e is None and plain_prefix:
            # the code generator runs on the lexer's tree; the text of Text nodes is concretised (positions do not depend on it)
            m = p.witness()

            def fix(nodes):
                for nd in nodes:
                    if type(nd).__name__ == "Text":
                        nd.content = conc(nd.content, m)
                    elif hasattr(nd, "nodes"):
                        fix(nd.nodes)
            fix(tree.nodes)
            try:
                CG.compile(tree, "/t.html", FILENAME, default_filters=["str"], buffer_filters=[], imports=None, future_imports=None,
                           source_encoding=None, generate_magic_comment=False, strict_undefined=False, enable_loop=True,
                           reserved_names=CG.RESERVED_NAMES)
            except (EXC.SyntaxException, EXC.CompileException) as ex:
                e = ex
            except Exception as ex:
                e = Foreign(ex)
        for c in pre.items:
            if values.ch_in(c, OTHER_BOUNDARIES):
                p.tag("other-line-boundary")
        return dict(s=s, n=n, e=e, ref=ref, compile_stage=True)
    return h


def setup():
    global L, PT, EXC, AST, PP, PG, DOMAIN
    if L is not None:
        return
    global CG
    L, PT, EXC, AST, PP, PG, CG = common.mako("lexer", "parsetree", "exceptions", "ast", "pyparser", "pygen", "codegen")
    DOMAIN = common.domain_for([L, PT, PG], reps=2)
    values.set_domain(DOMAIN)


def kernel():
    return [L.Lexer.match_reg, L.Lexer.parse_until_text, L.Lexer.match_tag_end, L.Lexer.match_control_line, L.Lexer.append_node,
            L.Lexer.parse, L.Lexer.match_expression, L.Lexer.match_python_block, PT._TagMeta.__call__, PT.Tag.__init__,
            PT.Tag._parse_attributes, PP.parse, PP._adjust_lineno, AST.PythonCode.__init__, AST.PythonFragment.__init__,
            PG.adjust_whitespace, PT.Code.__init__, PT.Expression.__init__, PT.ControlLine.__init__]


def pos_terms(items, off):
    line = 1
    last = z3.IntVal(-1)
    for k in range(min(off, len(items))):
        c = items[k]
        isnl = (cv(c) == 10) if isinstance(c, SymChar) else z3.BoolVal(c == "\n")
        line = line + z3.If(isnl, 1, 0)
        last = z3.If(isnl, z3.IntVal(k), last)
    return line, off - last


class Foreign:
    """an exception that is not a Mako syntax / compile exception escaped the compiler"""

    def __init__(self, e):
        self.e = e
        self.lineno = self.pos = self.filename = self.source = None


def lex(s):
    lx = L.Lexer(s, filename=FILENAME)
    try:
        lx.parse()
    except (EXC.SyntaxException, EXC.CompileException) as e:
        return e
    except Exception as e:          # engine exceptions are BaseExceptions and pass through
        return Foreign(e)
    return None


# ------------------------------------------------------------------ structural faults after a symbolic prefix
def h_struct(n, fault):
    name, text, off, what = fault

    def h(p):
        PT.ast = common.stub_ast_namespace()     # no Python parsing here: faults are structural
        pre = sym_string(n, "p")
        s = SymStr(pre.items + list(text))
        # reference: where does the first directive / required exception begin?
        ref = tokenizer.R(s.items, {}, set())
        e = lex(s)
        # observer: Python has several notions of "line"; make the paths (and so the replayed witnesses) distinguish
        # prefixes containing a line boundary other than "\n" (FF, VT, FS/GS/RS, NEL, LS, PS, lone CR)
        for c in pre.items:
            if values.ch_in(c, OTHER_BOUNDARIES):
                p.tag("other-line-boundary")
        return dict(s=s, n=n, e=e, ref=ref)
    return h


def on_struct(fault):
    name, text, off, what = fault

    def on(p, r, exc, acc):
        if exc is not None:
            acc.candidate(kind="non-mako-exception", input=None, detail="%s: %s" % (type(exc).__name__, str(exc)[:150]))
            return
        s, n, e, ref = r["s"], r["n"], r["e"], r["ref"]
        m = p.witness()
        w = s.concretize(m)
        # only prefixes that are plain text and do not fuse with the construct are in the claim:
        # the reference tokenizer must place the first directive exactly at the construct
        first = ref[1] if ref[0] in ("dir", "exc") else None
        lead = 1 if text.startswith("\n") else 0    # constructs written as "\n% ..." start their directive after the newline
        if ref[0] == "out" or first is None or first != n + lead and first != n:
            acc.counts["skipped: prefix forms or fuses into a directive"] += 1
            return
        acc.tags["asserted"] += 1
        if e is None:
            acc.vcs += 1
            # (the replay checks the position too: the real compilation goes further than the instrumented one, and may
            # report the fault from a later stage)
            acc.candidate(kind="no-exception-" + name, input=dict(template=w, fault=name, offset=n + off, what=what), detail="faulty construct accepted")
            return
        if isinstance(e, Foreign):
            acc.vcs += 1
            acc.candidate(kind="no-exception-" + name, input=dict(template=w, fault=name, foreign=type(e.e).__name__),
                          detail="%s escapes instead of a Mako syntax / compile exception: %s" % (type(e.e).__name__, str(e.e)[:100]))
            return
        line, col = pos_terms(s.items, n + off)
        acc.vcs += 1
        # 'any': several lines could be blamed (e.g. the % if or the % endif of a control block that straddles a tag);
        # what is asserted is a Mako exception carrying the template's name and source, with a line inside the template
        formula = z3.BoolVal(True) if what == "any" else ((e.lineno == line) if what == "line" else z3.And(e.lineno == line, e.pos == col))
        if isinstance(e.lineno, SymInt) or isinstance(e.pos, SymInt):
            raise core.ProxyLeak("symbolic position in a structural fault")
        st, mod = p.vc(formula)
        if st == "fails":
            w2 = s.concretize(mod)
            acc.candidate(kind="wrong-position-" + name, input=dict(template=w2, fault=name, offset=n + off, what=what),
                          detail="reported (%s,%s)" % (e.lineno, e.pos))
        elif st == "unknown":
            acc.vcs_unknown += 1
        acc.vcs += 1
        if e.filename != FILENAME or not (e.source == s):
            acc.candidate(kind="wrong-filename-or-source", input=dict(template=w, fault=name), detail="filename %r" % (e.filename,))
        mine = (type(e).__name__, e.lineno, e.pos)
        if r.get("compile_stage"):
            real = realproc.call("template_error", w, FILENAME)
        else:
            real = realproc.call("compile_error", w, FILENAME)
        acc.replayed += 1
        if real[:3] != mine:
            raise core.EngineError("engine/real disagreement on %r: real %r mine %r" % (w, real, mine))
        for t in p.tags:
            acc.tags[t] += 1
        # the error page must display the template line the exception names (lines are "\n"-separated, as the lexer counts them),
        # also when the faulty template is compiled while another template is rendering (<%include>)
        for via in ("direct", "include"):
          disp = realproc.call("error_display", w, FILENAME, via)
          if disp is not None:
            ln, shown, idx = disp
            want = w.split("\n")[ln - 1] if 0 < ln <= len(w.split("\n")) else None
            acc.vcs += 1
            if want is not None and not (0 <= idx < len(shown) and shown[idx] == want):
                acc.candidate(kind="error-page-wrong-line", input=dict(template=w, fault=name, via=via),
                              detail="line %d is %r, page shows %r" % (ln, want, shown[idx] if 0 <= idx < len(shown) else None))
        acc.sample(dict(template=w, fault=name, reported=mine))
    return on


# ------------------------------------------------------------------ Python faults: the parser reports a symbolic relative line
BODY = "aa\nbbb\nc"   # three Python lines; the parser stub reports the fault on relative line r of the code it is given

PY_KINDS = {
    # kind: (opening, closing, extra lines the fragment completion puts before the code, r range)
    "block": ("<%", "%>"),
    "module-block": ("<%!", "%>"),
    "expression": ("${", "}"),
    "attribute-expression": ("<%include file=\"${", "}\"/>"),
    "cache-key-expression": ("<%def name=\"d()\" cached=\"True\" cache_key=\"k${", "}\"></%def>"),
}


def h_py(kind, nw, nt, npre):
    op, cl = PY_KINDS[kind]

    def h(p):
        PT.ast = AST       # the real mako.ast (instrumented): PythonCode / PythonFragment offsets are under test
        r_rel = values.new_int("r", 1, 3)
        seen = {}

        def fake_parse(code, filename="<unknown>", mode="exec"):
            if not _has(code, "aa"):
                import ast as _a
                return _a.parse("pass")       # e.g. the (empty) filter list of an expression parses fine
            seen["code"] = code
            e = SyntaxError("invalid syntax")
            e.lineno = r_rel
            raise e

        PP._ast_util = types.SimpleNamespace(parse=fake_parse)
        ws = values.Domain([32, 9, 10])
        pre = sym_string(npre, "pre", ws)
        w = sym_string(nw, "w", ws)
        t = sym_string(nt, "t", ws)
        s = SymStr(pre.items + list(op) + w.items + list(BODY) + t.items + list(cl))
        e = lex(s)
        return dict(s=s, e=e, r=r_rel, start=npre, code_start=npre + len(op) + nw, seen=seen, kind=kind)
    return h


def on_py(p, r, exc, acc):
    if exc is not None:
        acc.candidate(kind="non-mako-exception", input=None, detail="%s: %s" % (type(exc).__name__, str(exc)[:150]))
        return
    s, e = r["s"], r["e"]
    m = p.witness()
    w = s.concretize(m)
    if e is None:
        acc.counts["no python parsed"] += 1
        return
    # the stub was handed `code`; its relative line r is a line of that code.  Where is that line in the template?
    code = r["seen"].get("code")
    if code is None:
        acc.counts["exception before parsing"] += 1
        return
    acc.tags["asserted"] += 1
    # reference: the parsed code's first line is the template line holding the first non-blank character of the Python
    # (leading blank lines are stripped before parsing); line r of it is r-1 lines further down
    first_line, _ = pos_terms(s.items, r["code_start"])
    expected = first_line + (r["r"].e - 1)
    got = e.lineno.e if isinstance(e.lineno, SymInt) else e.lineno
    acc.vcs += 1
    st, mod = p.vc(got == expected)
    if st == "fails":
        rv = mod.eval(r["r"].e, model_completion=True).as_long()
        acc.candidate(kind="wrong-python-line", input=dict(template=s.concretize(mod), kind=r["kind"], python_error_line=rv),
                      detail="reported line %s" % mod.eval(got, model_completion=True) if not isinstance(got, int) else "reported line %s" % got)
    elif st == "unknown":
        acc.vcs_unknown += 1
    acc.sample(dict(template=w, kind=r["kind"], relative_line=str(m.eval(r["r"].e, model_completion=True))))


# ------------------------------------------------------------------ control-line fragments
CTL = {
    "if": ("\n% if ", ":\nx\n% endif\n", 0),
    "for": ("\n% for ", ":\nx\n% endfor\n", 0),
    "elif": ("\n% if a:\n% elif ", ":\n% endif\n", 1),
    "except": ("\n% try:\n% except ", ":\n% endtry\n", 1),
    "else": ("\n% if a:\n% else", ":\n% endif\n", 1),
}


def h_ctl(kw, npre):
    head, tail, extra = CTL[kw]

    def h(p):
        PT.ast = AST
        # PythonFragment looks for the trailing comment with the tokenizer (C code): hand it the concrete text of the line
        if not getattr(AST.PythonFragment, "_sx_strip", False):
            orig_strip = AST.PythonFragment._strip_comment

            def strip(code):
                c = values.lower(code)
                if not isinstance(c, str):
                    raise core.ProxyLeak("tokenizer on a symbolic control line")
                return orig_strip(c)
            AST.PythonFragment._strip_comment = staticmethod(strip)
            AST.PythonFragment._sx_strip = True
        r_rel = values.new_int("r", 1, 2)
        seen = {}

        def fake_parse(code, filename="<unknown>", mode="exec"):
            seen.setdefault("codes", []).append(code)
            # only the fragment under test is faulty; earlier control lines parse fine
            if "BAD" in str(code) if isinstance(code, str) else _has(code, "BAD"):
                e = SyntaxError("invalid syntax")
                e.lineno = r_rel
                raise e
            import ast as _a
            return _a.parse("pass")

        PP._ast_util = types.SimpleNamespace(parse=fake_parse)
        ws = values.Domain([32, 10])
        pre = sym_string(npre, "pre", ws)
        s = SymStr(pre.items + list(head) + list("BAD") + list(tail))
        e = lex(s)
        line_off = npre + len(head) - (len(head) - head.rfind("\n") - 1) if False else None
        # offset of the faulty control line = position of its '%'
        off = npre + head.rfind("%")
        return dict(s=s, e=e, r=r_rel, off=off, kw=kw, extra=extra, seen=seen)
    return h


def _has(code, sub):
    return SymStr(values._items(code)).contains(sub)


def on_ctl(p, r, exc, acc):
    if exc is not None:
        acc.candidate(kind="non-mako-exception", input=None, detail="%s: %s" % (type(exc).__name__, str(exc)[:150]))
        return
    s, e = r["s"], r["e"]
    m = p.witness()
    if e is None:
        acc.counts["no error"] += 1
        return
    acc.tags["asserted"] += 1
    line, _ = pos_terms(s.items, r["off"])
    # the fragment is completed by `extra` synthetic lines placed before it: parser line r is template line  line + r - 1 - extra
    expected = line + (r["r"].e - 1 - r["extra"])
    got = e.lineno.e if isinstance(e.lineno, SymInt) else e.lineno
    acc.vcs += 1
    # only parser lines that exist in the template are meaningful: r > extra
    st, mod = p.vc(z3.Implies(r["r"].e > r["extra"], got == expected))
    if st == "fails":
        acc.candidate(kind="wrong-control-line", input=dict(template=s.concretize(mod), keyword=r["kw"],
                                                            parser_line=mod.eval(r["r"].e, model_completion=True).as_long()),
                      detail="reported %s" % (mod.eval(got, model_completion=True) if not isinstance(got, int) else got))
    acc.sample(dict(template=s.concretize(m), keyword=r["kw"]))


def make_replay(c):
    i = c["input"] or {"template": ""}
    body = '''
from mako.template import Template
from mako.lookup import TemplateLookup
from mako import exceptions
CASE = %r
KIND = %r
T = CASE["template"]
print("template:", repr(T))
def expected_linecol(off):
    line = 1 + T.count("\\n", 0, off); col = off - T.rfind("\\n", 0, off)
    return line, col
bad = None
if KIND == "error-page-wrong-line":
    sys.path.insert(0, "/verif")
    from props.realops import error_display
    ln, shown, idx = error_display(T, "/templates/page.html", CASE.get("via", "direct"))
    want = T.split("\\n")[ln - 1]
    got = shown[idx] if 0 <= idx < len(shown) else None
    print("exception names line", ln, "=", repr(want), "; html_error_template shows", repr(got))
    if got != want: bad = "error page displays a different line than exception.lineno names"
elif KIND == "wrong-filename-or-source" or KIND.startswith("no-exception") or KIND.startswith("wrong-position"):
    results = []
    for how in ("string", "lookup"):
        try:
            if how == "string": Template(T, filename="/templates/page.html")
            else:
                lk = TemplateLookup(); lk.put_string("/templates/page.html", T)
            results.append((how, None))
        except (exceptions.SyntaxException, exceptions.CompileException) as e:
            results.append((how, (e.lineno, e.pos, e.filename, e.source == T)))
        except Exception as e:
            results.append((how, "other: %%s" %% type(e).__name__))
    print("results:", results)
    r0 = results[0][1]
    if r0 is None: bad = "faulty template compiled without error"
    elif isinstance(r0, str): bad = "raised " + r0
    elif "offset" in CASE and CASE.get("what") != "any":
        line, col = expected_linecol(CASE["offset"])
        if r0[0] != line or (CASE["what"] == "linecol" and r0[1] != col): bad = "reported (%%s,%%s), construct begins at (%%s,%%s)" %% (r0[0], r0[1], line, col)
    if not bad and r0 and not isinstance(r0, str) and (r0[2] != "/templates/page.html" or not r0[3]): bad = "filename/source not carried"
else:
    # plant a real Python syntax error on the given line of the embedded code and compare the reported template line
    k = CASE.get("python_error_line") or CASE.get("parser_line")
    if KIND == "wrong-python-line":
        lines = ["aa", "bbb", "c"]
        lines[k - 1] = "1 +* 2"
        T2 = T.replace("aa\\nbbb\\nc", "\\n".join(lines))
        off = T2.index("1 +* 2")
    else:
        T2 = T.replace("BAD", "1 +* 2")
        off = T2.index("1 +* 2")
    want = 1 + T2.count("\\n", 0, off)
    print("real template:", repr(T2), "syntax error planted on template line", want)
    try:
        Template(T2); bad = "compiled"
    except (exceptions.SyntaxException, exceptions.CompileException) as e:
        print("reported line", e.lineno)
        if e.lineno != want: bad = "reported line %%s, offending Python line is template line %%s" %% (e.lineno, want)
print("VIOLATED: " + bad if bad else "HOLDS")
sys.exit(1 if bad else 0)
''' % (i, c["kind"])
    return (c["kind"], body, (c["kind"], repr(sorted(i.items()))))


def classify(c):
    if (c.get("input") or {}).get("fault") in ("unclosed-tag", "unclosed-nested-tag") and c["kind"].startswith("wrong-position"):
        return "C11-unclosed-tag-reported-at-end-of-template"
    return None


def run(check, tier):
    setup()
    check.encode(*kernel())
    check.assume(
        "structural faults: a symbolic prefix (every string up to the bound over the lexer's character abstraction, %d representatives) is "
        "followed by a concrete faulty construct; only prefixes that the reference tokenizer classifies as plain text not fusing with the "
        "construct are asserted (the others are counted as skipped)" % len(DOMAIN.cps),
        "Python faults: mako._ast_util.parse is replaced by a stub that raises SyntaxError on a SYMBOLIC relative line of the code it is "
        "handed (its contract); the real PythonCode / PythonFragment / pyparser.parse / adjust_whitespace offset arithmetic runs on it",
        "compile-stage faults (raised by node constructors parsing real Python, or by the code generator: misplaced / duplicate / anonymous "
        "blocks, bad def / page / block signatures, filter lists, attribute and call expressions): the same symbolic prefix; the planted "
        "construct's Python is parsed for real, the real code generator runs on the lexer's tree with Text contents concretised",
        "the position of 'Unclosed tag' raised at end of input is not asserted (pinned by test_lexer.test_unclosed_tag)",
        "column of a control line: only the line is asserted (the statement does not fix whether the column is that of '%' or of the line start)")
    check.not_claimed("RichTraceback / error template rendering of the line (C12 covers the mapping arithmetic)",
                      "attribute expressions on later lines of a multi-line tag")
    Lp = {"quick": 2, "thorough": 4}[tier]
    jobs = []
    for f in STRUCT_FAULTS:
        for n in range(0, Lp + 1):
            jobs.append(("C11-s-%s-%d" % (f[0], n), h_struct(n, f), on_struct(f), "structural fault %s after %d symbolic characters" % (f[0], n),
                         dict(prefix_chars=n, construct=f[1]), ("asserted",) if n == 0 else ()))
    for f in COMPILE_FAULTS:
        for n in range(0, {"quick": 1, "thorough": 3}[tier] + 1):
            jobs.append(("C11-c-%s-%d" % (f[0], n), h_compile(n, f), on_struct(f), "compile-stage fault %s after %d symbolic characters" % (f[0], n),
                         dict(prefix_chars=n, construct=f[1]), ("asserted",) if n == 0 else ()))
    W = {"quick": 2, "thorough": 3}[tier]
    for kind in PY_KINDS:
        for nw in range(0, W + 1):
            for nt in range(0, W + 1):
                jobs.append(("C11-py-%s-%d-%d" % (kind, nw, nt), h_py(kind, nw, nt, 1 if tier == "quick" else 2), on_py,
                             "python fault in %s: %d leading / %d trailing symbolic blanks+newlines, symbolic error line" % (kind, nw, nt),
                             dict(kind=kind, leading=nw, trailing=nt, error_line="symbolic 1..3"), ("asserted",)))
    for kw in CTL:
        jobs.append(("C11-ctl-" + kw, h_ctl(kw, 2), on_ctl, "python fault in control line '%s'" % kw, dict(keyword=kw), ("asserted",)))
    import os
    if os.environ.get("C11_ONLY"):          # development aid
        jobs = [j for j in jobs if j[0].startswith(os.environ["C11_ONLY"])]
    for j in jobs:
        driver.register(j[0], j[1], j[2])
    cands = []
    for name, _h, _o, title, bounds, req in jobs:
        st, acc = driver.explore(name, time_limit=900)
        check.section(title, st, acc, bounds, tags_required=req)
        cands.extend(acc.candidates)
    check.confirm(cands, make_replay, classify)
    driver.close_pool()
    realproc.shutdown()
