"""C06 - inheritance chains dispatch self/next/parent correctly; blocks render once."""
import z3

from symx import core, values, driver
from . import common

LK = RT = None
LEVEL = "exploration"


def setup():
    global LK, RT
    if LK is not None:
        return
    LK, RT = common.mako("lookup", "runtime")


def kernel():
    return [RT._populate_self_namespace, RT._inherit_from, RT._render_context, RT.TemplateNamespace.__getattr__, RT.Namespace.__getattr__,
            RT._NSAttr.__getattr__, RT._exec_template]


def level_source(j, n, f):
    """template text of level j (0 = most derived, n-1 = base-most) under flags f"""
    out = []
    if j < n - 1:
        if f["inherit"] == "static":
            out.append('<%%inherit file="t%d"/>' % (j + 1))
        else:
            out.append('<%%inherit file="${context[\'dyn%d\']}"/>' % j)
    if f["attr"] == "value":
        out.append("<%%! a = 'A%d' %%>" % j)
    elif f["attr"] == "none":
        out.append("<%! a = None %>")
    if f["def"]:
        out.append('<%%def name="d()">D%d</%%def>' % j)
    if j == 0:
        # a def of the most-derived template rendered on its own (get_def(name).render()) sees the same self / local / parent
        out.append('<%def name="p()">P(self.d=${safe(lambda: self.d())} local.d=${safe(lambda: local.d())}'
                   + (" parent.d=${safe(lambda: parent.d())}" if n > 1 else "") + ")</%def>")
    probes = ["self.d=${safe(lambda: self.d())}", "local.d=${safe(lambda: local.d())}", "self.a=${safe(lambda: self.attr.a)}"]
    if j < n - 1:
        probes.append("parent.d=${safe(lambda: parent.d())}")
    if j > 0:
        probes.append("next.d=${safe(lambda: next.d())}")
    body = "L%d(" % j + " ".join(probes)
    if f["block"]:
        body += ' <%d[<%%block name="b">B%d</%%block>]%d>' % (j, j, j)
    if j > 0:
        body += " ${next.body()}"
    body += ")"
    out.append(body)
    text = "\n".join(out)
    if f.get("names") == "namespace-attributes":
        # the def and the block are called like attributes of the Namespace class
        text = text.replace('name="d()"', 'name="uri()"').replace(".d()", ".uri()").replace('name="b"', 'name="filename"')
    return text


def reference(n, flags):
    """the statement, written directly"""
    # a dynamic inherit target evaluating to None ends the chain there
    eff = n
    for j in range(n - 1):
        if flags[j]["inherit"] == "dynamic-none":
            eff = j + 1
            break
    F = flags[:eff]

    def nearest(k0, key, val=None):
        for k in range(k0, eff):
            if key == "attr":
                if F[k]["attr"] != "absent":
                    return "A%d" % k if F[k]["attr"] == "value" else "None"
            elif F[k][key]:
                return ("D%d" if key == "def" else "B%d") % k
        return "MISSING"

    def body(j):
        probes = ["self.d=" + nearest(0, "def"), "local.d=" + nearest(j, "def"), "self.a=" + nearest(0, "attr")]
        if j < n - 1:
            # the level was written with an <%inherit>; if the chain was cut right here, `parent` is not set
            probes.append("parent.d=" + (nearest(j + 1, "def") if j < eff - 1 else "MISSING"))
        if j > 0:
            probes.append("next.d=" + nearest(j - 1, "def"))
        s = "L%d(" % j + " ".join(probes)
        if F[j]["block"]:
            inner = ""
            if not any(F[k]["block"] for k in range(j + 1, eff)):
                inner = nearest(0, "block")
            s += " <%d[%s]%d>" % (j, inner, j)
        if j > 0:
            s += " " + body(j - 1)
        return s + ")"

    if flags and flags[0].get("_def_probe"):
        return "P(self.d=" + nearest(0, "def") + " local.d=" + nearest(0, "def") + ((" parent.d=" + (nearest(1, "def") if eff > 1 else "MISSING")) if n > 1 else "") + ")"
    return body(eff - 1)


INH = ["static", "dynamic", "dynamic-none"]
ATTR = ["absent", "value", "none"]


def h_chain(n, full):
    def h(p):
        flags = []
        for j in range(n):
            inh = "static"
            if j < n - 1:
                inh = INH[p.choose(3 if (full or n <= 3) else 2, "inherit%d" % j)]
            flags.append(dict(inherit=inh, attr=ATTR[p.choose(3 if full else 2, "attr%d" % j)], **{"def": bool(p.choose(2, "def%d" % j)),
                                                                                                   "block": bool(p.choose(2, "block%d" % j))}))
        if n <= 2 and p.choose(2, "names_like_namespace_attributes"):
            for fl in flags:
                fl["names"] = "namespace-attributes"
        lk = LK.TemplateLookup()
        for j in range(n):
            lk.put_string("t%d" % j, level_source(j, n, flags[j]))

        def safe(fn):
            try:
                return fn()
            except AttributeError:
                return "MISSING"

        data = {"safe": safe}
        for j in range(n - 1):
            data["dyn%d" % j] = None if flags[j]["inherit"] == "dynamic-none" else "t%d" % (j + 1)
        out = exc = None
        try:
            t = lk.get_template("t0")

            def has(name):
                return True
            data["has"] = lambda name: True
            out = t.render(**data)
        except Exception as e:
            exc = e
        try:
            pout = lk.get_template("t0").get_def("p").render(**data)
        except Exception as e:
            pout = "raised %s: %s" % (type(e).__name__, e)
        return dict(n=n, flags=flags, out=out, exc=exc, pout=pout)
    return h


def on_chain(p, r, exc, acc):
    if exc is not None:
        acc.candidate(kind="harness-exception", input=None, detail="%s: %s" % (type(exc).__name__, str(exc)[:200]))
        return
    acc.tags["ran"] += 1
    want = reference(r["n"], r["flags"])
    desc = dict(levels=r["n"], flags=r["flags"])
    acc.vcs += 1
    got = None if r["out"] is None else " ".join(r["out"].split())
    if got is not None and "unset" in want:
        # `parent` is not defined in a template whose dynamic inherit target was None: referencing it yields UNDEFINED/NameError;
        # the probe prints 'unset' through has(): normalise
        pass
    if r["exc"] is not None or got != want:
        acc.candidate(kind="inheritance-dispatch", input=desc, detail="rendered %r (exception %r), documented %r" % (got, r["exc"], want))
    else:
        pflags = [dict(r["flags"][0], _def_probe=True)] + r["flags"][1:]
        pwant = reference(r["n"], pflags)
        acc.vcs += 1
        if r.get("pout") != pwant:
            acc.candidate(kind="inheritance-dispatch", input=dict(levels=r["n"], flags=pflags), detail="get_def('p').render() gave %r, documented %r" % (r.get("pout"), pwant))
    acc.sample(dict(desc, output=got))


# ------------------------------------------------------------------ where a named block may stand (compile-time rejections)
WRAP = {
    "anonymous-block": "<%block>{}</%block>",
    "filtered-anonymous-block": '<%block filter="up">{}</%block>',
    "named-block": '<%block name="outer{i}">{}</%block>',
    "def": '<%def name="d{i}()">{}</%def>',
    "call": '<%call expr="w()">{}</%call>',
    "namespace-call": "<%self:w>{}</%self:w>",
    "if": "\n% if True:\n{}\n% endif\n",
    "for": "\n% for i in (1,):\n{}\n% endfor\n",
}
PRELUDE = '<%def name="w()">${caller.body()}</%def><%! up = lambda s: s.upper() %>'


def placement_source(wrappers, duplicate):
    text = '<%block name="b">TARGET</%block>'
    for i, w in reversed(list(enumerate(wrappers))):
        text = WRAP[w].replace("{i}", str(i)).replace("{}", text)
    if duplicate == "sibling":
        text += '<%block name="b">SECOND</%block>'
    elif duplicate == "def-of-that-name":
        text += '<%def name="b()">SECOND</%def>'
    elif duplicate == "inside-another-block":
        text += '<%block name="other"><%block name="b">SECOND</%block></%block>'
    return PRELUDE + text


def placement_expected(wrappers, duplicate):
    inside = False
    for w in wrappers:
        if w == "named-block" and inside:
            return "rejected"
        if w in ("def", "call", "namespace-call"):
            inside = True
    if inside or duplicate != "none":
        return "rejected"
    return "accepted"


def placement_case(TPm, EXCm, wrappers, duplicate):
    try:
        t = TPm.Template(placement_source(wrappers, duplicate))
    except EXCm.CompileException as e:
        return "rejected"
    except Exception as e:
        return "raised %s: %s" % (type(e).__name__, e)
    try:
        out = t.render()
    except Exception as e:
        return "accepted, but rendering raised %s: %s" % (type(e).__name__, e)
    return "accepted" if out.upper().count("TARGET") == 1 else "accepted, block text appears %d times" % out.upper().count("TARGET")


def h_placement(depth):
    names = list(WRAP)

    def h(p):
        TPm, EXCm = common.mako("template", "exceptions")
        n = p.choose(depth + 1, "nesting_depth")
        wrappers = [names[p.choose(len(names), "wrapper%d" % i)] for i in range(n)]
        dup = ["none", "sibling", "def-of-that-name", "inside-another-block"][p.choose(4, "duplicate")]
        return dict(wrappers=wrappers, duplicate=dup, got=placement_case(TPm, EXCm, wrappers, dup))
    return h


def on_placement(p, r, exc, acc):
    if exc is not None:
        acc.candidate(kind="harness-exception", input=None, detail="%s: %s" % (type(exc).__name__, str(exc)[:200]))
        return
    acc.tags["ran"] += 1
    acc.vcs += 1
    want = placement_expected(r["wrappers"], r["duplicate"])
    acc.counts[want] += 1
    if r["got"] == want:
        acc.good("block-placement", dict(wrappers=r["wrappers"], duplicate=r["duplicate"]))
    if r["got"] != want:
        acc.candidate(kind="block-placement", input=dict(wrappers=r["wrappers"], duplicate=r["duplicate"]), detail="%s, documented: %s" % (r["got"], want))
    if len(acc.samples) < 8:
        acc.sample(dict(wrappers=r["wrappers"], duplicate=r["duplicate"], outcome=r["got"]))


# ------------------------------------------------------------------ an included template is a chain of its own; body() arguments
def extras_sources(f):
    inc = "I[" + ('<%block name="b">IB</%block>' if f["included_declares_b"] else "-") + " parent=${'set' if context.get('parent') else 'unset'}]"
    # <%page> signatures that take their own ** argument (then no `pageargs` exists in that body)
    star = f.get("page_double_star")
    base = ('<%page args="**bkw"/>' if star else "") + "BASE(" + ('<%block name="b">B1</%block>' if f["base_declares_b"] else "-") + " " + \
        ("${next.body(x='bx')}" if f["body_argument"] else "${next.body()}") + (' <%include file="inc"/>' if f["include_in"] == "base" else "") + ")"
    derived = '<%inherit file="base"/><%page args="x=\'dx\'' + (", **dkw" if star else "") + '"/>' + (('<%block name="b"' + (' buffered="True"' if f.get("override_is_buffered") else "") + '>B0</%block>') if f["derived_overrides_b"] else "") + \
        "D(x=${x}" + (' <%include file="inc"/>' if f["include_in"] == "derived" else "") + ")"
    return {"inc": inc, "base": base, "derived": derived}


def extras_reference(f):
    # the derived body is CALLED by the base (next.body(...)): its <%page> arguments are what the call gives, else their defaults;
    # a context variable of the same name does not bind them (only the top-level render callable is fed from the context)
    x = "bx" if f["body_argument"] else "dx"
    inc = "I[" + ("IB" if f["included_declares_b"] else "-") + " parent=unset]"
    b = "-"
    if f["base_declares_b"]:
        b = "B0" if f["derived_overrides_b"] else "B1"
    # a block that only the derived template declares renders at its position in the derived body (it is the base-most declaring it)
    dblock = "B0" if (f["derived_overrides_b"] and not f["base_declares_b"]) else ""
    return "BASE(%s %sD(x=%s%s)%s)" % (b, dblock, x, (" " + inc) if f["include_in"] == "derived" else "", (" " + inc) if f["include_in"] == "base" else "")


def extras_case(LKm, f):
    lk = LKm.TemplateLookup()
    for k, v in extras_sources(f).items():
        lk.put_string(k, v)
    data = {"x": "cx"} if f["x_in_context"] else {}
    try:
        return " ".join(lk.get_template("derived").render(**data).split())
    except Exception as e:
        return "raised %s: %s" % (type(e).__name__, e)


def h_extras(p):
    f = {k: bool(p.choose(2, k)) for k in ("included_declares_b", "base_declares_b", "derived_overrides_b", "body_argument", "x_in_context", "override_is_buffered", "page_double_star")}
    f["include_in"] = ["derived", "base"][p.choose(2, "include_in")]
    return dict(f=f, got=extras_case(LK, f))


def on_extras(p, r, exc, acc):
    if exc is not None:
        acc.candidate(kind="harness-exception", input=None, detail="%s: %s" % (type(exc).__name__, str(exc)[:200]))
        return
    acc.tags["ran"] += 1
    acc.vcs += 1
    want = " ".join(extras_reference(r["f"]).split())
    if r["got"] == want:
        acc.good("include-or-body-arguments-in-chain", dict(extras=r["f"]))
    if r["got"] != want:
        acc.candidate(kind="include-or-body-arguments-in-chain", input=dict(extras=r["f"]), detail="rendered %r, documented %r" % (r["got"], want))
    acc.sample(dict(flags=r["f"], output=r["got"]))


# ------------------------------------------------------------------ inheritance through an expression: mako.ext.autohandler
ORDERS = [[0], [1], [2], [0, 1], [1, 0], [1, 2], [2, 1], [0, 2], [2, 0], [2, 1, 0], [1, 2, 1]]


def h_auto(p):
    cfg = dict(autohandlers=[bool(p.choose(2, "autohandler_in_level_%d" % k)) for k in range(3)],
               order=ORDERS[p.choose(len(ORDERS), "request_order")], filesystem_checks=bool(p.choose(2, "filesystem_checks")))
    return dict(cfg=cfg)


def on_auto(p, r, exc, acc):
    if exc is not None:
        acc.candidate(kind="harness-exception", input=None, detail=repr(exc)[:200])
        return
    from symx import realproc
    res = realproc.call("autohandler_case", r["cfg"])
    acc.replayed += 1
    acc.tags["ran"] += 1
    bad = [x for x in res if x[1] != x[2]]
    acc.vcs += len(res)
    if bad:
        acc.candidate(kind="autohandler-chain", input=dict(autohandler=r["cfg"]), detail="%s rendered %r, the chain of autohandlers gives %r" % tuple(bad[0]))
    elif len(res) > 1 and any(r["cfg"]["autohandlers"]):
        acc.good("autohandler-chain", dict(autohandler=r["cfg"]))
    acc.sample(dict(r["cfg"], outputs=[x[1] for x in res]))



# ------------------------------------------------------------------ `local` inside a def written in an inline <%namespace> tag
def localns_sources(levels, where):
    src = {}
    for j in range(levels):
        t = ""
        if j < levels - 1:
            t += '<%%inherit file="/d%d/t%d"/>' % (j + 1, j + 1)
        if j == where:
            t += '<%namespace name="ns"><%def name="d()">${local.uri}</%def></%namespace>'
        t += "L%d(" % j + ("ns.d=${ns.d()} " if j == where else "") + "local=${local.uri}" + (" ${next.body()}" if j > 0 else "") + ")"
        src["/d%d/t%d" % (j, j)] = t
    return src


def localns_expected(levels, where):
    out = ""
    for j in range(levels):
        out = "L%d(" % j + ("ns.d=/d%d/t%d " % (j, j) if j == where else "") + "local=/d%d/t%d" % (j, j) + ((" " + out) if j > 0 else "") + ")"
    return out


def localns_run(LKm, levels, where):
    lk = LKm.TemplateLookup()
    for k, v in localns_sources(levels, where).items():
        lk.put_string(k, v)
    try:
        return lk.get_template("/d0/t0").render()
    except Exception as e:
        return "raised %s: %s" % (type(e).__name__, str(e)[:80])


def h_localns(p):
    levels = 1 + p.choose(3, "chain_length")
    where = p.choose(levels, "template_with_the_inline_namespace")
    return dict(levels=levels, where=where, got=localns_run(LK, levels, where))


def on_localns(p, r, exc, acc):
    if exc is not None:
        acc.candidate(kind="harness-exception", input=None, detail="%s: %s" % (type(exc).__name__, str(exc)[:200]))
        return
    acc.tags["ran"] += 1
    acc.vcs += 1
    want = localns_expected(r["levels"], r["where"])
    if r["got"] != want:
        acc.candidate(kind="local-in-inline-namespace", input=dict(localns=dict(levels=r["levels"], where=r["where"])), detail="rendered %r, `local` is the template itself: %r" % (r["got"], want))
    else:
        acc.good("local-in-inline-namespace", dict(localns=dict(levels=r["levels"], where=r["where"])))
    acc.sample(dict(levels=r["levels"], where=r["where"], output=r["got"]))



def make_replay(c):
    i = c["input"] or {}
    if "localns" in i:
        body = """
sys.path.insert(0, "/verif")
CASE = __CASE__
import mako.lookup as LK
from props import C06
lv, wh = CASE["localns"]["levels"], CASE["localns"]["where"]
for k, v in C06.localns_sources(lv, wh).items(): print("---", k); print(v)
got, want = C06.localns_run(LK, lv, wh), C06.localns_expected(lv, wh)
print("rendered  :", got); print("documented:", want)
bad = None if got == want else "`local` inside a def of an inline <%namespace> is not the template the def is written in"
print("VIOLATED: " + bad if bad else "HOLDS")
sys.exit(1 if bad else 0)
""".replace("__CASE__", repr(i))
        return (c["kind"], body, repr(sorted(i["localns"].items())))
    if "autohandler" in i:
        body = """
sys.path.insert(0, "/verif")
CASE = __CASE__
from props.realops import autohandler_case
print("autohandler files in /, /a, /a/b:", CASE["autohandler"]["autohandlers"], " filesystem_checks:", CASE["autohandler"]["filesystem_checks"])
bad = None
for uri, got, want in autohandler_case(CASE["autohandler"]):
    print(uri, "->", got, "  expected", want)
    if got != want: bad = "a page does not inherit from the chain of autohandlers above it"
print("VIOLATED: " + bad if bad else "HOLDS")
sys.exit(1 if bad else 0)
""".replace("__CASE__", repr(i))
        return (c["kind"], body, repr(sorted(i["autohandler"].items(), key=str)))
    if "wrappers" in i or "extras" in i:
        body = """
sys.path.insert(0, "/verif")
CASE = __CASE__
import mako.template as TP, mako.exceptions as EXC, mako.lookup as LK
from props import C06
if "wrappers" in CASE:
    print(C06.placement_source(CASE["wrappers"], CASE["duplicate"]))
    got, want = C06.placement_case(TP, EXC, CASE["wrappers"], CASE["duplicate"]), C06.placement_expected(CASE["wrappers"], CASE["duplicate"])
    why = "a named block inside a def / call, or a second block of the same name, must be rejected at compile time (and only those)"
else:
    for k, v in C06.extras_sources(CASE["extras"]).items(): print("---", k); print(v)
    got, want = C06.extras_case(LK, CASE["extras"]), " ".join(C06.extras_reference(CASE["extras"]).split())
    why = "an included template is a chain of its own / body() arguments reach the <%page> signature"
print("got     :", got); print("expected:", want)
bad = None if got == want else why
print("VIOLATED: " + bad if bad else "HOLDS")
sys.exit(1 if bad else 0)
""".replace("__CASE__", repr(i))
        return (c["kind"], body, repr(sorted(i.items(), key=str)))
    body = """
sys.path.insert(0, "/verif")
CASE = __CASE__
from mako.lookup import TemplateLookup
from props.C06 import level_source, reference
n, flags = CASE["levels"], CASE["flags"]
lk = TemplateLookup()
for j in range(n):
    src = level_source(j, n, flags[j]); lk.put_string("t%d" % j, src); print("--- t%d\\\\n%s" % (j, src))
def safe(fn):
    try: return fn()
    except AttributeError: return "MISSING"
data = {"safe": safe, "has": lambda name: True}
for j in range(n - 1):
    data["dyn%d" % j] = None if flags[j]["inherit"] == "dynamic-none" else "t%d" % (j + 1)
want = reference(n, flags)
try:
    if flags[0].get("_def_probe"):
        got = " ".join(lk.get_template("t0").get_def("p").render(**data).split())
    else:
        got = " ".join(lk.get_template("t0").render(**data).split())
except Exception as e:
    got = "raised %s: %s" % (type(e).__name__, e)
print("rendered  :", got); print("documented:", want)
bad = None if got == want else "self/next/parent/local dispatch or block placement differs from the documented rules"
print("VIOLATED: " + bad if bad else "HOLDS")
sys.exit(1 if bad else 0)
""".replace("__CASE__", repr(i))
    return (c["kind"], body, repr(i))


def classify(c):
    i = c.get("input") or {}
    if "localns" in i:
        return "C06-local-in-inline-namespace-of-an-inherited-template"
    if any(isinstance(fl, dict) and fl.get("names") == "namespace-attributes" for fl in (i.get("flags") or [])):
        return "C06-member-named-like-namespace-attribute"
    return None


def run(check, tier):
    setup()
    check.encode(*kernel())
    check.assume(
        "chains of n templates built through a real TemplateLookup (for n <= 2 the def and the block may also be called like attributes of the Namespace class: uri, filename); per level the flags 'defines def d', 'declares named block b', module attribute "
        "a (absent / a value / None) and the kind of <%inherit> (static / expression / expression evaluating to None) are solver-chosen; "
        "each template's body prints self.d, local.d, parent.d, next.d and self.attr.a (missing members print MISSING), the block at a "
        "marked position, and chains with next.body(); the expected text is computed from the statement's rules",
        "`next` in the most-derived template and `parent` in the base-most are not set by Mako and are not probed",
        "inheritance through an expression is also exercised with mako.ext.autohandler (real files, real child process): autohandler files in any "
        "subset of /, /a, /a/b (each inheriting through autohandler() itself), pages requested in solver-chosen orders through one lookup, "
        "filesystem_checks on / off (off = the function memoises in lookup._uri_cache)",
        "outputs are concrete per flag combination; the explorer exhausts all combinations within the bound")
    check.assume("placement: a named block under up to %d nested wrappers chosen from %r, optionally with a second declaration of its name "
                 "(sibling block, def of that name, block inside another block): compiled by the real Template; rejected exactly when a def / "
                 "<%%call> / <%%ns:def> stands above a named block or the name is declared twice, otherwise it renders its text once"
                 % ({"quick": 2, "thorough": 3}[tier], list(WRAP)),
                 "an <%include> inside a chain (in the derived or the base body) of a template that declares a block of the same name as the "
                 "chain's, and next.body(x=..) against the derived <%page args>: expected text from the statement")
    check.not_claimed("named blocks nested in named blocks across inheritance levels")
    jobs = []
    for n in range(1, {"quick": 3, "thorough": 4}[tier] + 1):
        full = n <= 2 or (tier == "thorough" and n <= 3)
        jobs.append(("C06-%d" % n, h_chain(n, full), on_chain, "chains of %d templates, %s flag set" % (n, "full" if full else "reduced"),
                     dict(levels=n, flags="def, block, attr(%d), inherit(%d)" % ((3, 3) if full else (2, 2))), ("ran",)))
    D = {"quick": 2, "thorough": 3}[tier]
    jobs.append(("C06-placement", h_placement(D), on_placement, "named block under up to %d wrappers, with and without a duplicate declaration" % D,
                 dict(depth=D, wrappers=list(WRAP)), ("ran",)))
    jobs.append(("C06-autohandler", h_auto, on_auto, "inheritance through an expression: mako.ext.autohandler over three directory levels, request orders, "
                 "filesystem_checks on / off", dict(levels=3, orders=len(ORDERS)), ("ran",)))
    jobs.append(("C06-localns", h_localns, on_localns, "`local` inside a def written in an inline <%namespace> tag of any template of a chain of 1-3",
                 dict(chain=3), ("ran",)))
    jobs.append(("C06-extras", h_extras, on_extras, "include inside an inheritance chain; body() arguments", dict(flags=7), ("ran",)))
    for j in jobs:
        driver.register(j[0], j[1], j[2])
    cands = []
    goods = []
    for name, _h, _o, title, bounds, req in jobs:
        st, acc = driver.explore(name, time_limit=1500)
        check.section(title, st, acc, bounds, tags_required=req)
        cands.extend(acc.candidates)
        goods.extend(acc.goods)
    check.confirm(cands, make_replay, classify, max_confirm=12, goods=goods)
    driver.close_pool()
