"""C04 - names resolve through scopes, module, imports, context, builtins, UNDEFINED."""
import builtins as _b
import z3

from symx import core, values, driver
from symx.values import SymInt
from . import common

RT = LK = TP = EXC = None
LEVEL = "exploration"


def setup():
    global RT, LK, TP, EXC
    if RT is not None:
        return
    from symx import loader
    loader.ORDER_SETS = True      # the iteration order of mako's own sets (PYTHONHASHSEED) is a harness choice in the scope harness
    RT, LK, TP, EXC = common.mako("runtime", "lookup", "template", "exceptions")


def kernel():
    C = RT.Context
    return [C.__init__, C.get, C.__getitem__, C.kwargs.fget, C._copy, C._locals, C._clean_inheritance_tokens, C._set_with_template,
            RT.Undefined.__str__, TP.Template.reserved_names.fget if hasattr(TP.Template.reserved_names, "fget") else TP.Template.render]


# ------------------------------------------------------------------ run-time half: the Context object
def h_context(p):
    names = ["data_name", "len", "absent_name"]
    present = {n: bool(p.choose(2, "in_data_" + n)) for n in names}
    vals = {n: values.new_int("val_" + n) for n in names}
    data = {n: vals[n] for n in names if present[n]}
    from symx import loader
    buf = []
    ctx = RT.Context(type("B", (), {"write": buf.append})(), **data)
    res = {}
    for n in names:
        res[n] = dict(get=ctx.get(n, "DEFAULT"))
        try:
            res[n]["item"] = ctx[n]
        except KeyError:
            res[n]["item"] = KeyError
    kw1 = ctx.kwargs
    kw1["injected"] = 1                      # mutating the returned dict must not change what kwargs returns later
    kw2 = ctx.kwargs
    child = ctx._locals({"data_name": "child-value", "new_name": 5})
    child._data["leak"] = 1
    copy = ctx._copy()
    copy._data["data_name"] = "copy-value"
    clean = ctx._clean_inheritance_tokens()
    return dict(present=present, vals=vals, res=res, kw1=kw1, kw2=kw2, ctx=ctx, child=child, data=data, clean=clean)


def on_context(p, r, exc, acc):
    if exc is not None:
        acc.candidate(kind="harness-exception", input=None, detail="%s: %s" % (type(exc).__name__, str(exc)[:200]))
        return
    acc.tags["asserted"] += 1
    desc = dict(in_render_args=r["present"])
    for n, present in r["present"].items():
        got = r["res"][n]
        acc.vcs += 2
        if present:
            ok = got["get"] is r["vals"][n] and got["item"] is r["vals"][n]
        elif hasattr(_b, n):
            ok = got["get"] is getattr(_b, n) and got["item"] is getattr(_b, n)
        else:
            ok = got["get"] == "DEFAULT" and got["item"] is KeyError
        if not ok:
            acc.candidate(kind="context-lookup-order", input=dict(desc, name=n), detail="get -> %r, [] -> %r" % (got["get"], got["item"]))
    acc.vcs += 3
    expect_kw = {n: r["vals"][n] for n in r["present"] if r["present"][n]}
    if set(r["kw2"]) != set(expect_kw) or any(r["kw2"][k] is not expect_kw[k] for k in expect_kw):
        acc.candidate(kind="context-kwargs", input=desc, detail="kwargs returned keys %r, render arguments were %r" % (sorted(r["kw2"]), sorted(expect_kw)))
    ctx = r["ctx"]
    if "leak" in ctx._data or "new_name" in ctx._data or (r["present"]["data_name"] and ctx._data["data_name"] is not r["vals"]["data_name"]):
        acc.candidate(kind="context-altered-through-child", input=desc, detail="parent data keys %r" % sorted(ctx._data))
    if "leak" in ctx.kwargs or "new_name" in ctx.kwargs:
        acc.candidate(kind="context-kwargs", input=desc, detail="child writes visible in kwargs")
    acc.sample(desc)


# ------------------------------------------------------------------ compile-time half: binding site x read site over real templates
SITES = ["body", "def", "nested-def", "block", "call-body", "control-line", "loop-target", "tag-attribute", "filter-argument", "nested-def-default", "namespace-def"]


def source(f):
    n = f["name"]
    read = "[${val(%s)}]" % n
    out = []
    if f["imported"]:
        out.append('<%%namespace file="lib_%s" import="%s"/>' % (n, n))
    if f["module_level"]:
        out.append("<%%! %s = 'mod' %%>" % n)
    if f.get("page_arg"):
        out.append("<%%page args=\"%s='page'\"/>" % n)
    if f["body_assign"]:
        out.append("<%% %s = 'body' %%>" % n)
    site = f["site"]
    if site == "body":
        out.append(read)
    elif site == "def":
        out.append('<%%def name="d(%s)">%s</%%def>${d(%s)}' % ((n + "='arg'") if f["def_arg"] else "", read, ""))
    elif site == "nested-def":
        out.append('<%%def name="o()"><%% local_o = 1 %%>%s<%%def name="i(%s)">%s</%%def>${i()}</%%def>${o()}' % (
            ("<%% %s = 'outer' %%>" % n) if f.get("outer_local") else "", (n + "='arg'") if f["def_arg"] else "", read))
    elif site == "block":
        out.append('<%%block name="b">%s</%%block>' % read)
    elif site == "call-body":
        out.append('<%%def name="w()">${caller.body()}</%%def><%%call expr="w()">%s</%%call>' % read)
    elif site == "loop-target":
        out.append("%% for %s in ['loop']:\n%s\n%% endfor" % (n, read))
    elif site == "tag-attribute":
        out.append('<%%def name="w2(q)">[${q}]</%%def><%%call expr="w2(val(%s))"></%%call>' % n)
    elif site == "filter-argument":
        out.append("${'' | pick(%s)}" % n)
    elif site == "namespace-def":
        # a def written inside an inline <%namespace> tag
        out.append('<%%namespace name="nsx"><%%def name="nd()">%s</%%def></%%namespace>${nsx.nd()}' % read)
    elif site == "nested-def-default":
        # the default of a def nested in another def is evaluated in the enclosing def's scope
        out.append('<%%def name="o2()"><%%def name="i2(a=%s)">[${val(a)}]</%%def>${i2()}</%%def>${o2()}' % n)
    elif site == "control-line":
        out.append("%% for q in one(%s):\n[${val(q)}]\n%% endfor" % n)
    return "\n".join(out)


def reference(f):
    """the statement's order"""
    site = f["site"]
    in_def = site in ("def", "nested-def", "nested-def-default")
    if site == "loop-target":
        return "loop"
    if in_def and f["def_arg"]:
        return "arg"
    if site == "nested-def" and f.get("outer_local"):
        return "outer"            # closure: the enclosing def's local
    if not in_def and site != "block" and f["body_assign"]:
        return "body"             # a variable assigned in the body is a local of the body (and of call bodies / control lines written in it)
    page_value = "ctx" if f["in_context"] else "page"      # a <%page> argument is bound from the render arguments, else its default
    if f.get("page_arg") and not in_def and site != "block":
        return page_value         # page arguments are parameters of the body (a named block only sees those it lists in args=)
    # a named block is rendered through self.<name>(), like a top-level def that is NOT called by name from the body:
    # it sees neither the body's locals nor its current assignments (documented: blocks only receive the page arguments)
    if f["module_level"]:
        return "mod"
    if f["imported"]:
        return "imp"
    if in_def and f["body_assign"]:
        return "body"             # defs called from the body see the current values of its <% %> assignments through the context
    if in_def and f.get("page_arg"):
        return page_value         # ... and the body's <%page> arguments
    if f["in_context"]:
        return "ctx"
    if hasattr(_b, f["name"]):
        return "builtin"
    return "NameError" if f["strict"] else "UNDEF"


def render_case(LKmod, RTmod, f):
    lk = LKmod.TemplateLookup(strict_undefined=f["strict"])
    n = f["name"]
    lk.put_string("lib_" + n, '<%%def name="%s()">imp</%%def>' % n)
    lk.put_string("main", source(f))

    def val(x):
        if x is RTmod.UNDEFINED:
            return "UNDEF"
        if x is getattr(_b, n, object()):
            return "builtin"
        if callable(x):
            return x()
        return x

    data = {"val": val, "one": lambda x: [x], "pick": lambda x: (lambda s_: "[%s]" % val(x))}
    if f["in_context"]:
        data[n] = "ctx"
    before = dict(data)
    try:
        out = "".join(lk.get_template("main").render(**data).split())
        out = out.replace("[]", "").strip() if False else out
    except NameError as e:
        out = "[NameError]" if n in str(e) or "Undefined" in str(e) else "raised NameError: %s" % e
    except Exception as e:
        out = "raised %s: %s" % (type(e).__name__, e)
    return out, (data == before)


def h_scopes(p):
    f = dict(name=["v", "format", "print", "n"][p.choose(4, "name")], site=SITES[p.choose(len(SITES), "site")], strict=bool(p.choose(2, "strict")))
    for k in ("in_context", "module_level", "imported", "body_assign", "def_arg", "page_arg", "outer_local"):
        f[k] = bool(p.choose(2, k))
    if f["def_arg"] and f["site"] not in ("def", "nested-def"):
        raise core.Abort("argument binding only applies to def sites")
    if f["site"] == "namespace-def" and (f["body_assign"] or f["page_arg"] or f["imported"]):
        raise core.Abort("what a def of an inline namespace sees of the body's own variables and imports is not fixed by the statement")
    if f["outer_local"] and f["site"] != "nested-def":
        raise core.Abort("enclosing-def local only applies to the nested def site")
    from symx import loader
    order = [None, "sorted", "reversed"][p.choose(3, "set_iteration_order")]
    loader.SET_ORDER["mode"] = order
    try:
        out, unchanged = render_case(LK, RT, f)
    finally:
        loader.SET_ORDER["mode"] = None
    f["set_order"] = order
    return dict(f=f, out=out, unchanged=unchanged)


def on_scopes(p, r, exc, acc):
    if exc is not None:
        acc.candidate(kind="harness-exception", input=None, detail="%s: %s" % (type(exc).__name__, str(exc)[:200]))
        return
    f = r["f"]
    want = reference(f)
    # an imported def writes its text at the point of the call: [imp] either way
    acc.tags["asserted"] += 1
    acc.vcs += 2
    # an imported def writes its text where it is CALLED (for an attribute / filter argument: before the brackets)
    flat = lambda t: t.replace("[", "").replace("]", "")
    if r["out"] != "[%s]" % want and not (want == "imp" and flat(r["out"]) == "imp"):
        acc.candidate(kind="name-resolution", input=dict(flags=f), detail="rendered %r, documented order gives %r" % (r["out"], "[%s]" % want))
    if not r["unchanged"]:
        acc.candidate(kind="caller-data-altered", input=dict(flags=f), detail="the dict passed to render() was modified")
    elif r["out"] == "[%s]" % want:
        acc.good("name-resolution", dict(flags=f))
    acc.sample(dict(flags=f, output=r["out"]))


# ------------------------------------------------------------------ reserved names
RESERVED = ["context", "UNDEFINED", "STOP_RENDERING", "loop", "ordinary"]
ENTRY = ["render", "render_unicode", "get_def.render", "render_context", "Context()", "render_context-on-a-used-Context", "render_context-from-inside-a-render"]
ASSIGN = {
    "block-assignment": "<% NAME = 1 %>x",
    "for-target": "% for NAME in [1]:\nx\n% endfor\n",
    "for-tuple-target": "% for i, NAME in [(1, 2)]:\nx\n% endfor\n",
    "with-as": "<%! import contextlib %>\n% with contextlib.nullcontext(1) as NAME:\nx\n% endwith\n",
    "except-as": "% try:\nx\n% except Exception as NAME:\ny\n% endtry\n",
    "import-as": "<% import os as NAME %>x",
    "def-statement": "<%\ndef NAME(): pass\n%>x",
    "assignment-in-def": "<%def name='d()'><% NAME = 1 %>x</%def>${d()}",
    "assignment-in-block": "<%block name='b'><% NAME = 1 %>x</%block>",
    "module-level-assignment": "<%! NAME = 1 %>x",
    "walrus-in-expression": "${(NAME := 1)}",
}
WHERE = ENTRY + list(ASSIGN)


def reserved_case(TPm, RTm, EXCm, name, where, enable_loop):
    import io
    # enable_loop == "page": switched off at the constructor and on again by the template's <%page> tag
    page = '<%page enable_loop="True"/>\n' if enable_loop == "page" else ""
    enable_loop = enable_loop is True
    try:
        if where in ASSIGN:
            TPm.Template(page + ASSIGN[where].replace("NAME", name), enable_loop=enable_loop).render()
        else:
            t = TPm.Template(page + "<%def name='d()'>x</%def>y", enable_loop=enable_loop)
            kw = {name: 1}
            if where == "render":
                t.render(**kw)
            elif where == "render_unicode":
                t.render_unicode(**kw)
            elif where == "get_def.render":
                t.get_def("d").render(**kw)
            elif where == "render_context":
                t.render_context(RTm.Context(io.StringIO()), **kw)
            elif where == "render_context-on-a-used-Context":
                ctx = RTm.Context(io.StringIO())
                t.render_context(ctx)               # the Context is bound to the template from now on
                t.render_context(ctx, **kw)
            elif where == "render_context-from-inside-a-render":
                outer = TPm.Template("${other.render_context(context, **kw) or ''}", enable_loop=enable_loop)
                outer.render(other=t, kw=kw)
            else:
                t.render_context(RTm.Context(io.StringIO(), **kw))
        return "ok"
    except EXCm.NameConflictError:
        return "NameConflictError"
    except Exception as e:
        return "raised %s" % type(e).__name__


def h_reserved(p):
    name = RESERVED[p.choose(len(RESERVED), "name")]
    where = WHERE[p.choose(len(WHERE), "where")]
    enable_loop = [False, True, "page"][p.choose(3, "enable_loop")]
    return dict(name=name, where=where, enable_loop=enable_loop, res=reserved_case(TP, RT, EXC, name, where, enable_loop))


def on_reserved(p, r, exc, acc):
    if exc is not None:
        acc.candidate(kind="harness-exception", input=None, detail="%s: %s" % (type(exc).__name__, str(exc)[:200]))
        return
    if r["name"] == "context" and r["where"].startswith("render_context"):
        acc.counts["render_context(context, context=...) is a Python TypeError (duplicate argument): not asserted"] += 1
        return
    acc.tags["asserted"] += 1
    reserved = r["name"] in ("context", "UNDEFINED", "STOP_RENDERING") or (r["name"] == "loop" and r["enable_loop"])
    want = "NameConflictError" if reserved else "ok"
    acc.vcs += 1
    if r["res"] != want:
        acc.candidate(kind="reserved-name", input=dict(name=r["name"], where=r["where"], enable_loop=r["enable_loop"]), detail="%s, expected %s" % (r["res"], want))
    else:
        acc.good("reserved-name", dict(name=r["name"], where=r["where"], enable_loop=r["enable_loop"]))
    acc.sample(dict(name=r["name"], where=r["where"], enable_loop=r["enable_loop"], result=r["res"]))


# ------------------------------------------------------------------ defs as names: a nested def shadows a top-level def of the same name
def defnames_source(f):
    out = []
    if f["toplevel_def"]:
        out.append('<%def name="v()">top</%def>')
    inner = ('<%def name="v()">nested</%def>' if f["nested_def"] else "") + "o=[${val(v)}]"
    if f["deeper"]:
        inner += '<%def name="m()">m=[${val(v)}]</%def>${m()}'
    out.append('<%def name="o()">' + inner + "</%def>")
    out.append('<%def name="other()">other=[${val(v)}]</%def>')
    out.append("${o()} ${other()} body=[${val(v)}]")
    return "".join(out)


def defnames_reference(f):
    base = "top" if f["toplevel_def"] else ("ctx" if f["in_context"] else "UNDEF")
    in_o = "nested" if f["nested_def"] else base
    return "o=[%s]%s other=[%s] body=[%s]" % (in_o, ("m=[%s]" % in_o) if f["deeper"] else "", base, base)


def defnames_case(TPm, RTm, f):
    def val(x):
        if x is RTm.UNDEFINED:
            return "UNDEF"
        return x() if callable(x) else x
    data = {"val": val}
    if f["in_context"]:
        data["v"] = "ctx"
    try:
        return TPm.Template(defnames_source(f)).render(**data)
    except Exception as e:
        return "raised %s: %s" % (type(e).__name__, e)


def h_defnames(p):
    f = {k: bool(p.choose(2, k)) for k in ("toplevel_def", "nested_def", "deeper", "in_context")}
    return dict(f=f, out=defnames_case(TP, RT, f))


def on_defnames(p, r, exc, acc):
    if exc is not None:
        acc.candidate(kind="harness-exception", input=None, detail="%s: %s" % (type(exc).__name__, str(exc)[:200]))
        return
    acc.tags["asserted"] += 1
    acc.vcs += 1
    want = defnames_reference(r["f"])
    if r["out"] != want:
        acc.candidate(kind="def-name-resolution", input=dict(defnames=r["f"]), detail="rendered %r, Python's scoping gives %r" % (r["out"], want))
    else:
        acc.good("def-name-resolution", dict(defnames=r["f"]))
    acc.sample(dict(flags=r["f"], output=r["out"]))


def make_replay(c):
    i = c["input"] or {}
    body = """
sys.path.insert(0, "/verif")
CASE = __CASE__
KIND = __KIND__
import mako.lookup as LK, mako.runtime as RT
from mako.template import Template
from mako import exceptions
from props import C04
bad = None
print("case:", CASE)
if "flags" in CASE and CASE["flags"].get("set_order") and not os.environ.get("C04_REPLAY_CHILD"):
    # found under a particular iteration order of mako's sets: look for a hash seed that shows it
    import subprocess
    for seed in range(16):
        r_ = subprocess.run([sys.executable, __file__], env=dict(os.environ, PYTHONHASHSEED=str(seed), C04_REPLAY_CHILD="1"), capture_output=True, text=True)
        if r_.returncode == 1 and "VIOLATED" in r_.stdout:
            print("PYTHONHASHSEED=%d:" % seed); print(r_.stdout[-600:]); sys.exit(1)
    print("HOLDS under hash seeds 0..15 (not reproduced)"); sys.exit(0)
if "flags" in CASE:
    f = CASE["flags"]
    print(C04.source(f))
    out, unchanged = C04.render_case(LK, RT, f)
    want = "[%s]" % C04.reference(f)
    print("rendered:", out, " documented:", want)
    if out != want and not (want == "[imp]" and out.replace("[", "").replace("]", "") == "imp"): bad = "name resolved from the wrong scope"
    if not unchanged: bad = "render() altered the caller's data"
elif "defnames" in CASE:
    f = CASE["defnames"]
    import mako.template as TPm
    print(C04.defnames_source(f))
    out, want = C04.defnames_case(TPm, RT, f), C04.defnames_reference(f)
    print("rendered:", out, " expected:", want)
    if out != want: bad = "a def name resolved to the wrong def"
elif "where" in CASE:
    import mako.template as TPm
    name, where, el = CASE["name"], CASE["where"], CASE["enable_loop"]
    if where in C04.ASSIGN: print(C04.ASSIGN[where].replace("NAME", name))
    res = C04.reserved_case(TPm, RT, exceptions, name, where, el)
    reserved = name in ("context", "UNDEFINED", "STOP_RENDERING") or (name == "loop" and el)
    print(where, name, "->", res)
    if res != ("NameConflictError" if reserved else "ok"): bad = "reserved name %s via %s: %s" % (name, where, res)
else:
    # context.kwargs must return the render arguments however often it is read and whatever is done with the returned dict
    t = Template("<% k = context.kwargs; k['injected'] = 1 %>${sorted(context.kwargs)}")
    out = t.render(a=1, b=2)
    print(out)
    if out != "['a', 'b']": bad = "context.kwargs is not a copy of the render arguments"
print("VIOLATED: " + bad if bad else "HOLDS")
sys.exit(1 if bad else 0)
""".replace("__CASE__", repr(i)).replace("__KIND__", repr(c["kind"])).replace("%%", "%")
    return (c["kind"], body, repr(i))


def classify(c):
    i = c.get("input") or {}
    if c["kind"] == "name-resolution" and (i.get("flags") or {}).get("name") == "print":
        # every way a value of that name reaches a def or the body through the context (render argument, page argument, body
        # assignment seen by a def) is the same defect
        return "C04-print-not-resolved-from-context"
    if c["kind"] == "reserved-name" and i.get("name") == "loop" and i.get("enable_loop") == "page" and i.get("where") in ENTRY:
        return "C04-loop-enabled-by-page-accepted-by-render"
    if c["kind"] == "reserved-name" and i.get("name") != "ordinary":
        if i.get("where") == "module-level-assignment":
            return "C04-reserved-name-module-level-assignment"
        if i.get("where") == "walrus-in-expression":
            return "C04-reserved-name-walrus-in-expression"
    return None


def run(check, tier):
    setup()
    check.encode(*kernel())
    check.assume(
        "run-time half: the real Context is built from render arguments whose presence per name (a data name, a builtin's name, an absent name) "
        "is solver-chosen and whose values are symbolic objects; get/[] must follow data > builtins > default/KeyError, kwargs must equal "
        "the render arguments and be a copy, writes through _locals()/_copy() children must be invisible to the parent",
        "the iteration order of every set built by mako's own modules (identifier sets of the scope analysis) is a further choice "
        "(interpreter's own / sorted / reversed): name resolution must not depend on PYTHONHASHSEED",
        "compile-time half: for every solver-chosen combination of binding sites (context, module-level <%! %>, namespace import, body "
        "assignment, def argument), read site (body, def, nested def, named block, call body, control line), name (ordinary / a builtin's) "
        "and strict_undefined, a real template is compiled and rendered and must print the value the statement's order selects",
        "reserved names: context / UNDEFINED / STOP_RENDERING / loop / an ordinary name through every render entry point (render, "
        "render_unicode, get_def().render, render_context keyword, Context data) and every binding form of a template (block assignment, "
        "for / tuple target, with-as, except-as, import-as, def statement, in a def, in a block, module-level block, := in an expression), "
        "enable_loop on/off (def parameters named like a reserved name are not covered by the statement and not asserted)",
        "defs as names: a top-level def, a def nested in another def under the same name, and a context variable of that name, read "
        "from the enclosing def, a def nested deeper, another top-level def and the body")
    check.not_claimed("Python statement forms beyond simple assignment (FindIdentifiers over arbitrary code: C19's unclaimed half)",
                      "page arguments seen by defs", "closure variables of enclosing defs beyond one level")
    jobs = [("C04-context", h_context, on_context, "Context lookups with solver-chosen render arguments", dict(names=3), ("asserted",)),
            ("C04-scopes", h_scopes, on_scopes, "binding sites x read sites x strict_undefined over real templates", dict(sites=SITES), ("asserted",)),
            ("C04-reserved", h_reserved, on_reserved, "reserved names x entry points and binding forms", dict(names=RESERVED, where=WHERE), ("asserted",)),
            ("C04-defnames", h_defnames, on_defnames, "def names: nested def shadows the top-level def of the same name", dict(flags=4), ("asserted",))]
    for j in jobs:
        driver.register(j[0], j[1], j[2])
    cands = []
    goods = []
    for name, _h, _o, title, bounds, req in jobs:
        st, acc = driver.explore(name, time_limit=1200)
        check.section(title, st, acc, bounds, tags_required=req)
        cands.extend(acc.candidates)
        goods.extend(acc.goods)
    check.confirm(cands, make_replay, classify, max_confirm=24, goods=goods)
    driver.close_pool()
