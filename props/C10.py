"""C10 - escaping filters neutralise markup for every input and are invertible."""
import html.entities
import inspect
import types
import urllib.parse
import z3

from symx import core, values, driver, realproc, loader, symre
from symx.values import SymStr, SymChar, SymInt, SymBytes, sym_string, str_eq_term, cv, conc, ch_eq, ch_in
from . import common

F = None
FULL = values.Domain(None)
SAFE = "ABCDEFGHIJKLMNOPQRSTUVWXYZabcdefghijklmnopqrstuvwxyz0123456789_.-~"
CP2NAME = dict(html.entities.codepoint2name)
NAME2CP = dict(html.entities.name2codepoint)


# ------------------------------------------------------------------ modelled library call: urllib.parse.quote_plus on bytes
def _qp_concrete(b):
    c = chr(b)
    if c in SAFE:
        return c
    if b == 0x20:
        return "+"
    return "%%%02X" % b


def sym_quote_plus(bs, safe="", encoding=None, errors=None):
    if not isinstance(bs, SymBytes):
        return urllib.parse.quote_plus(bs, safe, encoding, errors)
    if safe:
        raise core.ProxyLeak("quote_plus model: non-empty safe set")
    p = core.cur()
    out = []
    for b in bs.items:
        if isinstance(b, int):
            out.extend(_qp_concrete(b))
        elif p.fork(z3.Or([b == ord(c) for c in SAFE])):
            out.append(SymChar(b))
        elif p.fork(b == 0x20):
            out.append("+")
        else:
            d = values.digits(b, 16, 2, "qp")
            out.extend(["%", SymChar(loader.hexdigit(d[0])), SymChar(loader.hexdigit(d[1]))])
    return SymStr(out)


def selftest_quote_plus():
    for b in range(256):
        if _qp_concrete(b) != urllib.parse.quote_plus(bytes([b])):
            raise core.EngineError("quote_plus model differs from urllib for byte %d" % b)


def setup():
    global F
    if F is not None:
        return
    F = common.mako("filters")
    values.set_domain(FULL)
    selftest_quote_plus()
    F.quote_plus = sym_quote_plus
    # MarkupSafe's own pure-Python escape, executed symbolically (the C speed-up cannot take proxies)
    import markupsafe._native as native
    nat = loader.load_source_as("sx_markupsafe_native", inspect.getsource(native), native.__file__)
    if F.html_escape is __import__("markupsafe").escape:
        F.html_escape = lambda s: nat._escape_inner(s)
        F.__dict__["__sx_h_native__"] = True


def kernel():
    E = F.XMLEntityEscaper
    return [F.xml_escape, F.url_escape, F.trim, F.Decode.__getattr__, E.escape_entities, E.escape, E.unescape,
            getattr(E, "_XMLEntityEscaper__escape"), getattr(E, "_XMLEntityEscaper__unescape"), F.htmlentityreplace_errors]


# ------------------------------------------------------------------ reference decoders (oracle side)
XREFS = {"&amp;": "&", "&gt;": ">", "&lt;": "<", "&#34;": '"', "&#39;": "'", "&quot;": '"', "&apos;": "'"}


def ref_markup_decode(items):
    """returns ('ok', decoded items) | ('raw', i) raw markup char at i | ('amp', i) '&' not starting a known reference"""
    out = []
    i = 0
    n = len(items)
    while i < n:
        c = items[i]
        if ch_in(c, "<>\"'"):
            return ("raw", i)
        if ch_eq(c, "&"):
            for ref, ch in XREFS.items():
                if i + len(ref) <= n and all(ch_eq(items[i + k], ref[k]) for k in range(len(ref))):
                    out.append(ch)
                    i += len(ref)
                    break
            else:
                return ("amp", i)
            continue
        out.append(c)
        i += 1
    return ("ok", out)


def ref_url_decode(items):
    """percent/plus decoding to byte terms, then strict UTF-8 decoding to code point terms.
    returns ('ok', [cp terms]) | ('badchar', i) | ('malformed', why)"""
    p = core.cur()
    bs = []
    i = 0
    n = len(items)
    while i < n:
        c = items[i]
        if ch_eq(c, "%"):
            if i + 2 >= n + 0 and i + 2 > n - 1 + 0 and i + 2 >= n:
                return ("malformed", "truncated escape")
            hv = []
            for d in items[i + 1:i + 3]:
                if ch_in(d, "0123456789"):
                    hv.append(cv(d) - 48)
                elif ch_in(d, "ABCDEF"):
                    hv.append(cv(d) - 55)
                elif ch_in(d, "abcdef"):
                    hv.append(cv(d) - 87)
                else:
                    return ("malformed", "bad hex digit")
            bs.append(hv[0] * 16 + hv[1])
            i += 3
            continue
        if ch_eq(c, "+"):
            bs.append(32)
        elif ch_in(c, SAFE):
            bs.append(cv(c))
        else:
            return ("badchar", i)
        i += 1
    cps = []
    i = 0
    while i < len(bs):
        b = bs[i]
        f = lambda e: e if isinstance(e, bool) else p.fork(e)
        if f(b < 0x80):
            cps.append(b)
            i += 1
            continue
        if f(b < 0xC2):
            return ("malformed", "bad lead byte")
        need = 1 if f(b < 0xE0) else (2 if f(b < 0xF0) else (3 if f(b < 0xF5) else None))
        if need is None or i + need >= len(bs) + 0 and i + need > len(bs) - 1:
            return ("malformed", "bad lead / truncated")
        cont = bs[i + 1:i + 1 + need]
        for cb in cont:
            if not f(z3.And(cb >= 0x80, cb <= 0xBF) if not isinstance(cb, int) else (0x80 <= cb <= 0xBF)):
                return ("malformed", "bad continuation")
        if need == 1:
            cp = (b - 0xC0) * 64 + (cont[0] - 0x80)
        elif need == 2:
            cp = (b - 0xE0) * 4096 + (cont[0] - 0x80) * 64 + (cont[1] - 0x80)
            if not f(cp >= 0x800) or f(z3.And(cp >= 0xD800, cp <= 0xDFFF) if not isinstance(cp, int) else 0xD800 <= cp <= 0xDFFF):
                return ("malformed", "overlong / surrogate")
        else:
            cp = (b - 0xF0) * 262144 + (cont[0] - 0x80) * 4096 + (cont[1] - 0x80) * 64 + (cont[2] - 0x80)
            if not f(z3.And(cp >= 0x10000, cp <= 0x10FFFF) if not isinstance(cp, int) else 0x10000 <= cp <= 0x10FFFF):
                return ("malformed", "overlong / out of range")
        cps.append(cp)
        i += 1 + need
    return ("ok", cps)


def ref_entity_decode(items):
    """decode exactly one reference '&name;' or '&#xH;' / '&#D;' -> code point term, or None"""
    if len(items) < 3 or not ch_eq(items[0], "&") or not ch_eq(items[-1], ";"):
        return None
    body = items[1:-1]
    if ch_eq(body[0], "#"):
        if len(body) >= 2 and ch_in(body[1], "xX"):
            val = 0
            if len(body) < 3:
                return None
            for d in body[2:]:
                if ch_in(d, "0123456789"):
                    val = val * 16 + (cv(d) - 48)
                elif ch_in(d, "ABCDEF"):
                    val = val * 16 + (cv(d) - 55)
                elif ch_in(d, "abcdef"):
                    val = val * 16 + (cv(d) - 87)
                else:
                    return None
            return val
        val = 0
        if len(body) < 2:
            return None
        for d in body[1:]:
            if not ch_in(d, "0123456789"):
                return None
            val = val * 10 + (cv(d) - 48)
        return val
    name = SymStr(body).concrete_or_none()
    if name is None:
        # every char of the name must be fixed by the path
        p = core.cur()
        chars = []
        for c in body:
            if isinstance(c, str):
                chars.append(c)
            else:
                v = p.determined(c.v)
                if v is None:
                    return None
                chars.append(chr(v.as_long()))
        name = "".join(chars)
    return NAME2CP.get(name)


# ------------------------------------------------------------------ harnesses
CONTEXTS = {"": ("", ""), "amp-before": ("&", ""), "ampref-before": ("&amp;", ""), "hash-after": ("", "#38;"),
            "semicolon": ("&lt", ";"), "quote-both": ('"', "'")}


def h_markup(which, n, ctxname=""):
    pre, post = CONTEXTS[ctxname]

    def h(p):
        s = SymStr(list(pre) + sym_string(n).items + list(post))
        fn = F.xml_escape if which == "x" else F.html_escape
        return dict(s=s, out=fn(s))
    return h


def on_markup(which):
    def on(p, r, exc, acc):
        if exc is not None:
            acc.candidate(kind=which + "-raises", input=None, detail=repr(exc)[:200])
            return
        s, out = r["s"], values.lift(r["out"])
        m = p.witness()
        w = s.concretize(m)
        acc.tags["ran"] += 1
        res = ref_markup_decode(out.items)
        acc.vcs += 1
        if res[0] != "ok":
            acc.candidate(kind=which + "-" + res[0], input=dict(filter=which, text=s.concretize(p.witness())), detail="output %r" % out.concretize(p.witness()))
            return
        acc.vcs += 1
        st, mod = p.vc(str_eq_term(SymStr(res[1]), s))
        if st == "fails":
            acc.candidate(kind=which + "-roundtrip", input=dict(filter=which, text=s.concretize(mod)), detail="output %r" % out.concretize(mod))
        elif st == "unknown":
            acc.vcs_unknown += 1
        real = realproc.call("filter_apply", which, w)
        acc.replayed += 1
        if real != out.concretize(m):
            raise core.EngineError("engine/real disagreement for %s(%r): real %r mine %r" % (which, w, real, out.concretize(m)))
        acc.sample(dict(filter=which, input=w, output=real))
    return on


def h_url(n):
    def h(p):
        s = sym_string(n)
        return dict(s=s, out=F.url_escape(s))
    return h


def on_url(p, r, exc, acc):
    if exc is not None:
        acc.candidate(kind="u-raises", input=None, detail=repr(exc)[:200])
        return
    s, out = r["s"], values.lift(r["out"])
    acc.tags["ran"] += 1
    res = ref_url_decode(out.items)
    m = p.witness()
    w = s.concretize(m)
    acc.vcs += 1
    if res[0] != "ok":
        acc.candidate(kind="u-" + res[0], input=dict(filter="u", text=w), detail="output %r (%s)" % (out.concretize(m), res[1]))
        return
    cps = res[1]
    acc.vcs += 1
    if len(cps) != len(s.items):
        acc.candidate(kind="u-roundtrip", input=dict(filter="u", text=w), detail="output %r decodes to %d chars" % (out.concretize(m), len(cps)))
        return
    st, mod = p.vc(z3.And([a == cv(b) for a, b in zip(cps, s.items)]))
    if st == "fails":
        acc.candidate(kind="u-roundtrip", input=dict(filter="u", text=s.concretize(mod)), detail="output %r" % out.concretize(mod))
    elif st == "unknown":
        acc.vcs_unknown += 1
    real = realproc.call("filter_apply", "u", w)
    acc.replayed += 1
    if real != out.concretize(m):
        raise core.EngineError("engine/real disagreement for u(%r): real %r mine %r" % (w, real, out.concretize(m)))
    acc.sample(dict(filter="u", input=w, output=real))


def h_entity(n, ctxname=""):
    pre, post = CONTEXTS[ctxname]

    def h(p):
        s = SymStr(list(pre) + sym_string(n).items + list(post))
        out = F.html_entities_escape(s)
        back = F.html_entities_unescape(out)
        return dict(s=s, out=out, back=back)
    return h


def on_entity(p, r, exc, acc):
    if exc is not None:
        acc.candidate(kind="entity-raises", input=None, detail=repr(exc)[:200])
        return
    s, out, back = r["s"], values.lift(r["out"]), values.lift(r["back"])
    acc.tags["ran"] += 1
    pth = core.cur()
    # expected: exactly the characters with a named entity are replaced
    exp = []
    keys = sorted(CP2NAME)
    for c in s.items:
        if isinstance(c, str):
            exp.extend("&%s;" % CP2NAME[ord(c)] if ord(c) in CP2NAME else c)
            continue
        hit = values.select_int(c.v, keys)
        exp.extend("&%s;" % CP2NAME[hit] if hit is not None else [c])
    m = p.witness()
    w = s.concretize(m)
    acc.vcs += 2
    st, mod = p.vc(str_eq_term(out, SymStr(exp)))
    if st == "fails":
        acc.candidate(kind="entity-replace", input=dict(filter="entity", text=s.concretize(mod)), detail="output %r" % out.concretize(mod))
    st, mod = p.vc(str_eq_term(back, s))
    if st == "fails":
        acc.candidate(kind="entity-roundtrip", input=dict(filter="entity", text=s.concretize(mod)),
                      detail="entity -> %r -> unescape -> %r" % (out.concretize(mod), back.concretize(mod)))
    real = realproc.call("filter_apply", "entity", w)
    acc.replayed += 1
    if real != out.concretize(m):
        raise core.EngineError("engine/real disagreement for entity(%r): real %r mine %r" % (w, real, out.concretize(m)))
    if hasattr(acc, "samples") and len(acc.samples) < 6 and ord(w[0:1] or "a") > 127:
        acc.sample(dict(filter="entity", input=w, output=real))


def h_trim(n):
    def h(p):
        s = sym_string(n)
        return dict(s=s, out=F.trim(s))
    return h


def on_trim(p, r, exc, acc):
    if exc is not None:
        acc.candidate(kind="trim-raises", input=None, detail=repr(exc)[:200])
        return
    s, out = r["s"], values.lift(r["out"])
    acc.tags["ran"] += 1
    isws = lambda c: FULL.pred(cv(c), str.isspace, "isspace") if isinstance(c, SymChar) else z3.BoolVal(c.isspace())
    n, k = len(s.items), len(out.items)
    # out must be the slice s[a:a+k] for the a with all-whitespace prefix/suffix and non-whitespace ends
    alts = []
    for a in range(0, n - k + 1):
        if all(x is y for x, y in zip(out.items, s.items[a:a + k])):
            conds = [isws(c) for c in s.items[:a]] + [isws(c) for c in s.items[a + k:]]
            if k:
                conds += [z3.Not(isws(s.items[a])), z3.Not(isws(s.items[a + k - 1]))]
            alts.append(z3.And(conds) if conds else z3.BoolVal(True))
    acc.vcs += 1
    st, mod = p.vc(z3.Or(alts) if alts else z3.BoolVal(False))
    if st == "fails":
        acc.candidate(kind="trim", input=dict(filter="trim", text=s.concretize(mod)), detail="output %r" % out.concretize(mod))
    m = p.witness()
    w = s.concretize(m)
    real = realproc.call("filter_apply", "trim", w)
    acc.replayed += 1
    if real != out.concretize(m):
        raise core.EngineError("engine/real disagreement for trim(%r)" % w)
    acc.sample(dict(filter="trim", input=w, output=real))


def h_decode(n):
    def h(p):
        s = sym_string(n)
        enc = ("utf8", "ascii", "latin1")[p.choose(3, "enc")]
        return dict(s=s, out=getattr(F.decode, enc)(s), enc=enc)
    return h


def on_decode(p, r, exc, acc):
    if exc is not None:
        acc.candidate(kind="decode-raises", input=None, detail=repr(exc)[:200])
        return
    acc.tags["ran"] += 1
    acc.vcs += 1
    st, mod = p.vc(str_eq_term(values.lift(r["out"]), r["s"]))
    if st == "fails":
        acc.candidate(kind="decode-str", input=dict(filter="decode." + r["enc"], text=r["s"].concretize(mod)), detail="changed")
    acc.sample(dict(filter="decode." + r["enc"], input=r["s"].concretize(p.witness())))


def h_decode_bytes(n):
    """decode.<enc> on bytes and on other objects must return str"""
    def h(p):
        bs = SymBytes([values.new_char("b%d" % i, values.Domain(list(range(0, 128)))).v for i in range(n)])
        enc = ("ascii", "latin1")[p.choose(2, "enc")]
        out = getattr(F.decode, enc)(bs)
        other = getattr(F.decode, enc)(12345)
        # a filter callable looked up first and used after ANOTHER decode.<enc> was looked up still decodes with its own codec
        e1, e2 = [("utf8", "latin1"), ("latin1", "utf8")][p.choose(2, "held_then_other")]
        held = getattr(F.decode, e1)
        getattr(F.decode, e2)
        held_out = held(b"\xc3\xa9")

        class Text(str):
            """text that is already decoded and carries its own type (e.g. markupsafe.Markup)"""
        t = Text("t\xe9xt")
        return dict(bs=bs, out=out, enc=enc, other=other, held=(e1, e2, held_out), same=getattr(F.decode, enc)(t) is t)
    return h


def on_decode_bytes(p, r, exc, acc):
    if exc is not None:
        acc.candidate(kind="decode-raises", input=None, detail=repr(exc)[:200])
        return
    acc.tags["ran"] += 1
    out = r["out"]
    acc.vcs += 2
    m = p.witness()
    if not isinstance(out, (str, SymStr)) or len(values.lift(out).items) != len(r["bs"].items):
        acc.candidate(kind="decode-bytes", input=dict(filter="decode." + r["enc"], bytes=repr(r["bs"].concretize(m))), detail="returned %r" % (conc(out, m),))
    else:
        st, mod = p.vc(z3.And([cv(a) == b for a, b in zip(values.lift(out).items, r["bs"].items)]) if r["bs"].items else z3.BoolVal(True))
        if st == "fails":
            acc.candidate(kind="decode-bytes", input=dict(filter="decode." + r["enc"], bytes=repr(r["bs"].concretize(mod))), detail="")
    if r["other"] != "12345":
        acc.candidate(kind="decode-object", input=dict(filter="decode." + r["enc"], object=12345), detail="returned %r" % (r["other"],))
    acc.vcs += 2
    e1, e2, held_out = r["held"]
    if held_out != b"\xc3\xa9".decode(e1):
        acc.candidate(kind="decode-held", input=dict(filter="decode." + e1, then="decode." + e2, held=True), detail="decoded as %r" % (held_out,))
    if not r["same"]:
        acc.candidate(kind="decode-subclass", input=dict(filter="decode." + r["enc"], subclass=True), detail="a str subclass instance is not returned unchanged")
    acc.sample(dict(filter="decode." + r["enc"], bytes=repr(r["bs"].concretize(m))))


CHARSETS = {"ascii": 128, "latin-1": 256}


def h_handler(n, charset):
    lim = CHARSETS[charset]

    def h(p):
        s = sym_string(n)
        p.assume(s.items[0].v >= lim)   # the codec calls the handler on a run of unencodable characters
        for c in s.items[1:]:
            p.assume(c.v >= lim)

        class Fake(UnicodeEncodeError):
            object = s
            start = 0
            end = n

        ex = Fake(charset, "x", 0, 1, "ordinal not in range")
        return dict(s=s, res=F.htmlentityreplace_errors(ex), charset=charset)
    return h


def on_handler(p, r, exc, acc):
    if exc is not None:
        acc.candidate(kind="handler-raises", input=None, detail=repr(exc)[:200])
        return
    s, res = r["s"], r["res"]
    acc.tags["ran"] += 1
    m = p.witness()
    w = s.concretize(m)
    acc.vcs += 1
    # concrete replay through the real codec machinery, several target charsets
    real = realproc.call("encode_replace", w)
    acc.replayed += 1
    for cs, (okflag, txt) in real.items():
        if not okflag:
            acc.candidate(kind="handler-codec", input=dict(handler=cs, text=w), detail=txt)
    ok_shape = isinstance(res, tuple) and len(res) == 2 and isinstance(res[0], (str, SymStr)) and isinstance(res[1], int) and res[1] == len(s.items)
    if not ok_shape:
        acc.candidate(kind="handler-shape", input=dict(handler=r["charset"], text=w), detail="returned %r" % (conc(res, m),))
        return
    rep = values.lift(res[0])
    # split the replacement into one reference per input character and decode each
    items = rep.items
    i = 0
    cps = []
    bad = None
    for c in s.items:
        if i >= len(items) or not ch_eq(items[i], "&"):
            bad = "no reference at %d" % i
            break
        j = i
        while j < len(items) and not ch_eq(items[j], ";"):
            j += 1
        if j >= len(items):
            bad = "unterminated reference"
            break
        cp = ref_entity_decode(items[i:j + 1])
        if cp is None:
            bad = "undecodable reference %r" % SymStr(items[i:j + 1]).concretize(p.witness())
            break
        cps.append(cp)
        i = j + 1
    if bad is None and i != len(items):
        bad = "trailing text"
    acc.vcs += 1
    if bad is not None:
        acc.candidate(kind="handler-replacement", input=dict(handler=r["charset"], text=s.concretize(p.witness())),
                      detail="%s in %r" % (bad, rep.concretize(p.witness())))
        return
    st, mod = p.vc(z3.And([a == cv(b) for a, b in zip(cps, s.items)]))
    if st == "fails":
        acc.candidate(kind="handler-roundtrip", input=dict(handler=r["charset"], text=s.concretize(mod)), detail="replacement %r" % rep.concretize(mod))
    elif st == "unknown":
        acc.vcs_unknown += 1
    if len(acc.samples) < 6:
        acc.sample(dict(handler=r["charset"], input=w, replacement=rep.concretize(m)))


def make_replay(c):
    i = c["input"] or {}
    body = '''
import html
sys.path.insert(0, "/verif")
from props.realops import ref_unescape
from mako import filters
from mako.template import Template
CASE = %r
KIND = %r
def markup_ok(out, text):
    import re
    if re.search(r"[<>\\"']", out): return False
    if re.search(r"&(?!(amp|lt|gt|quot|apos|#34|#39);)", out): return False
    return ref_unescape(out) == text
bad = None
if "held" in CASE:
    enc, other = CASE["filter"].split(".")[1], CASE["then"].split(".")[1]
    f = getattr(filters.decode, enc); getattr(filters.decode, other)
    out = f(b"\\xc3\\xa9")
    print("decode.%%s looked up, then decode.%%s looked up, then the first applied to b'\\\\xc3\\\\xa9' -> %%r" %% (enc, other, out))
    if out != b"\\xc3\\xa9".decode(enc): bad = "a held decode.<enc> callable decodes with another codec"
elif "subclass" in CASE:
    enc = CASE["filter"].split(".")[1]
    class Text(str): pass
    t = Text("text")
    out = getattr(filters.decode, enc)(t)
    print("decode.%%s(<str subclass instance>) returns the same object:" %% enc, out is t, type(out).__name__)
    if out is not t: bad = "text that is already str (a subclass instance) is not passed through unchanged"
elif "bytes" in CASE or "object" in CASE:
    enc = CASE["filter"].split(".")[1]
    val = eval(CASE["bytes"]) if "bytes" in CASE else CASE["object"]
    out = getattr(filters.decode, enc)(val)
    want = val.decode(enc) if isinstance(val, bytes) else str(val)
    print("decode.%%s(%%r) -> %%r, expected %%r" %% (enc, val, out, want))
    if out != want or not isinstance(out, str): bad = "decode.<enc> does not return the decoded str"
elif "filter" in CASE:
    f, text = CASE["filter"], CASE["text"]
    out = Template("${x | %%s}" %% ("n," + f if f != "h" else "n,h")).render_unicode(x=text)
    print("filter", f, "input", repr(text), "->", repr(out))
    if f in ("x", "h"):
        if not markup_ok(str(out), text): bad = "markup not neutralised / not invertible"
    elif f == "u":
        import urllib.parse
        allowed = set("ABCDEFGHIJKLMNOPQRSTUVWXYZabcdefghijklmnopqrstuvwxyz0123456789_.-~%%+")
        if set(out) - allowed: bad = "unsafe characters in output"
        elif urllib.parse.unquote_plus(out, encoding="utf-8", errors="strict") != text: bad = "does not decode back"
    elif f == "entity":
        from html.entities import codepoint2name
        exp = "".join("&%%s;" %% codepoint2name[ord(ch)] if ord(ch) in codepoint2name else ch for ch in text)
        if out != exp: bad = "expected %%r" %% exp
        elif filters.html_entities_unescape(out) != text: bad = "unescape gives %%r" %% filters.html_entities_unescape(out)
    elif f == "trim":
        if out != text.strip(): bad = "expected %%r" %% text.strip()
    elif f.startswith("decode"):
        if out != text: bad = "str changed"
else:
    text, cs = CASE["text"], CASE["handler"]
    if cs.startswith("render:"):
        # a template with several writes rendered to a charset (also ones whose encoder starts with a signature)
        cs = cs[len("render:"):]
        enc = Template("<p>${x}</p>${x}", output_encoding=cs, encoding_errors="htmlentityreplace").render(x=text)
        back, want = ref_unescape(enc.decode(cs)), "<p>" + text + "</p>" + text
        print("rendered to", cs, ":", enc); print("decodes to", repr(back), " written", repr(want))
        print("VIOLATED: the encoded output does not decode back to the rendered text" if back != want else "HOLDS")
        sys.exit(1 if back != want else 0)
    try:
        text.encode(cs, "strict")
        print("natively encodable in", cs, ": handler not involved"); sys.exit(0)
    except UnicodeEncodeError:
        pass
    try:
        enc = Template("${x}", output_encoding=cs, encoding_errors="htmlentityreplace").render(x=text)
        print("render of", repr(text), "as", cs, "->", enc)
        if ref_unescape(enc.decode(cs)) != text: bad = "replacement does not decode back to the character"
    except Exception as e:
        bad = "encoding failed: %%s: %%s" %% (type(e).__name__, e)
print("VIOLATED: " + bad if bad else "HOLDS")
sys.exit(1 if bad else 0)
''' % (i, c["kind"])
    return (c["kind"], body, (c["kind"].split("-")[0], repr(sorted(i.items()))))


def classify(c):
    return None


def run(check, tier):
    setup()
    check.encode(*kernel())
    check.assume(
        "characters are unconstrained z3 Ints over all Unicode scalar values (U+0000..U+10FFFF without surrogates): no abstraction",
        "urllib.parse.quote_plus on bytes is a modelled library call (15 lines, compared with the real function on all 256 byte values at start-up)",
        "the h filter runs MarkupSafe's own pure-Python _native._escape_inner symbolically (the C speed-up cannot take proxies); "
        "witnesses are replayed through the real filters.html_escape",
        "codec tables other than ascii/latin-1 (cp1251, shift_jis, utf-8, and the not ASCII-compatible cp037 / iso2022_jp, where the replacement text itself has to go through the codec) are exercised only by the concrete replay of each path witness",
        "reference decoders for the five XML references, percent/plus + strict UTF-8, and &name;/&#x..; references are the oracles")
    check.not_claimed("strings longer than the bound", "decode.<enc> on bytes / arbitrary objects beyond concrete spot checks",
                      "FastEncodingBuffer with codecs other than those replayed")
    L = {"quick": 2, "thorough": 3}[tier]
    tl = {"quick": 150, "thorough": 2400}[tier]
    jobs = []
    for which in ("x", "h"):
        for n in range(0, L + 1):
            jobs.append(("C10-%s-%d" % (which, n), h_markup(which, n), on_markup(which), "%s filter, %d symbolic code points" % (which, n), dict(chars=n)))
        for ctx in CONTEXTS:
            if ctx:
                jobs.append(("C10-%s-ctx-%s" % (which, ctx), h_markup(which, 1, ctx), on_markup(which),
                             "%s filter, 1 symbolic code point in context %r" % (which, CONTEXTS[ctx]), dict(chars=1, context=CONTEXTS[ctx])))
    for n in range(0, L + 1):
        if n <= 1 or tier == "thorough" and n <= 2:
            jobs.append(("C10-u-%d" % n, h_url(n), on_url, "u filter, %d symbolic code points" % n, dict(chars=n)))
        jobs.append(("C10-trim-%d" % n, h_trim(n + 1), on_trim, "trim, %d symbolic code points" % (n + 1), dict(chars=n + 1)))
    jobs.append(("C10-decode", h_decode(2), on_decode, "decode.<enc> on str, 2 symbolic code points", dict(chars=2)))
    jobs.append(("C10-decode-bytes", h_decode_bytes(2), on_decode_bytes, "decode.<enc> on 2 symbolic ASCII bytes and on an int", dict(bytes=2)))
    jobs.append(("C10-entity-1", h_entity(1), on_entity, "entity filter + html_entities_unescape, 1 symbolic code point", dict(chars=1)))
    for ctx in CONTEXTS:
        if ctx:
            jobs.append(("C10-entity-ctx-" + ctx, h_entity(1, ctx), on_entity,
                         "entity filter round trip, 1 symbolic code point in context %r" % (CONTEXTS[ctx],), dict(chars=1, context=CONTEXTS[ctx])))
    if tier == "thorough":
        jobs.append(("C10-entity-2", h_entity(2), on_entity, "entity filter + unescape, 2 symbolic code points", dict(chars=2)))
    for cs in CHARSETS:
        jobs.append(("C10-handler-%s" % cs, h_handler(1, cs), on_handler,
                     "htmlentityreplace_errors, 1 symbolic unencodable code point, target %s" % cs, dict(chars=1, charset=cs)))
    for j in jobs:
        driver.register(j[0], j[1], j[2])
    cands = []
    for name, _h, _o, title, bounds in jobs:
        st, acc = driver.explore(name, time_limit=tl)
        check.section(title, st, acc, bounds, tags_required=("ran",))
        cands.extend(acc.candidates)
    check.confirm(cands, make_replay, classify)
    driver.close_pool()
    realproc.shutdown()
