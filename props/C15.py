"""C15 - module files are regenerated when stale and never observed half-written."""
import types
import z3

from symx import core, values, driver, realproc
from symx.values import SymInt
from . import common

TP = UT = CG = None
N = 64  # length of the generated module source (bytes); torn writes leave a symbolic prefix 0..N-1


class Crash(BaseException):
    """the writing process dies here"""


class ModBytes(bytes):
    pass


class ModSrc(str):
    def encode(self, *a, **k):
        b = ModBytes(b"m" * N)
        b.version = self.version
        b.magic = CG.MAGIC_NUMBER
        return b


class FS:
    """in-memory file system with a symbolic crash/fault point.
    files: path -> dict(kind, version, magic_ok, length (z3 Int or int: bytes present), total, mtime)"""

    def __init__(self, p, crash_at, fault_at):
        self.p = p
        self.files = {}
        self.dirs = {"/", "/mods"}
        self.k = 0
        self.crash_at, self.fault_at = crash_at, fault_at
        self.fds = {}
        self.log = []
        self.tmpn = 0
        self.now = None
        self.crashed_in = None
        self.dead = False
        self.tmp_other_fs = None

    def step(self, what):
        """every environment call is a potential crash point (before it) ..."""
        if self.dead:
            raise Crash()       # a dead process performs no further effects (e.g. no flush from a finally / with block)
        i = self.k
        self.k += 1
        self.log.append(what)
        if self.crash_at is not None and self.p.fork(self.crash_at == 2 * i):
            self.crashed_in = ("before", what)
            self.dead = True
            raise Crash()
        if self.fault_at is not None and self.p.fork(self.fault_at == i):
            self.crashed_in = ("fault", what)
            raise OSError("injected fault in %s" % what)
        return i

    def after(self, i, what):
        """... and after it"""
        if self.crash_at is not None and self.p.fork(self.crash_at == 2 * i + 1):
            self.crashed_in = ("after", what)
            self.dead = True
            raise Crash()

    # -- os / os.path
    def exists(self, path):
        i = self.step("exists")
        r = path in self.files or path in self.dirs
        return r

    def stat(self, path):
        i = self.step("stat")
        f = self.files.get(path)
        if f is None:
            raise FileNotFoundError(path)
        return {TP.stat.ST_MTIME: f["mtime"] if not isinstance(f["mtime"], z3.ExprRef) else SymInt(f["mtime"])}

    def lstat(self, path):
        """the link's own mtime when the path is a symbolic link, else that of the file"""
        f = self.files.get(path)
        if f is not None and f.get("link_mtime") is not None and self.p.fork(f["is_link"]):
            self.step("lstat")
            return {TP.stat.ST_MTIME: SymInt(f["link_mtime"])}
        return self.stat(path)

    def makedirs(self, path, mode=0o777, exist_ok=False):
        i = self.step("makedirs")
        self.dirs.add(path)
        self.after(i, "makedirs")

    def mkstemp(self, dir=None, **kw):
        i = self.step("mkstemp")
        if dir is None:
            dir = "/tmp"                # tempfile's default: the system temporary directory - possibly another file system
            self.dirs.add("/tmp")
        if dir not in self.dirs:
            raise FileNotFoundError(dir)
        self.tmpn += 1
        name = "%s/tmp%d" % (dir, self.tmpn)
        self.files[name] = dict(kind="temp", version=None, magic=None, length=0, total=None, mtime=self.now)
        fd = 100 + self.tmpn
        self.fds[fd] = self.files[name]     # a descriptor refers to the file, not to its name
        self.after(i, "mkstemp")
        return fd, name

    def write(self, fd, data):
        i = self.step("write")
        f = self.fds[fd]
        f.update(kind="module", version=getattr(data, "version", None), magic=getattr(data, "magic", None), total=len(data))
        # a crash midway through the write leaves an arbitrary proper prefix
        if self.crash_at is not None and self.p.fork(self.crash_at == -1 - i):
            j = self.p.new_int("torn")
            self.p.assume(z3.And(j >= 0, j < len(data)))
            f["length"] = j
            self.crashed_in = ("during", "write")
            self.dead = True
            raise Crash()
        f["length"] = len(data)
        self.after(i, "write")
        return len(data)

    def close(self, fd):
        i = self.step("close")
        self.fds.pop(fd, None)
        self.after(i, "close")

    def fsync(self, fd):
        self.step("fsync")

    def rename(self, src, dst):
        i = self.step("rename")
        if src not in self.files:
            raise FileNotFoundError(src)
        self.files[dst] = self.files.pop(src)   # atomic within one directory (POSIX)
        self.after(i, "rename")

    def same_filesystem(self, a, b):
        fa, fb = a.startswith("/tmp/"), b.startswith("/tmp/")
        if fa == fb:
            return True
        if self.tmp_other_fs is None:
            self.tmp_other_fs = self.p.new_bool("system_tmp_is_another_file_system")
        return not self.p.fork(self.tmp_other_fs)

    def move(self, src, dst):
        """shutil.move: os.rename, which is atomic, within one file system; across file systems a copy (the destination is
        opened for writing - truncated -, filled, closed) followed by the removal of the source"""
        if self.same_filesystem(src, dst):
            return self.rename(src, dst)
        if src not in self.files:
            raise FileNotFoundError(src)
        data = self.files[src]
        i = self.step("copy-open")
        self.files[dst] = dict(kind="temp", version=None, magic=None, length=0, total=None, mtime=self.now)
        self.after(i, "copy-open")
        i = self.step("copy-write")
        f = self.files[dst]
        f.update(kind=data["kind"], version=data["version"], magic=data["magic"], total=data["total"])
        if self.crash_at is not None and self.p.fork(self.crash_at == -1 - i):
            j = self.p.new_int("torn")
            self.p.assume(z3.And(j >= 0, j < data["total"]))
            f["length"] = j
            self.crashed_in = ("during", "copy-write")
            self.dead = True
            raise Crash()
        f["length"] = data["length"]
        self.after(i, "copy-write")
        self.remove(src)

    def remove(self, path):
        i = self.step("remove")
        if path not in self.files:
            raise FileNotFoundError(path)
        del self.files[path]
        self.after(i, "remove")

    def fdopen(self, fd, mode="r", *a, **k):
        fs = self

        class Buffered:
            """buffered file object over fd: data reaches the file only on flush/close"""

            def __init__(s):
                s.buf = []
                s.closed = False

            def write(s, data):
                s.buf.append(data)
                return len(data)

            def flush(s):
                for d in s.buf:
                    fs.write(fd, d)
                s.buf = []

            def close(s):
                if not s.closed:
                    s.flush()
                    fs.close(fd)
                    s.closed = True

            def fileno(s):
                return fd

            def __enter__(s):
                return s

            def __exit__(s, *exc):
                s.close()
        return Buffered()

    def open(self, path, mode="r", *a, **k):
        if "w" in mode or "a" in mode or "x" in mode:
            i = self.step("open-w")
            self.files[path] = dict(kind="temp", version=None, magic=None, length=0, total=None, mtime=self.now)
            fd = 500 + len(self.fds)
            self.fds[fd] = self.files[path]
            self.after(i, "open-w")
            return self.fdopen(fd, mode)
        raise core.ProxyLeak("open for reading through the builtin is not modelled here")

    def read_file(self, path, mode="rb"):
        i = self.step("read")
        f = self.files.get(path)
        if f is None:
            raise FileNotFoundError(path)
        return f["data"]

    def load_module(self, module_id, path):
        i = self.step("load")
        f = self.files.get(path)
        if f is None:
            raise FileNotFoundError(path)
        if f["kind"] != "module":
            raise SyntaxError("not a module")
        ln = f["length"]
        if not isinstance(ln, int):
            if not self.p.fork(ln == f["total"]):
                raise SyntaxError("truncated module file")
        elif ln != f["total"]:
            raise SyntaxError("truncated module file")
        mg = f["magic"]
        magic = mg if isinstance(mg, int) else SymInt(mg)   # any other generator version: older or newer
        return types.SimpleNamespace(__name__="m_" + module_id, _magic_number=magic, version=f["version"], render_body=lambda *a, **k: None,
                                     _source_encoding="utf-8")


def setup():
    global TP, UT, CG
    if TP is not None:
        return
    TP, UT, CG = common.mako("template", "util", "codegen")


def kernel():
    return [TP.Template._compile_from_file, TP._compile_module_file, UT.verify_directory]


def install(fs):
    ospath = types.SimpleNamespace(exists=fs.exists, dirname=lambda p: p.rsplit("/", 1)[0] or "/", join=lambda *a: "/".join(a), sep="/")
    osm = types.SimpleNamespace(path=ospath, stat=fs.stat, makedirs=fs.makedirs, write=fs.write, close=fs.close, fsync=fs.fsync,
                                rename=fs.rename, replace=fs.rename, remove=fs.remove, unlink=fs.remove, fdopen=fs.fdopen, sep="/",
                                lstat=fs.lstat)
    TP.os = osm
    UT.os = osm
    TP.tempfile = types.SimpleNamespace(mkstemp=fs.mkstemp)
    TP.shutil = types.SimpleNamespace(move=fs.move)
    TP.open = fs.open
    TP.compat = types.SimpleNamespace(load_module=fs.load_module)

    class U:
        verify_directory = staticmethod(UT.verify_directory)
        read_file = staticmethod(fs.read_file)
        read_python_file = staticmethod(lambda path: "")

        def __getattr__(self, k):
            return getattr(UT, k)

    TP.util = U()

    def fake_compile(template, text, filename, generate_magic_comment):
        src = ModSrc("m" * N)
        src.version = text.version
        return src, types.SimpleNamespace(encoding="utf-8")

    TP._compile = fake_compile


PATH, SRC = "/mods/u.py", "/src/u"


def mk_template(writer_calls, use_writer):
    t = TP.Template.__new__(TP.Template)
    t.module_id = "u"
    t.uri = "u"
    if use_writer:
        def writer(source, outputpath):
            writer_calls.append((source, outputpath))
            # a well-behaved user writer: writes the bytes completely to the destination
            fs = writer.fs
            fs.files[outputpath] = dict(kind="module", version=source.version, magic=source.magic, length=len(source), total=len(source), mtime=fs.now)
        t.module_writer = writer
    else:
        t.module_writer = None
    return t


def h_decide(p):
    """staleness decision: arbitrary module/source state, no crash"""
    B, I = p.new_bool, p.new_int
    m_exists, use_writer = B("module_exists"), B("module_writer")
    magic = I("module_magic")
    p.assume(magic >= 0)
    magic_ok = magic == CG.MAGIC_NUMBER
    mm, sm, mv, sv, now = I("module_mtime"), I("source_mtime"), I("module_version"), I("source_version"), I("now")
    p.assume(z3.And(mm >= 0, sm >= 0, now >= sm, now >= mm, sv >= 1, mv >= 0))
    fs = FS(p, None, None)
    fs.now = now
    install(fs)
    data = types.SimpleNamespace(version=sv)
    # the source path may be a symbolic link whose own mtime is unrelated to the content's (e.g. an atomically swapped ..data link)
    is_link, lm = B("source_is_symlink"), I("link_mtime")
    p.assume(z3.And(lm >= 0, lm <= now))
    fs.files[SRC] = dict(kind="source", data=data, mtime=sm, length=1, total=1, is_link=is_link, link_mtime=lm)
    has = p.fork(m_exists)
    if has:
        fs.files[PATH] = dict(kind="module", version=mv, magic=magic, length=N, total=N, mtime=mm, original=True)
    calls = []
    uw = p.fork(use_writer)
    t = mk_template(calls, uw)
    if uw:
        t.module_writer.fs = fs
    mod = t._compile_from_file(PATH, SRC)
    return dict(mod=mod, fs=fs, has=has, calls=calls, uw=uw, sym=dict(mm=mm, sm=sm, mv=mv, sv=sv, magic_ok=magic_ok, magic=magic, now=now, is_link=is_link, lm=lm))


def on_decide(p, r, exc, acc):
    if exc is not None:
        acc.candidate(kind="decide-exception", input=None, detail=repr(exc)[:300])
        return
    y = r["sym"]
    fs = r["fs"]
    cur = fs.files.get(PATH)
    rewritten = cur is not None and not cur.get("original")
    acc.tags["rewritten" if rewritten else "reused"] += 1
    acc.counts["%s %s" % ("exists" if r["has"] else "missing", "rewritten" if rewritten else "reused")] += 1

    def desc(mod):
        ev = lambda t: str(mod.eval(t, model_completion=True))
        return dict(source_is_symlink=ev(y["is_link"]), link_mtime=ev(y["lm"]),
                    module_exists=r["has"], module_mtime=ev(y["mm"]), source_mtime=ev(y["sm"]), magic_matches=ev(y["magic_ok"]), module_magic=ev(y["magic"]), current_magic=CG.MAGIC_NUMBER,
                    module_generated_from_version=ev(y["mv"]), source_version=ev(y["sv"]), module_writer=r["uw"], rewritten=rewritten,
                    writer_calls=len(r["calls"]))

    def vc(name, formula):
        acc.vcs += 1
        st, mod = p.vc(formula)
        if st == "fails":
            acc.candidate(kind=name, input=desc(mod), detail=name)
        elif st == "unknown":
            acc.vcs_unknown += 1

    due = z3.Or(z3.Not(y["magic_ok"]), y["mm"] < y["sm"]) if r["has"] else z3.BoolVal(True)
    vc("rewrite-not-due" if rewritten else "rewrite-missed", due if rewritten else z3.Not(due))
    if rewritten:
        vc("loaded-module-not-fresh", r["mod"].version == y["sv"])
    else:
        vc("reused-module-wrong", z3.Implies(y["mv"] == y["sv"], r["mod"].version == y["sv"]))
    acc.vcs += 1
    if r["uw"]:
        ok = (len(r["calls"]) == (1 if rewritten else 0)) and all(isinstance(c[0], bytes) and c[1] == PATH for c in r["calls"])
        if not ok:
            acc.candidate(kind="module_writer-calls", input=desc(p.witness()), detail="calls=%d rewritten=%s" % (len(r["calls"]), rewritten))
    acc.sample(desc(p.witness()))


def h_crash(mode):
    def h(p):
        B, I = p.new_bool, p.new_int
        m_exists = B("module_exists")
        mm, sm, mv, sv, now = I("module_mtime"), I("source_mtime"), I("module_version"), I("source_version"), I("now")
        p.assume(z3.And(mm >= 0, sm >= 0, now >= sm, now >= mm, sv >= 1, mv >= 0, mv != sv))
        crash_at = I("crash_at") if mode == "crash" else None
        fault_at = I("fault_at") if mode == "fault" else None
        fs = FS(p, crash_at, fault_at)
        fs.now = now
        install(fs)
        data = types.SimpleNamespace(version=sv)
        fs.files[SRC] = dict(kind="source", data=data, mtime=sm, length=1, total=1)
        has = p.fork(m_exists)
        if has:
            # an older complete module generated from an earlier source version
            p.assume(mm < sm)
            fs.files[PATH] = dict(kind="module", version=mv, magic=CG.MAGIC_NUMBER, length=N, total=N, mtime=mm, original=True)
        t = mk_template([], False)
        died = None
        try:
            t._compile_from_file(PATH, SRC)
        except Crash:
            died = "crash"
        except OSError as e:
            died = "fault"
        fs.p.tag(died or "completed")
        snapshot = {k: dict(v) for k, v in fs.files.items()}
        # a later (or concurrent) constructor for the same source, no crash this time
        fs.crash_at = fs.fault_at = None
        fs.dead = False
        fs.fds.clear()
        later = None
        try:
            later = ("ok", mk_template([], False)._compile_from_file(PATH, SRC))
        except Exception as e:
            later = ("exc", e)
        return dict(fs=fs, snap=snapshot, has=has, died=died, where=fs.crashed_in, later=later, log=list(fs.log),
                    sym=dict(mm=mm, sm=sm, mv=mv, sv=sv))
    return h


def h_double(p):
    """the writer dies; the NEXT constructor dies too (at its own symbolic point); a third one must still work"""
    I = p.new_int
    mm, sm, mv, sv, now = I("module_mtime"), I("source_mtime"), I("module_version"), I("source_version"), I("now")
    p.assume(z3.And(mm >= 0, sm >= 0, now >= sm, now >= mm, sv >= 1, mv >= 0, mv != sv, mm < sm))
    c1, c2 = I("first_crash_at"), I("second_crash_at")
    fs = FS(p, c1, None)
    fs.now = now
    install(fs)
    fs.files[SRC] = dict(kind="source", data=types.SimpleNamespace(version=sv), mtime=sm, length=1, total=1)
    has = p.fork(p.new_bool("module_exists"))
    if has:
        fs.files[PATH] = dict(kind="module", version=mv, magic=CG.MAGIC_NUMBER, length=N, total=N, mtime=mm, original=True)
    deaths = []
    for crash_var in (c1, c2):
        fs.crash_at, fs.dead, fs.k = crash_var, False, 0
        fs.fds.clear()
        try:
            mk_template([], False)._compile_from_file(PATH, SRC)
            deaths.append(None)
        except Crash:
            deaths.append(fs.crashed_in)
        except OSError:
            deaths.append("oserror")
    snapshot = {k: dict(v) for k, v in fs.files.items()}
    fs.crash_at, fs.dead = None, False
    fs.fds.clear()
    try:
        later = ("ok", mk_template([], False)._compile_from_file(PATH, SRC))
    except Exception as e:
        later = ("exc", e)
    for d in deaths:
        p.tag("crash" if d else "completed")
    return dict(fs=fs, snap=snapshot, has=has, died="crash" if any(deaths) else None, where=deaths, later=later, log=list(fs.log),
                sym=dict(mm=mm, sm=sm, mv=mv, sv=sv))


def h_verifydir(p):
    """util.verify_directory: makedirs may fail (another process created a parent, permissions flapping, ...); the documented
    retry loop gives up only after more than five failed attempts"""
    fails = [p.new_bool("makedirs_fails_%d" % i) for i in range(8)]
    appears = p.new_bool("directory_appears_meanwhile")
    calls = []

    class P:
        @staticmethod
        def exists(d):
            return bool(calls) and calls[-1] == "ok" or (len(calls) >= 2 and p.fork(appears))

    def makedirs(d, mode=0o777):
        i = len(calls)
        if i < len(fails) and p.fork(fails[i]):
            calls.append("fail")
            raise OSError("mkdir failed")
        calls.append("ok")

    UT.os = types.SimpleNamespace(path=P, makedirs=makedirs)
    exc = None
    try:
        UT.verify_directory("/mods/sub")
    except OSError as e:
        exc = e
    return dict(calls=list(calls), exc=exc, fails=fails)


def h_loadrace(p):
    """two threads of one process load the module file of the same template at the same time (compat.load_module): every
    schedule of the two imports; the import of a module is a long step during which the other thread may run"""
    from .C16 import Sched
    CM = common.mako("compat")
    s = Sched(p)
    registry = {"os": object()}         # stands for sys.modules: template modules are not meant to live in it

    class Loader:
        def exec_module(self, module):
            s.point("exec_module: start")
            module.found_by_name = registry.get(module.__name__)     # module-level code may look its own module up by name
            s.point("exec_module: running")
            module.body_ran = True

    saved = (CM.util, CM.sys)
    CM.util = types.SimpleNamespace(spec_from_file_location=lambda mid, path: types.SimpleNamespace(name=mid, loader=Loader()),
                                    module_from_spec=lambda spec: types.ModuleType(spec.name))
    CM.sys = types.SimpleNamespace(modules=registry, exc_info=saved[1].exc_info)
    try:
        a = s.spawn("A", lambda: CM.load_module("u_html", "/mods/u.html.py"))
        b = s.spawn("B", lambda: CM.load_module("u_html", "/mods/u.html.py"))
        s.run()
    finally:
        CM.util, CM.sys = saved
    return dict(a=a, b=b, trace=list(s.trace), registry=registry)


def on_loadrace(p, r, exc, acc):
    if exc is not None:
        acc.candidate(kind="loadrace-harness-exception", input=None, detail="%s: %s" % (type(exc).__name__, str(exc)[:200]))
        return
    acc.tags["ran"] += 1
    acc.vcs += 3
    sched = [t for t, _w in r["trace"]]
    desc = dict(schedule="".join(sched), steps=["%s:%s" % x for x in r["trace"]])
    for t in (r["a"], r["b"]):
        if t.exc is not None:
            acc.candidate(kind="concurrent-load-raises", input=desc, detail="thread %s: %s: %s" % (t.name, type(t.exc).__name__, t.exc))
            return
        if not getattr(t.result, "body_ran", False):
            acc.candidate(kind="concurrent-load-incomplete", input=desc, detail="thread %s got a module whose body did not run" % t.name)
            return
    if r["a"].result is r["b"].result:
        acc.candidate(kind="concurrent-load-shares-module", input=desc, detail="both loads returned one module object")
    if set(r["registry"]) != {"os"}:
        acc.candidate(kind="concurrent-load-leaves-registry-entry", input=desc, detail="sys.modules keys afterwards: %r" % sorted(r["registry"]))
    acc.sample(desc)


def on_verifydir(p, r, exc, acc):
    if exc is not None:
        acc.candidate(kind="verify-directory-exception", input=None, detail="%s: %s" % (type(exc).__name__, str(exc)[:200]))
        return
    acc.tags["ran"] += 1
    calls = r["calls"]
    acc.vcs += 1
    nfail = calls.count("fail")
    desc = dict(makedirs_outcomes=calls, raised=r["exc"] is not None)
    if r["exc"] is not None and nfail <= 5:
        acc.candidate(kind="verify-directory-gave-up-early", input=desc, detail="raised after %d failed attempts" % nfail)
    if r["exc"] is None and calls and calls[-1] != "ok" and not any(c == "ok" for c in calls):
        pass
    if len(calls) > 8:
        acc.candidate(kind="verify-directory-loops", input=desc, detail="more than 8 attempts")
    acc.sample(desc)


def on_crash(p, r, exc, acc):
    if exc is not None:
        acc.candidate(kind="crash-harness-exception", input=None, detail=repr(exc)[:300])
        return
    y = r["sym"]
    for t in p.tags:
        acc.tags[t] += 1
    acc.counts["%s %s" % (r["died"] or "completed", r["where"])] += 1
    f = r["snap"].get(PATH)

    def desc(mod):
        ev = lambda t: str(mod.eval(t, model_completion=True))
        return dict(module_existed=r["has"], died=r["died"], where=r["where"], env_calls=r["log"],
                    module_path_after=None if f is None else dict(kind=f["kind"], bytes=ev(f["length"]) if isinstance(f["length"], z3.ExprRef) else f["length"], of=f["total"]),
                    later=r["later"][0] if r["later"] else None)

    acc.vcs += 1
    if f is not None:
        if f["kind"] != "module":
            acc.candidate(kind="module-path-holds-garbage", input=desc(p.witness()), detail="an unfilled temporary file is visible at the module path")
        else:
            ln = f["length"]
            st, mod = p.vc((ln == f["total"]) if isinstance(ln, z3.ExprRef) else z3.BoolVal(ln == f["total"]))
            if st == "fails":
                acc.candidate(kind="module-path-half-written", input=desc(mod), detail="")
    acc.vcs += 1
    if r["later"][0] != "ok":
        acc.candidate(kind="later-template-fails", input=desc(p.witness()), detail=repr(r["later"][1])[:200])
    else:
        st, mod = p.vc(r["later"][1].version == y["sv"])
        if st == "fails":
            acc.candidate(kind="later-template-stale", input=desc(mod), detail="")
    acc.sample(desc(p.witness()))


# ------------------------------------------------------------------ after a rewrite the current source is rendered: cached sections
INSTANTS = [(1000.1, 1000.6), (1000.1, 1001.2), (1000.95, 1001.0), (1000.4, 1000.41), (1000.2, 1003.7)]


def h_starttime(p):
    return dict(instants=INSTANTS[p.choose(len(INSTANTS), "fill_and_regeneration_instants")])


def on_starttime(p, r, exc, acc):
    got, want = realproc.call("starttime_probe", *r["instants"])
    acc.replayed += 1
    acc.tags["ran"] += 1
    acc.vcs += 1
    if got != want:
        acc.candidate(kind="cached-section-survives-rewrite", input=dict(fill_at=r["instants"][0], regenerated_at=r["instants"][1]),
                      detail="rendered %r, the current source gives %r" % (got, want))
    acc.sample(dict(fill_at=r["instants"][0], regenerated_at=r["instants"][1], rendered=got))



def make_replay(c):
    body = '''
# replay of a module-file scenario against the real Template / file system
import os, tempfile, shutil, time, importlib
CASE = %r
KIND = %r
print("scenario:", CASE)
from mako.template import Template
import mako.template as TP
from mako import codegen
bad = None
if "fill_at" in CASE:
    sys.path.insert(0, "/verif")
    from props.realops import starttime_probe
    got, want = starttime_probe(CASE["fill_at"], CASE["regenerated_at"])
    print("cache filled by the old module at", CASE["fill_at"], ", module regenerated at", CASE["regenerated_at"], ":", repr(got), " expected", repr(want))
    print("VIOLATED: after the rewrite the cached output of the old source is served" if got != want else "HOLDS")
    sys.exit(1 if got != want else 0)
# a scenario in which shutil.move had to copy needs the module directory on another file system than the system temp directory
cross = any(str(x).startswith("copy") for x in CASE.get("env_calls", []))
shm = "/dev/shm"
if cross and os.path.isdir(shm) and os.stat(shm).st_dev != os.stat(tempfile.gettempdir()).st_dev:
    base = tempfile.mkdtemp(prefix="c15replay", dir=shm)
elif cross:
    print("no second file system available: cannot be reproduced here"); print("HOLDS (not reproduced)"); sys.exit(0)
else:
    base = tempfile.mkdtemp(prefix="c15replay")
try:
    src = os.path.join(base, "u.html"); mods = os.path.join(base, "mods")
    if "module_mtime" in CASE:
        # staleness decision
        open(src, "w").write("version-new")
        now = time.time()
        calls = []
        writer = None
        if CASE["module_writer"]:
            def writer(source, path):
                calls.append((source, path)); open(path, "wb").write(source)
        if CASE["module_exists"]:
            same = CASE["module_generated_from_version"] == CASE["source_version"]
            open(src, "w").write("version-new" if same else "version-old")
            t0 = Template(filename=src, module_directory=mods, uri="u.html")
            mp = os.path.join(mods, "u.html.py")
            open(src, "w").write("version-new")
            if CASE["magic_matches"] != "True":
                s = open(mp).read().replace("_magic_number = %%r" %% codegen.MAGIC_NUMBER, "_magic_number = %%r" %% int(CASE["module_magic"]))
                open(mp, "w").write(s)
            os.utime(mp, (now - 1000 + int(CASE["module_mtime"]), now - 1000 + int(CASE["module_mtime"])))
            before = open(mp, "rb").read()
        os.utime(src, (now - 1000 + int(CASE["source_mtime"]), now - 1000 + int(CASE["source_mtime"])))
        if CASE.get("source_is_symlink") == "True":
            # the template path is a symbolic link to the real file; the link has an mtime of its own
            os.rename(src, src + ".target"); os.symlink(src + ".target", src)
            os.utime(src, (now - 1000 + int(CASE["link_mtime"]), now - 1000 + int(CASE["link_mtime"])), follow_symlinks=False)
        del calls[:]
        t = Template(filename=src, module_directory=mods, uri="u.html", module_writer=writer)
        mp = os.path.join(mods, "u.html.py")
        out = t.render()
        rewritten = (not CASE["module_exists"]) or open(mp, "rb").read() != before or bool(calls)
        due = (not CASE["module_exists"]) or CASE["magic_matches"] != "True" or int(CASE["module_mtime"]) < int(CASE["source_mtime"])
        print("rendered", repr(out), "rewritten", rewritten, "due", due, "writer calls", len(calls))
        if rewritten != due: bad = "module %%s although a rewrite was %%s" %% ("rewritten" if rewritten else "reused", "due" if due else "not due")
        elif (rewritten or CASE["module_generated_from_version"] == CASE["source_version"]) and out != "version-new": bad = "renders %%r" %% out
        elif CASE["module_writer"] and len(calls) != (1 if due else 0): bad = "module_writer called %%d times" %% len(calls)
    elif "schedule" in CASE:
        # two real threads load one module file; the module's own code holds the first import open until the second has finished
        import threading
        from mako import compat
        mp = os.path.join(base, "u_html.py")
        open(mp, "w").write("import builtins\\nbuiltins._c15_rendezvous()\\nvalue = 1\\n")
        import builtins
        first_inside, second_done = threading.Event(), threading.Event()
        order = []
        def rendezvous():
            order.append(threading.current_thread().name)
            if len(order) == 1:
                first_inside.set(); second_done.wait(5)
        builtins._c15_rendezvous = rendezvous
        errs, keys_before = [], set(sys.modules)
        def load(name):
            try:
                m = compat.load_module("u_html", mp)
                assert m.value == 1
            except BaseException as e:
                errs.append("%%s: %%s: %%r" %% (name, type(e).__name__, e))
        ta = threading.Thread(target=load, args=("A",), name="A"); ta.start()
        first_inside.wait(5)
        tb = threading.Thread(target=load, args=("B",), name="B"); tb.start(); tb.join(); second_done.set(); ta.join()
        print("errors:", errs, " new sys.modules keys:", sorted(set(sys.modules) - keys_before))
        if errs: bad = "concurrent load of one module file failed: " + "; ".join(errs)
        elif "u_html" in set(sys.modules) - keys_before: bad = "the template module was left in sys.modules"
    elif "makedirs_outcomes" in CASE:
        from mako import util
        outcomes = list(CASE["makedirs_outcomes"])
        target = os.path.join(base, "mods", "sub")
        real_makedirs = os.makedirs
        calls = [0]
        def flaky(d, mode=0o777, exist_ok=False):
            i = calls[0]; calls[0] += 1
            if i < len(outcomes) and outcomes[i] == "fail":
                raise OSError("transient failure (e.g. another process is creating the same parent directory)")
            return real_makedirs(d, mode)
        os.makedirs = flaky
        try:
            util.verify_directory(target); raised = False
        except OSError:
            raised = True
        finally:
            os.makedirs = real_makedirs
        nfail = outcomes.count("fail")
        print("makedirs attempts made:", calls[0], "raised:", raised, "directory exists:", os.path.isdir(target))
        if raised and nfail <= 5: bad = "verify_directory gave up after %%d failed attempt(s); it retries until more than five have failed" %% nfail
        elif not raised and not os.path.isdir(target): bad = "verify_directory returned without the directory existing"
    else:
        # crash scenario: kill the writer at the recorded point by making the corresponding call raise
        open(src, "w").write("version-old")
        if CASE["module_existed"]:
            Template(filename=src, module_directory=mods, uri="u.html")
            mp = os.path.join(mods, "u.html.py")
            os.utime(mp, (time.time() - 100, time.time() - 100))
        open(src, "w").write("version-new")
        where = CASE["where"]
        # the writer runs in a child process that really dies (os._exit) at the recorded point: no flush, no cleanup
        child = """
import os, sys, shutil, tempfile
sys.path.insert(0, os.environ.get("MAKO_TREE", "/repo"))
where = %%r
target = {"write": (os, "write"), "close": (os, "close"), "rename": (shutil, "move"), "mkstemp": (tempfile, "mkstemp")}.get(where[1] if where else "")
if target:
    mod_, name_ = target
    orig = getattr(mod_, name_)
    os_write = os.write
    def dying(*a, **k):
        if where[0] == "fault":
            setattr(mod_, name_, orig)          # the fault is transient: this one call fails, the process lives on
            raise OSError(28, "No space left on device (injected)")
        if where[0] == "before": os._exit(9)
        if where[0] == "during":
            os_write(a[0], a[1][: len(a[1]) // 2]); os._exit(9)
        r = orig(*a, **k); os._exit(9)
    setattr(mod_, name_, dying)
elif where and str(where[1]).startswith("copy"):
    # shutil.move across file systems: rename fails, the destination is opened (truncated), filled and closed
    def move(src, dst):
        try:
            os.rename(src, dst); return
        except OSError:
            pass
        if where == ("before", "copy-open"): os._exit(9)
        fd = os.open(dst, os.O_WRONLY | os.O_CREAT | os.O_TRUNC)
        if where in (("after", "copy-open"), ("before", "copy-write")): os._exit(9)
        data = open(src, "rb").read()
        if where[0] == "during": os.write(fd, data[: len(data) // 2]); os._exit(9)
        os.write(fd, data); os._exit(9)
    where = tuple(where)
    shutil.move = move
from mako.template import Template
Template(filename=%%r, module_directory=%%r, uri="u.html")
""" %% (where, src, mods)
        import subprocess
        subprocess.run([sys.executable, "-c", child], env=dict(os.environ, PYTHONDONTWRITEBYTECODE="1"))
        mp = os.path.join(mods, "u.html.py")
        if os.path.exists(mp):
            try:
                compile(open(mp, "rb").read(), mp, "exec")
            except SyntaxError:
                bad = "module path holds a truncated file"
            if not bad and os.path.getsize(mp) == 0: bad = "module path holds an empty file"
        if not bad:
            try:
                out = Template(filename=src, module_directory=mods, uri="u.html").render()
                print("later template renders", repr(out))
                if out != "version-new": bad = "later Template renders %%r" %% out
            except Exception as e:
                bad = "later Template fails: %%s: %%s" %% (type(e).__name__, e)
finally:
    shutil.rmtree(base, ignore_errors=True)
print("VIOLATED: " + bad if bad else "HOLDS (not reproduced through the public API)")
sys.exit(1 if bad else 0)
''' % (c["input"], c["kind"])
    return (c["kind"], body, (c["kind"], repr(c["input"])))


def classify(c):
    return None


def run(check, tier):
    setup()
    check.encode(*kernel())
    check.assume(
        "file system model: files are records (kind, generated-from version, magic matches, bytes present, total bytes, mtime); "
        "rename within one file system is atomic (POSIX contract), shutil.move across file systems is a copy (open-truncate, write, "
        "possibly torn) plus removal, and the system temporary directory may be another file system than module_directory; every environment call made while writing is a crash point "
        "(before / after), os.write may be torn at any symbolic prefix length, and any call may fail with OSError",
        "os.fdopen / open(...,'w') return a buffered file whose data reaches the file only at flush/close",
        "code generation is stubbed: _compile returns a source object carrying the version of the text it was generated from; "
        "compat.load_module returns a module for a complete file and raises SyntaxError for a truncated one",
        "concurrent constructors: 'a second constructor run on the state left by a crash', plus two threads inside compat.load_module for "
        "the same module id under every schedule (importlib replaced by stubs whose exec_module yields to the scheduler)")
    check.not_claimed("real kernels / file systems / NFS", "simultaneous writers beyond the sequentialisation above", "verify_directory races")
    jobs = [("C15-decide", h_decide, on_decide, "staleness decision from an arbitrary module/source state",
             dict(state="module exists?, module mtime, source mtime, magic equal?, versions, module_writer?"), ("rewritten", "reused")),
            ("C15-crash", h_crash("crash"), on_crash, "writer dies at a symbolic environment call (before / after / torn write), then a later constructor runs",
             dict(crash_points="all environment calls of the write path"), ("crash", "completed")),
            ("C15-fault", h_crash("fault"), on_crash, "a symbolic environment call fails with OSError, then a later constructor runs",
             dict(fault_points="all environment calls"), ("fault", "completed"))]
    jobs.append(("C15-starttime", h_starttime, on_starttime, "cached page with a backend honouring Cache.starttime: filled by the old module, "
                 "then the module is regenerated within / after the same clock second", dict(instants=INSTANTS), ("ran",)))
    jobs.append(("C15-verifydir", h_verifydir, on_verifydir, "verify_directory with symbolic makedirs failures", dict(attempts=8), ("ran",)))
    jobs.append(("C15-loadrace", h_loadrace, on_loadrace, "two threads load the same module file: every schedule of the two imports",
                 dict(threads=2, scheduling_points="start and middle of each module execution"), ("ran",)))
    if tier == "thorough":
        jobs.append(("C15-double", h_double, on_crash, "two successive writers die at independent symbolic points, then a third constructor runs",
                     dict(crash_points="all x all"), ("crash",)))
    for j in jobs:
        driver.register(j[0], j[1], j[2])
    cands = []
    for name, _h, _o, title, bounds, req in jobs:
        st, acc = driver.explore(name, time_limit=600)
        check.section(title, st, acc, bounds, tags_required=req)
        cands.extend(acc.candidates)
    check.confirm(cands, make_replay, classify)
    driver.close_pool()
