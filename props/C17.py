"""C17 - cached sections run once per key and replay their exact output."""
import z3

from symx import core, values, driver
from . import common, c17backend as BK

TP = CA = LK = None
LEVEL = "exploration"


def setup():
    global TP, CA, LK
    if TP is not None:
        return
    TP, CA, LK = common.mako("template", "cache", "lookup")
    BK.install(CA.CacheImpl)
    CA.register_plugin("refdict", "props.c17backend", "RefDict")
    CA.register_plugin("refdictctx", "props.c17backend", "RefDictCtx")


def kernel():
    C = CA.Cache
    return [C.__init__, C._ctx_get_or_create, C._get_cache_kw, C.get_or_create, C.set, C.get, C.invalidate, C.invalidate_body,
            C.invalidate_def, C.invalidate_closure, TP.Template._setup_cache_args]


def source(f):
    """template under configuration flags f"""
    page = []
    if f["page_cached"]:
        page.append('cached="True"')
    if f["page_timeout"]:
        page.append('cache_timeout="20"')
    if f["page_region"]:
        page.append('cache_region="pg"')
    src = ("<%%page %s/>" % " ".join(page)) if page else ""
    dattr = 'cached="True"' + (' cache_timeout="5"' if f["def_timeout"] else "") + (' cache_key="${kx}"' if f["def_key"] else "")
    src += "body${count('body')}|${d()}|${outer()}|"
    src += '<%block name="blk" cached="True"' + (' cache_region="bk"' if f["blk_region"] else "") + ">B${count('blk')}</%block>|${bf()}"
    src += '<%%def name="d()" %s>D${count(\'d\')}</%%def>' % dattr
    src += '<%def name="outer()">O<%def name="inner()" cached="True">I${count(\'inner\')}</%def>${inner()}</%def>'
    src += '<%def name="bf()" cached="True" buffered="True" filter="up">f${count(\'bf\')}</%def>'
    return src


OPS = ["render-c1", "render-c2", "invalidate_body", "invalidate_def-d", "invalidate_closure-inner", "invalidate-render_blk", "invalidate_def-bf",
       "toggle-enabled"]


class Model:
    """the statement as a model: a section's body runs iff caching is off or the backend has no value for its key"""

    def __init__(self, f):
        self.f = f
        self.store = {}
        self.enabled = True
        self.counts = {}

    def count(self, name):
        self.counts[name] = self.counts.get(name, 0) + 1
        return str(self.counts[name])

    def section(self, key, body):
        if not self.enabled:
            return body()
        if key not in self.store:
            self.store[key] = body()
        return self.store[key]

    def render(self, kx):
        def body():
            out = "body" + self.count("body") + "|"
            out += self.section(kx if self.f["def_key"] else "render_d", lambda: "D" + self.count("d")) + "|"
            out += "O" + self.section("inner", lambda: "I" + self.count("inner")) + "|"
            out += self.section("render_blk", lambda: "B" + self.count("blk")) + "|"
            out += self.section("render_bf", lambda: ("f" + self.count("bf")).upper())
            return out
        if self.f["page_cached"]:
            return self.section("render_body", body)
        return body()

    def op(self, name):
        if name == "invalidate_body":
            self.store.pop("render_body", None)
        elif name == "invalidate_def-d":
            self.store.pop("render_d", None)
        elif name == "invalidate_closure-inner":
            self.store.pop("inner", None)
        elif name == "invalidate-render_blk":
            self.store.pop("render_blk", None)
        elif name == "invalidate_def-bf":
            self.store.pop("render_bf", None)
        elif name == "toggle-enabled":
            self.enabled = not self.enabled


def run_ops(TPmod, f, ops, backend="refdict"):
    """execute an operation sequence on the real template; returns list of (op, output, counts) and the backend log"""
    BK.reset()
    counts = {}

    def count(name):
        counts[name] = counts.get(name, 0) + 1
        return str(counts[name])

    kw = {}
    if f["tmpl_args"]:
        kw["cache_args"] = {"timeout": 99, "region": "tm", "extra": 1}
    t = TPmod.Template(source(f), uri="c17.html", cache_impl=backend, **kw)
    res = []
    for op in ops:
        out = None
        if op.startswith("render"):
            who = op.split("-")[1]
            out = t.render(count=count, up=lambda s: s.upper(), kx="key-" + who, who=who)
        elif op == "invalidate_body":
            t.cache.invalidate_body()
        elif op == "invalidate_def-d":
            t.cache.invalidate_def("d")
        elif op == "invalidate_closure-inner":
            t.cache.invalidate_closure("inner")
        elif op == "invalidate-render_blk":
            t.cache.invalidate("render_blk")
        elif op == "invalidate_def-bf":
            t.cache.invalidate_def("bf")
        elif op == "toggle-enabled":
            t.cache_enabled = not t.cache_enabled
        res.append((op, out, dict(counts)))
    return res, list(BK.LOG)


FLAGS = ["page_cached", "page_timeout", "page_region", "def_timeout", "def_key", "blk_region", "tmpl_args"]


def h_seq(n, full_flags):
    def h(p):
        f = {k: (bool(p.choose(2, k)) if (full_flags or k in ("page_cached", "def_key")) else False) for k in FLAGS}
        ops = ["render-c1"] + [OPS[p.choose(len(OPS), "op%d" % i)] for i in range(n)] + ["render-c1"]
        if n <= 1:
            # an operation on the cache before the template was ever rendered
            k = p.choose(len(OPS) + 1, "operation_before_the_first_render")
            if k:
                ops = [OPS[k - 1]] + ops
        res, log = run_ops(TP, f, ops)
        return dict(f=f, ops=ops, res=res, log=log)
    return h


def expected(f, ops):
    m = Model(f)
    out = []
    for op in ops:
        if op.startswith("render"):
            out.append((op, m.render("key-" + op.split("-")[1]), dict(m.counts)))
        else:
            m.op(op)
            out.append((op, None, dict(m.counts)))
    return out


def expected_kw(f, section):
    """backend arguments: Template cache_args overridden by <%page cache_*> overridden by the section's own; timeout an int"""
    kw = {}
    if f["tmpl_args"]:
        kw.update({"timeout": 99, "region": "tm", "extra": 1})
    if f["page_timeout"]:
        kw["timeout"] = 20
    if f["page_region"]:
        kw["region"] = "pg"
    if section == "render_d" and f["def_timeout"]:
        kw["timeout"] = 5
    if section == "render_blk" and f["blk_region"]:
        kw["region"] = "bk"
    return kw


def on_seq(p, r, exc, acc):
    if exc is not None:
        acc.candidate(kind="harness-exception", input=None, detail="%s: %s" % (type(exc).__name__, str(exc)[:200]))
        return
    acc.tags["ran"] += 1
    f, ops = r["f"], r["ops"]
    want = expected(f, ops)
    desc = dict(flags=f, ops=ops)
    acc.vcs += 1
    for (op, out, counts), (_o, wout, wcounts) in zip(r["res"], want):
        if out != wout or counts != wcounts:
            acc.candidate(kind="cached-section-execution", input=desc,
                          detail="after %s: rendered %r with body executions %r; documented %r with %r" % (op, out, counts, wout, wcounts))
            break
    # backend arguments of every get_or_create
    acc.vcs += 1
    for kind, cid, key, kw in r["log"]:
        if kind != "get_or_create":
            continue
        sect = {"key-c1": "render_d", "key-c2": "render_d"}.get(key, key)
        if sect not in ("render_d", "render_blk", "render_body", "inner", "render_bf"):
            continue
        exp = expected_kw(f, sect)
        got = {k: v for k, v in kw.items() if k != "context"}
        if got != exp or ("timeout" in got and type(got["timeout"]) is not int) or "context" in kw:
            acc.candidate(kind="backend-arguments", input=desc, detail="section %s received %r, documented %r" % (sect, kw, exp))
            break
    acc.sample(desc)


def h_ctx(p):
    """a backend that asks for the context must get the context of the CURRENT render, every time"""
    f = {k: False for k in FLAGS}
    n = 2 + p.choose(2, "renders")
    whos = ["c%d" % (1 + p.choose(2, "who%d" % i)) for i in range(n)]
    BK.reset()
    t = TP.Template(source(f), uri="c17ctx.html", cache_impl="refdictctx")
    seen = []
    for w in whos:
        del BK.LOG[:]
        t.render(count=lambda name: "1", up=lambda s: s.upper(), kx="k", who=w)
        seen.append([(key, kw.get("context").get("who") if kw.get("context") is not None else None) for kind, cid, key, kw in BK.LOG if kind == "get_or_create"])
    return dict(whos=whos, seen=seen)


def on_ctx(p, r, exc, acc):
    if exc is not None:
        acc.candidate(kind="harness-exception", input=None, detail="%s: %s" % (type(exc).__name__, str(exc)[:200]))
        return
    acc.tags["ran"] += 1
    acc.vcs += 1
    for w, calls in zip(r["whos"], r["seen"]):
        if not calls or any(who != w for _k, who in calls):
            acc.candidate(kind="stale-context-passed", input=dict(renders=r["whos"]), detail="render for %r passed contexts of %r" % (w, calls))
            break
    acc.sample(dict(renders=r["whos"]))


def h_two(p):
    """two templates sharing one backend: entries of one are never served to the other"""
    seps = "-_./ab"
    a = "t" + seps[p.choose(len(seps), "sep_a")] + "x.html"
    b = "t" + seps[p.choose(len(seps), "sep_b")] + "x.html"
    if a == b:
        raise core.Abort("same uri")
    BK.reset()
    lk = LK.TemplateLookup(cache_impl="refdict")
    lk.put_string(a, '<%def name="d()" cached="True">A</%def>${d()}')
    lk.put_string(b, '<%def name="d()" cached="True">B</%def>${d()}')
    oa = lk.get_template(a).render()
    ob = lk.get_template(b).render()
    return dict(a=a, b=b, oa=oa, ob=ob)


def on_two(p, r, exc, acc):
    if exc is not None:
        acc.candidate(kind="harness-exception", input=None, detail="%s: %s" % (type(exc).__name__, str(exc)[:200]))
        return
    acc.tags["ran"] += 1
    acc.vcs += 1
    if r["oa"] != "A" or r["ob"] != "B":
        acc.candidate(kind="cache-entry-served-to-other-template", input=dict(uris=[r["a"], r["b"]]), detail="rendered %r / %r" % (r["oa"], r["ob"]))
    acc.sample(dict(uris=[r["a"], r["b"]]))



# ------------------------------------------------------------------ cached sections along an inheritance chain: each template owns its entries
INH_FILES = {
    "base": '<%def name="nav()" cached="True">base-nav${count("bn")}</%def><%block name="side" cached="True">base-side${count("bs")}</%block>B(${nav()}|${next.body()})',
    "child": '<%inherit file="base"/><%namespace name="lib" file="lib"/><%def name="nav()" cached="True">child-nav${count("cn")}</%def>${nav()}~${lib.nav()}~${local.get_namespace("lib").nav()}',
    "child2": '<%inherit file="base"/><%namespace name="lib" file="lib"/><%def name="nav()" cached="True">child2-nav${count("c2n")}</%def>${nav()}~${lib.nav()}~${local.get_namespace("lib").nav()}',
    "lib": '<%def name="nav()" cached="True">lib-nav${count("ln")}</%def>',
}
INH_OPS = ["render-child", "render-child2", "invalidate_def-nav@base", "invalidate_def-nav@child", "invalidate-render_side@base", "invalidate_def-nav@lib"]


def inh_run(LKm, ops):
    BK.reset()
    counts = {}

    def count(name):
        counts[name] = counts.get(name, 0) + 1
        return str(counts[name])
    lk = LKm.TemplateLookup(cache_impl="refdict")
    for k, v in INH_FILES.items():
        lk.put_string(k, v)
    res = []
    for op in ops:
        out = None
        if op.startswith("render-"):
            try:
                out = lk.get_template(op[7:]).render(count=count)
            except Exception as e:
                out = "raised %s: %s" % (type(e).__name__, e)
        elif op.startswith("invalidate_def-"):
            name, tmpl = op[len("invalidate_def-"):].split("@")
            lk.get_template(tmpl).cache.invalidate_def(name)
        else:
            key, tmpl = op[len("invalidate-"):].split("@")
            lk.get_template(tmpl).cache.invalidate(key)
        res.append((op, out, dict(counts)))
    return res


def inh_expected(ops):
    store, counts, out = {}, {}, []

    def sect(owner, key, text, counter):
        if (owner, key) not in store:
            counts[counter] = counts.get(counter, 0) + 1
            store[(owner, key)] = text + str(counts[counter])
        return store[(owner, key)]
    for op in ops:
        o = None
        if op.startswith("render-"):
            who = op[7:]
            # the side block is declared by base only: it renders at its position in base - which precedes B( - from base's own cache
            o = sect("base", "render_side", "base-side", "bs") + "B(" + sect("base", "render_nav", "base-nav", "bn") + "|" + \
                sect(who, "render_nav", who + "-nav", {"child": "cn", "child2": "c2n"}[who]) + "~" + \
                sect("lib", "render_nav", "lib-nav", "ln") + "~" + sect("lib", "render_nav", "lib-nav", "ln") + ")"
        elif op.startswith("invalidate_def-"):
            name, tmpl = op[len("invalidate_def-"):].split("@")
            store.pop((tmpl, "render_" + name), None)
        else:
            key, tmpl = op[len("invalidate-"):].split("@")
            store.pop((tmpl, key), None)
        out.append((op, o, dict(counts)))
    return out


def h_inherit(n):
    def h(p):
        ops = ["render-child"] + [INH_OPS[p.choose(len(INH_OPS), "op%d" % i)] for i in range(n)] + ["render-child", "render-child2"]
        return dict(ops=ops, res=inh_run(LK, ops))
    return h


def on_inherit(p, r, exc, acc):
    if exc is not None:
        acc.candidate(kind="harness-exception", input=None, detail="%s: %s" % (type(exc).__name__, str(exc)[:200]))
        return
    acc.tags["ran"] += 1
    acc.vcs += 1
    want = inh_expected(r["ops"])
    for (op, out, counts), (_o, wout, wcounts) in zip(r["res"], want):
        if out != wout or counts != wcounts:
            acc.candidate(kind="cached-section-in-inheritance-chain", input=dict(inherit_ops=r["ops"]),
                          detail="after %s: rendered %r with executions %r; documented %r with %r" % (op, out, counts, wout, wcounts))
            break
    else:
        acc.good("cached-section-in-inheritance-chain", dict(inherit_ops=r["ops"]))
    acc.sample(dict(ops=r["ops"]))


# ------------------------------------------------------------------ cache_key built from several pieces
KEY_SPELLINGS = ["${ka}/${kb}", "${ka} ${kb}", "${ka}\t${kb}", " ${ka}${kb} ", "${ka}${kb}", "k ${ka} - ${kb}"]
KEY_VALUES = [("1", "23"), ("12", "3"), ("", "123"), ("1", "23 ")]


def key_run(TPm, spelling, pairs):
    BK.reset()
    n = [0]

    def count():
        n[0] += 1
        return str(n[0])
    t = TPm.Template('<%def name="d()" cached="True" cache_key="' + spelling + '">D${count()}</%def>${d()}', uri="c17key.html", cache_impl="refdict")
    outs = [t.render(count=count, ka=a, kb=b) for a, b in pairs]
    return outs, [key for kind, cid, key, kw in BK.LOG if kind == "get_or_create"]


def key_expected(spelling, pairs):
    seen, outs, keys = {}, [], []
    for a, b in pairs:
        k = spelling.replace("${ka}", a).replace("${kb}", b)
        keys.append(k)
        if k not in seen:
            seen[k] = "D%d" % (len(seen) + 1)
        outs.append(seen[k])
    return outs, keys


def h_key(p):
    sp = KEY_SPELLINGS[p.choose(len(KEY_SPELLINGS), "cache_key_spelling")]
    pairs = [KEY_VALUES[p.choose(len(KEY_VALUES), "values%d" % i)] for i in range(2)]
    return dict(spelling=sp, pairs=pairs, got=key_run(TP, sp, pairs))


def on_key(p, r, exc, acc):
    if exc is not None:
        acc.candidate(kind="harness-exception", input=None, detail="%s: %s" % (type(exc).__name__, str(exc)[:200]))
        return
    acc.tags["ran"] += 1
    acc.vcs += 1
    want = key_expected(r["spelling"], r["pairs"])
    if (list(r["got"][0]), list(r["got"][1])) == (want[0], want[1]):
        acc.good("cache-key-value", dict(cache_key=r["spelling"], values=r["pairs"]))
    if (list(r["got"][0]), list(r["got"][1])) != (want[0], want[1]):
        acc.candidate(kind="cache-key-value", input=dict(cache_key=r["spelling"], values=r["pairs"]),
                      detail="outputs %r with backend keys %r; documented %r with keys %r" % (r["got"][0], r["got"][1], want[0], want[1]))
    acc.sample(dict(cache_key=r["spelling"], values=r["pairs"], keys=r["got"][1]))


# ------------------------------------------------------------------ the Beaker plugin with the real Beaker
def h_beakerargs(p):
    return dict(cfg=dict(section=["plain", "timeout", "region"][p.choose(3, "section_configuration")],
                         dir_level=["memory", "none", "template", "page", "section"][p.choose(5, "cache_dir_given_at")],
                         module_directory=bool(p.choose(2, "module_directory"))))


def on_beakerargs(p, r, exc, acc):
    from symx import realproc
    res = realproc.call("beaker_probe", r["cfg"])
    acc.replayed += 1
    acc.tags["ran"] += 1
    if res is None or isinstance(res, str):
        acc.counts[res or "Beaker is not installed"] += 1
        return
    acc.vcs += 2
    if res["outputs"] != res["want_outputs"]:
        acc.candidate(kind="beaker-replays-predecessor", input=dict(beaker=r["cfg"]), detail="outputs %r, expected %r" % (res["outputs"], res["want_outputs"]))
    elif res["want_dirs"] is not None and res["dirs"] != res["want_dirs"]:
        acc.candidate(kind="beaker-cache-directory", input=dict(beaker=r["cfg"]), detail="cache files under %r, configured %r" % (res["dirs"], res["want_dirs"]))
    acc.sample(dict(r["cfg"], outputs=res["outputs"], cache_files_in=res["dirs"]))



# ------------------------------------------------------------------ a cached def is called like the uncached one
CSIGS = ["a", "a, b=2", "a, b=2, *rest", "a, *rest, k=3", "a, b=2, *rest, k=3, **kw", "a, b=2, **kw"]
CCALLS = ["1", "1, 5", "1, 5, 6, 7", "1, b=5", "1, k=9", "1, 5, 6, k=9, z=0"]


def cargs_run(TPm, sig, call, cached):
    BK.reset()
    names = [x.strip().lstrip("*").split("=")[0] for x in sig.split(",")]
    show = ", ".join("%s" % n for n in names)
    src = '<%def name="d(' + sig + ')" cached="' + str(cached) + '">${repr((' + show + ',))}</%def>${d(' + call + ')}'
    try:
        return TPm.Template(src, uri="c17args.html", cache_impl="refdict").render()
    except Exception as e:
        return "raised %s" % type(e).__name__


def h_cargs(p):
    sig = CSIGS[p.choose(len(CSIGS), "signature")]
    call = CCALLS[p.choose(len(CCALLS), "call")]
    return dict(sig=sig, call=call, got=cargs_run(TP, sig, call, True), ref=cargs_run(TP, sig, call, False))


def on_cargs(p, r, exc, acc):
    if exc is not None:
        acc.candidate(kind="harness-exception", input=None, detail="%s: %s" % (type(exc).__name__, str(exc)[:200]))
        return
    acc.tags["ran"] += 1
    acc.vcs += 1
    if r["got"] != r["ref"]:
        acc.candidate(kind="cached-def-arguments", input=dict(cached_signature=r["sig"], call=r["call"]), detail="cached: %r, uncached: %r" % (r["got"], r["ref"]))
    acc.sample(dict(signature=r["sig"], call=r["call"], output=r["got"]))



def make_replay(c):
    i = c["input"] or {}
    if "cached_signature" in i:
        body = """
sys.path.insert(0, "/verif")
CASE = __CASE__
import mako.template as TP, mako.cache as CA
from props import C17, c17backend as BK
BK.install(CA.CacheImpl)
CA.register_plugin("refdict", "props.c17backend", "RefDict")
got, ref = C17.cargs_run(TP, CASE["cached_signature"], CASE["call"], True), C17.cargs_run(TP, CASE["cached_signature"], CASE["call"], False)
print("def d(%s) called as d(%s): cached %s, uncached %s" % (CASE["cached_signature"], CASE["call"], got, ref))
bad = None if got == ref else "a cached def does not receive its arguments as the uncached def does"
print("VIOLATED: " + bad if bad else "HOLDS")
sys.exit(1 if bad else 0)
""".replace("__CASE__", repr(i))
        return (c["kind"], body, repr(sorted(i.items(), key=str)))
    if "beaker" in i:
        body = """
sys.path.insert(0, "/verif")
CASE = __CASE__
from props.realops import beaker_probe
res = beaker_probe(CASE["beaker"])
print("configuration:", CASE["beaker"]); print("outputs (render, render, render after the template was replaced):", res["outputs"], " expected", res["want_outputs"])
print("cache files under:", res["dirs"], " configured:", res["want_dirs"])
bad = None
if res["outputs"] != res["want_outputs"]: bad = "a template replaced under its URI replays its predecessor's cached output"
elif res["want_dirs"] is not None and res["dirs"] != res["want_dirs"]: bad = "the cache directory given at the innermost level is not the one the backend writes to"
print("VIOLATED: " + bad if bad else "HOLDS")
sys.exit(1 if bad else 0)
""".replace("__CASE__", repr(i))
        return (c["kind"], body, repr(sorted(i["beaker"].items(), key=str)))

    if "inherit_ops" in i or "cache_key" in i:
        body = """
sys.path.insert(0, "/verif")
CASE = __CASE__
import mako.lookup as LK, mako.template as TP, mako.cache as CA
from props import C17, c17backend as BK
BK.install(CA.CacheImpl)
CA.register_plugin("refdict", "props.c17backend", "RefDict")
bad = None
if "inherit_ops" in CASE:
    for k, v in C17.INH_FILES.items(): print("---", k); print(v)
    got, want = C17.inh_run(LK, CASE["inherit_ops"]), C17.inh_expected(CASE["inherit_ops"])
    for g, w in zip(got, want):
        print(g[0], "->", g[1], g[2], " documented:", w[1], w[2])
        if (g[1], g[2]) != (w[1], w[2]) and not bad: bad = "after %s a cached section was executed / replayed for the wrong template" % g[0]
else:
    got, want = C17.key_run(TP, CASE["cache_key"], [tuple(x) for x in CASE["values"]]), C17.key_expected(CASE["cache_key"], [tuple(x) for x in CASE["values"]])
    print("cache_key", repr(CASE["cache_key"]), "values", CASE["values"])
    print("outputs", got[0], "keys", got[1]); print("documented", want[0], "keys", want[1])
    if (list(got[0]), list(got[1])) != (want[0], want[1]): bad = "the key handed to the backend is not the value of cache_key"
print("VIOLATED: " + bad if bad else "HOLDS")
sys.exit(1 if bad else 0)
""".replace("__CASE__", repr(i))
        return (c["kind"], body, repr(sorted(i.items(), key=str)))
    body = """
sys.path.insert(0, "/verif")
CASE = __CASE__
KIND = __KIND__
import mako.template as TP, mako.cache as CA
from mako.lookup import TemplateLookup
from props import C17, c17backend as BK
BK.install(CA.CacheImpl)
CA.register_plugin("refdict", "props.c17backend", "RefDict")
CA.register_plugin("refdictctx", "props.c17backend", "RefDictCtx")
bad = None
print("case:", CASE)
if "ops" in CASE:
    f, ops = CASE["flags"], CASE["ops"]
    res, log = C17.run_ops(TP, f, ops)
    want = C17.expected(f, ops)
    for (op, out, counts), (_o, wout, wcounts) in zip(res, want):
        print(op, "->", repr(out), counts, "| documented", repr(wout), wcounts)
        if (out != wout or counts != wcounts) and not bad: bad = "after %s the cached sections were (not) executed contrary to the statement" % op
    for kind, cid, key, kw in log:
        if kind != "get_or_create": continue
        sect = {"key-c1": "render_d", "key-c2": "render_d"}.get(key, key)
        exp = C17.expected_kw(f, sect)
        got = {k: v for k, v in kw.items() if k != "context"}
        if got != exp or ("timeout" in got and type(got["timeout"]) is not int):
            print("backend arguments for", sect, kw, "documented", exp); bad = bad or "backend arguments are not Template < page < section"
elif "renders" in CASE:
    BK.reset()
    t = TP.Template(C17.source({k: False for k in C17.FLAGS}), uri="c17ctx.html", cache_impl="refdictctx")
    for w in CASE["renders"]:
        del BK.LOG[:]
        t.render(count=lambda n: "1", up=lambda s: s.upper(), kx="k", who=w)
        got = [kw["context"].get("who") for kind, cid, key, kw in BK.LOG if kind == "get_or_create" and kw.get("context") is not None]
        print("render for", w, "-> backend saw contexts of", got)
        if not got or any(g != w for g in got): bad = "the backend was handed the context of another render"
else:
    a, b = CASE["uris"]
    BK.reset()
    lk = TemplateLookup(cache_impl="refdict")
    lk.put_string(a, '<%def name="d()" cached="True">A</%def>${d()}'); lk.put_string(b, '<%def name="d()" cached="True">B</%def>${d()}')
    oa, ob = lk.get_template(a).render(), lk.get_template(b).render()
    print(a, "->", oa, ";", b, "->", ob)
    if (oa, ob) != ("A", "B"): bad = "a cached section of one template was served to another"
print("VIOLATED: " + bad if bad else "HOLDS")
sys.exit(1 if bad else 0)
""".replace("__CASE__", repr(i)).replace("__KIND__", repr(c["kind"]))
    return (c["kind"], body, repr(i))


def classify(c):
    i = c.get("input") or {}
    if c["kind"] == "cache-entry-served-to-other-template":
        import re
        a, b = i["uris"]
        if a != b and re.sub(r"\W", "_", a) == re.sub(r"\W", "_", b):
            return "C08-module-id-collision"
    return None


def run(check, tier):
    setup()
    check.encode(*kernel())
    check.assume(
        "an in-tree reference dict backend (props/c17backend.py) is registered through mako's real plugin mechanism; one variant sets pass_context",
        "operation sequences render, <n solver-chosen operations from %r>, render run on the real compiled template of a corpus with a cached "
        "page (optional), def (optional cache_key expression), nested def, named block and buffered+filtered def; the expected outputs and "
        "body-execution counters come from a model of the statement (a body runs iff caching is off or the backend has no value for its key)" % (OPS,),
        "argument layering: presence of cache arguments at Template / <%page> / section level is solver-chosen")
    check.not_claimed("Beaker / dogpile back ends (third-party, I/O)", "expiry by wall-clock time")
    jobs = []
    N = {"quick": 2, "thorough": 3}[tier]
    for n in range(0, N + 1):
        jobs.append(("C17-seq-%d" % n, h_seq(n, n <= 1), on_seq, "render, %d solver-chosen operations, render (%s configuration flags)" % (n, "all" if n <= 1 else "two"),
                     dict(ops=n, alphabet=OPS), ("ran",)))
    for n in range(0, {"quick": 2, "thorough": 4}[tier] + 1):
        jobs.append(("C17-inherit-%d" % n, h_inherit(n), on_inherit, "cached defs / block of a base template and two templates inheriting it: render, %d solver-chosen operations, two renders" % n,
                     dict(ops=n, operations=INH_OPS), ("ran",)))
    jobs.append(("C17-beaker", h_beakerargs, on_beakerargs, "the Beaker plugin with the real Beaker: section configured plain / timeout / region, cache directory "
                 "given at no / Template / <%page> / section level or memory, module directory on / off; a template replaced under its URI", dict(), ("ran",)))
    jobs.append(("C17-args", h_cargs, on_cargs, "a cached def with positional / defaulted / *args / keyword-only / ** parameters called in several ways, against the "
                 "same def uncached", dict(signatures=CSIGS, calls=CCALLS), ("ran",)))
    jobs.append(("C17-key", h_key, on_key, "cache_key built from several pieces x two solver-chosen value pairs", dict(spellings=KEY_SPELLINGS, values=KEY_VALUES), ("ran",)))
    jobs.append(("C17-ctx", h_ctx, on_ctx, "pass_context backend over 2-3 renders with solver-chosen contexts", dict(), ("ran",)))
    jobs.append(("C17-two", h_two, on_two, "two templates whose URIs differ in one solver-chosen character share a backend", dict(), ("ran",)))
    for j in jobs:
        driver.register(j[0], j[1], j[2])
    cands = []
    goods = []
    for name, _h, _o, title, bounds, req in jobs:
        st, acc = driver.explore(name, time_limit=1200)
        check.section(title, st, acc, bounds, tags_required=req)
        cands.extend(acc.candidates)
        goods.extend(acc.goods)
    check.confirm(cands, make_replay, classify, max_confirm=16, goods=goods)
    driver.close_pool()
