"""C01 - literal text and the documented escapes are reproduced exactly; lexing terminates."""
import itertools
import time
import types
import z3

from symx import core, values, driver, realproc, symre
from symx.values import SymStr, SymChar, sym_string, str_eq_term, cv, conc
from oracles import tokenizer
from . import common

L = PT = EXC = None
DOMAIN = None


def setup():
    global L, PT, EXC, DOMAIN, NS
    if L is not None:
        return
    L, PT, EXC = common.mako("lexer", "parsetree", "exceptions")
    PG = common.mako("pygen")
    PT.ast = common.stub_ast_namespace()
    # adjust_whitespace (re-margining of <% %> blocks; its correctness is C19's subject) runs for real: it is part of "lexing terminates"

    class StubTag(PT.Node):
        """records keyword/attributes; tag semantics are other properties' subject"""

        def __init__(self, keyword, attributes, **kw):
            super().__init__(**kw)
            self.keyword = keyword
            self.attributes = attributes
            self.nodes = []
            self.parent = None

    NS = types.SimpleNamespace(**{k: v for k, v in vars(PT).items() if not k.startswith("__")})
    NS.Tag = StubTag
    L.parsetree = NS
    DOMAIN = common.domain_for([L, PT, PG], reps=2)
    values.set_domain(DOMAIN)


KERNEL = lambda: [L.Lexer.parse, L.Lexer.match_reg, L.Lexer.match, L.Lexer.match_end, L.Lexer.match_text, L.Lexer.match_percent,
                  L.Lexer.match_control_line, L.Lexer.match_comment, L.Lexer.match_tag_start, L.Lexer.match_tag_end,
                  L.Lexer.match_expression, L.Lexer.match_python_block, L.Lexer.parse_until_text, L.Lexer.append_node,
                  L.Lexer.decode_raw_stream, PT.Text.__init__, PT.Comment.__init__]


PREPROCESSORS = {
    None: None,
    "prepend-banner": lambda t: "B:" + t,
    "append-footer": lambda t: t + "\n:F",
    "expand-shorthand": lambda t: t.replace("@", "${x}"),
}


def run_lexer(s, pre=None):
    """real Lexer.parse on SymStr `s` with span recording"""
    lx = L.Lexer(s, preprocessor=PREPROCESSORS[pre]) if pre else L.Lexer(s)
    rec = []  # (mp, start, end, new_position, matched_lineno, matched_charpos)
    orig = lx.match_reg

    def match_reg(reg):
        mp = lx.match_position
        m = orig(reg)
        if m:
            if lx.match_position <= mp and not (m.start() == m.end()):
                raise core.EngineError("match did not advance")
            rec.append((mp, m.start(), m.end(), lx.match_position, lx.matched_lineno, lx.matched_charpos))
        return m

    lx.match_reg = match_reg
    exc = tree = None
    try:
        tree = lx.parse()
    except (EXC.SyntaxException, EXC.CompileException) as e:
        exc = e
    return dict(s=s, tree=tree, exc=exc, rec=rec, lx=lx)


def flat(nodes):
    out = []
    for n in nodes:
        t = type(n).__name__
        if t == "Text":
            out.append(("Text", n.content, n.lineno, n.pos))
        elif t == "Comment":
            out.append(("Comment", n.text, n.lineno, n.pos))
        elif t == "ControlLine":
            out.append(("ControlLine", n.keyword, n.isend, n.text, n.lineno, n.pos))
        elif t == "Expression":
            out.append(("Expression", n.text, n.escapes_code.code, n.lineno, n.pos))
        elif t == "Code":
            out.append(("Code", n.text, n.ismodule, n.lineno, n.pos))
        else:
            out.append(("Tag", n.keyword, _attrs(n.attributes), n.lineno, n.pos, tuple(flat(n.nodes))))
    return out


def _attrs(d):
    from symx.loader import IdKey
    return ("attrs", [((k.v if isinstance(k, IdKey) else k), v) for k, v in d.items()])


def conc_flat(x, m):
    if isinstance(x, tuple) and len(x) == 2 and x[0] == "attrs":
        return tuple(sorted((conc(k, m), conc(v, m)) for k, v in x[1]))
    if isinstance(x, (tuple, list)):
        return tuple(conc_flat(i, m) for i in x)
    return conc(x, m)


def text_output(nodes, out):
    """concatenation of Text contents in document order (bodies of <%text> included)"""
    for n in nodes:
        t = type(n).__name__
        if t == "Text":
            out.extend(values._items(n.content))
        elif hasattr(n, "nodes") and t != "ControlLine":
            text_output(n.nodes, out)
    return out


def pos_terms(s, mp):
    """(lineno, col) of offset mp as z3 terms: 1 + #newlines before mp ; mp - index of last newline before mp"""
    items = s.items
    line = 1
    last = z3.IntVal(-1)
    for k in range(min(mp, len(items))):
        c = items[k]
        isnl = (cv(c) == 10) if isinstance(c, SymChar) else z3.BoolVal(c == "\n")
        line = line + z3.If(isnl, 1, 0)
        last = z3.If(isnl, z3.IntVal(k), last)
    return line, mp - last


def make_harness(n=None, skeleton=None, pre=None):
    def h(p):
        if skeleton is None:
            s = sym_string(n)
        else:
            items = []
            for part in skeleton:
                if isinstance(part, int):
                    items.extend(sym_string(part, "h%d_" % len(items)).items)
                else:
                    items.extend(part)
            s = SymStr(items)
        p.note("template", s)
        r = run_lexer(s, pre)
        p.tag("raised" if r["exc"] is not None else "parsed")
        r["input"] = s
        r["pre"] = pre
        if pre:
            # what the lexer is meant to lex is the preprocessed text
            s = values.lift(PREPROCESSORS[pre](s))
            r["s"] = s
        # the reference tokenizer runs on the same symbolic string, on the same path
        r["readings"] = tokenizer.readings(s.items)
        return r
    return h


def on_path(p, r, exc, acc):
    if isinstance(exc, core.PathTimeout):
        t = exc.inputs.get("template")
        acc.candidate(kind="lexing-does-not-terminate", input=t, pre=None, raw=t, detail=str(exc))
        return
    if exc is not None:
        # anything but a Mako Syntax/Compile exception escaping the lexer
        w = None
        try:
            w = p.witness()
        except BaseException:
            pass
        acc.candidate(kind="crash", input=None if w is None else _witness_of(p, exc), detail="%s: %s" % (type(exc).__name__, str(exc)[:200]))
        return
    s = r["s"]
    n = len(s)
    m = p.witness()
    w = s.concretize(m)
    acc.counts["raised" if r["exc"] is not None else "parsed"] += 1
    for t in p.tags:
        acc.tags[t] += 1
    # ---- layer 1: accounting over the recorded spans (positions are concrete per path, characters symbolic)
    prev_end = None
    for (mp, a, b, newpos, ml, mc) in r["rec"]:
        if a != mp:
            acc.anomalies.append(dict(kind="match-start", input=w, at=mp))
        if prev_end is not None and mp != prev_end:
            acc.anomalies.append(dict(kind="non-contiguous", input=w, at=mp))
        prev_end = newpos
        if newpos == b + 1 and b < n:
            acc.anomalies.append(dict(kind="skipped-char", input=w, at=b))
            acc.counts["skipped_char_paths"] += 1
        line, col = pos_terms(s, mp)
        acc.vcs += 1
        st, mod = p.vc(z3.And(line == ml, col == mc))
        if st == "fails":
            acc.candidate(kind="position", input=s.concretize(mod), detail="match at offset %d reported (%s,%s)" % (mp, ml, mc))
        elif st == "unknown":
            acc.vcs_unknown += 1
    if r["exc"] is None and prev_end is not None and prev_end < n:
        acc.anomalies.append(dict(kind="stopped-early", input=w, at=prev_end))
    # ---- layer 2: reference tokenizer
    reads = r["readings"]
    kinds = {x[1][0] for x in reads}
    acc.counts["R:" + "+".join(sorted(kinds))] += 1
    if "dir" not in kinds:
        if r["exc"] is not None:
            if "exc" not in kinds:
                acc.vcs += 1
                acc.candidate(kind="raises-on-text", input=w, pre=r.get("pre"), raw=r["input"].concretize(m), detail="%s at (%s,%s); reference: plain text" % (
                    type(r["exc"]).__name__, r["exc"].lineno, r["exc"].pos))
        else:
            got = text_output(r["tree"].nodes, [])
            alts = [str_eq_term(SymStr(got), SymStr(x[1][1])) for x in reads if x[1][0] == "out"]
            acc.vcs += 1
            if not alts:
                acc.candidate(kind="no-exception", input=w, pre=r.get("pre"), raw=r["input"].concretize(m), detail="reference requires a Mako exception")
            else:
                st, mod = p.vc(z3.Or(alts))
                if st == "fails":
                    w2 = s.concretize(mod)
                    acc.candidate(kind="text-mismatch", input=w2, pre=r.get("pre"), raw=r["input"].concretize(mod),
                                  detail="text nodes %r" % (SymStr(got).concretize(mod),))
                elif st == "unknown":
                    acc.vcs_unknown += 1
    # ---- layer 3: differential replay of this path's witness on the unpatched real lexer
    try:
        real = realproc.call("lex_structure", r["input"].concretize(m) if r.get("pre") else w, r.get("pre"))
    except realproc.RealTimeout as e:
        acc.candidate(kind="lexing-does-not-terminate", input=w, pre=r.get("pre"), raw=r["input"].concretize(m), detail=str(e))
        return
    if r["exc"] is not None:
        mine = ("exc", type(r["exc"]).__name__, r["exc"].lineno, r["exc"].pos)
    else:
        mine = ("ok", conc_flat(flat(r["tree"].nodes), m))
    acc.replayed += 1
    if _norm(real) != _norm(mine):
        raise core.EngineError("engine/real-code disagreement on %r:\n real=%r\n mine=%r" % (w, real, mine))
    if len(acc.samples) < 6:
        acc.sample(dict(witness=w, path_decisions=len(p.trace), result=("%s" % (mine,))[:200], reference=sorted(kinds)))


def _plain(x):
    if isinstance(x, tuple):
        return tuple(_plain(i) for i in x)
    if isinstance(x, list):
        return [_plain(i) for i in x]
    return x


def _norm(x):
    if isinstance(x, (list, tuple)):
        return tuple(_norm(i) for i in x)
    return x


def _witness_of(p, exc):
    return None


# ------------------------------------------------------------------ skeletons (concrete directive material + holes)
SKELETONS = {
    "doc": [1, "<%doc>", 1, "</%doc>", 1],
    "text": [1, "<%text>", 1, "</%text>", 1],
    "comment-line": [1, "##", 1, "\n", 1],
    "continuation": [1, "\\\n", 1],
    "continuation-crlf": [1, "\\\r\n", 1],
    "pct-escape": [1, "%%", 1],
    "pct-escape-line": [1, "\n%%", 1],
    "expr": [1, "${x}", 1],
    "ctl": [1, "\n% if x:\n", 1, "\n% endif\n", 1],
    "stray-close": [1, "</%", 1],
    "def": [1, "<%def name=\"d()\">", 1, "</%def>", 1],
    "crlf": [1, "\r\n", 1, "\r\n", 1],
    "block": [1, "<% x=1 %>", 1],
    "doc-nl": ["a<%doc>", 1, "</%doc>", 1, "b"],
    "empty-text": [1, "<%text></%text>", 1],
    "coding": ["# coding: utf-8\n", 2],
    "block-with-literal": ["<% x = '", 1, "' %>", 1],
    "block-with-continued-literal": ["<%\n x = 'a", 1, "\\\n", 1, "b'\n%>"],
    "block-with-comment": ["<% x = 1 #", 2, "\n%>"],
}


def make_replay(c):
    w = c["input"]
    body = '''
TEMPLATE = %r
KIND = %r
PRE, RAW = %r, %r
sys.path.insert(0, "/verif")
from oracles import tokenizer
from mako.template import Template
from mako import exceptions
from props.realops import _PRE
import signal
def _alarm(*a):
    print("template:", repr(TEMPLATE)); print("VIOLATED: lexing this template does not terminate (no result after 8 s)"); os._exit(1)
signal.signal(signal.SIGALRM, _alarm); signal.alarm(8)
try:
    out = ("ok", Template(RAW, preprocessor=_PRE[PRE]).render_unicode(x="${x}") if PRE else Template(TEMPLATE).render_unicode())
except (exceptions.SyntaxException, exceptions.CompileException) as e:
    out = ("exc", type(e).__name__)
except Exception as e:
    out = ("err", type(e).__name__, str(e))
signal.alarm(0)
admissible = set()
for pol, r in tokenizer.readings(list(TEMPLATE)):
    admissible.add(("ok", "".join(r[1])) if r[0] == "out" else (r[0],))
print("template  :", repr(TEMPLATE))
print("rendered  :", out)
print("admissible:", sorted(admissible))
if ("dir",) in admissible or any(a[0] == "dir" for a in admissible):
    print("reference does not determine this input"); sys.exit(0)
ok = (out in admissible) or (out[0] == "exc" and ("exc",) in admissible)
if KIND == "crash" and out[0] == "err": ok = False
print("HOLDS" if ok else "VIOLATED: source text outside directives is not reproduced exactly")
sys.exit(0 if ok else 1)
''' % (w, c["kind"], c.get("pre"), c.get("raw"))
    return (c["kind"], body, ("text", w, c.get("pre")))


def classify(c):
    """map a confirmed counterexample to a listed finding id (characteristic predicate over the witness)"""
    w = c.get("input") or ""
    return None


def run(check, tier):
    setup()
    check.encode(*KERNEL())
    check.assume(
        "characters are abstracted to %d representative code points: one per class of code points the lexer's regexes, "
        "string constants and str methods cannot tell apart (all of ASCII kept individually); sound because the lexer "
        "inspects characters only through such tests (any other operation on a symbolic character aborts the run)" % len(DOMAIN.cps),
        "embedded Python is not parsed: mako.parsetree.ast is replaced by recording stubs; pygen.adjust_whitespace runs for real (its result is C19's subject, its termination is part of this property)",
        "tag construction is replaced by a recording stub (tag attribute semantics: C05/C07/C11)",
        "reference tokenizer oracles/tokenizer.py states the expected output; where the statement is ambiguous it admits each reading "
        "(bare CR inside a ##/% line; newline after </%doc>; non-blank whitespace before a line-leading %%)")
    check.not_claimed("strings longer than the bound that are not instances of a skeleton", "preprocessors other than the three modelled (prepend / append / expand)",
                      "polynomial degree of lexing time (only exponential ambiguity of regex loops is searched)")
    Lmax = {"quick": 4, "thorough": 6}[tier]
    tl = {"quick": 200, "thorough": 3000}[tier]
    cands = []
    jobs = []
    for n in range(0, Lmax + 1):
        jobs.append(("C01-F%d" % n, make_harness(n=n), "full-symbolic template of length %d" % n,
                     {"symbolic_chars": n, "domain_size": len(DOMAIN.cps)}, ("parsed",)))
    hole = {"quick": 1, "thorough": 2}[tier]
    for name, sk in SKELETONS.items():
        sk2 = [(min(x, hole) if isinstance(x, int) else x) for x in sk]
        if tier == "thorough":
            sk2 = [(hole if isinstance(x, int) else x) for x in sk]
            nsym = sum(x for x in sk2 if isinstance(x, int))
            while nsym > 5:
                for i in range(len(sk2) - 1, -1, -1):
                    if isinstance(sk2[i], int) and sk2[i] > 1:
                        sk2[i] -= 1
                        break
                else:
                    break
                nsym = sum(x for x in sk2 if isinstance(x, int))
        jobs.append(("C01-S-" + name, make_harness(skeleton=sk2),
                     "skeleton %s %r" % (name, ["?" * x if isinstance(x, int) else x for x in sk2]),
                     {"symbolic_chars": sum(x for x in sk2 if isinstance(x, int))}, ()))
    for pre in PREPROCESSORS:
        if pre:
            k = {"quick": 2, "thorough": 3}[tier]
            jobs.append(("C01-P-" + pre, make_harness(n=k, pre=pre), "preprocessor %s over %d symbolic characters" % (pre, k),
                         {"symbolic_chars": k, "preprocessor": pre}, ("parsed",)))
    for j in jobs:
        driver.register(j[0], j[1], on_path)
    import os
    if os.environ.get("C01_ONLY"):          # development aid: run one part only
        jobs = [j for j in jobs if j[0].startswith(os.environ["C01_ONLY"])]
    for name, _h, title, bounds, req in jobs:
        st, acc = driver.explore(name, time_limit=tl)
        check.section(title, st, acc, bounds, tags_required=req)
        cands.extend(acc.candidates)
    from . import C01_time, C01_py
    C01_time.run(check, tier, cands)
    check.confirm(cands, make_replay, classify)
    pycands = []
    C01_py.run(check, tier, pycands)
    check.confirm(pycands, C01_py.make_replay, classify)
    driver.close_pool()
    realproc.shutdown()


def _anoms(check, acc):
    pass
