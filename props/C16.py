"""C16 - concurrent lookups behave like some sequential execution (scheduling points at lock operations, file-system
probes, template construction, LRU timestamping and LRU eviction key reads; 2 logical threads, every schedule)."""
import threading as _threading
import types
import z3

from symx import core, values, driver
from symx.values import SymInt
from . import common

LK = UT = EXC = None
LEVEL = "exploration"


def setup():
    global LK, UT, EXC
    if LK is not None:
        return
    LK, UT, EXC = common.mako("lookup", "util", "exceptions")
    ORIG.update(os=LK.os, Template=LK.Template, threading=LK.threading, timeit=UT.timeit, operator=UT.operator)


def kernel():
    T = LK.TemplateLookup
    return [T.get_template, T._check, T._load, T.put_template, UT.LRUCache.__getitem__, UT.LRUCache.__setitem__, UT.LRUCache._manage_size]


ORIG = {}


class Deadlock(Exception):
    pass


class Sched:
    """baton scheduler: logical threads are real threads, exactly one runs at a time; at every scheduling point the next
    thread to run is a solver-explored choice among the runnable ones"""

    def __init__(self, p, preempt_bound=None, trace_codes=()):
        self.p = p
        self.preempt_bound = preempt_bound
        self.trace_codes = {c: n for c, n in trace_codes}     # code object -> label: every line of these functions is a scheduling point
        self.preemptions = 0
        self.last = None
        self.threads = []
        self.cur = None
        self.main_evt = _threading.Event()
        self.trace = []
        self.dead = False

    def spawn(self, name, fn):
        t = types.SimpleNamespace(name=name, fn=fn, evt=_threading.Event(), done=False, blocked_on=None, result=None, exc=None, th=None)

        def tracer(frame, event, arg):
            label = self.trace_codes.get(frame.f_code)
            if label is None:
                return None

            def local(frame, event, arg):
                if event == "line":
                    self.point("%s:%d" % (label, frame.f_lineno))
                return local
            return local

        def run():
            t.evt.wait()
            t.evt.clear()
            try:
                if self.trace_codes:
                    import sys as _sys
                    _sys.settrace(tracer)
                t.result = fn()
            except BaseException as e:   # engine exceptions travel to the main thread too
                t.exc = e
            finally:
                if self.trace_codes:
                    import sys as _sys
                    _sys.settrace(None)
            t.done = True
            self.main_evt.set()

        t.th = _threading.Thread(target=run, daemon=True)
        self.threads.append(t)
        t.th.start()
        return t

    def point(self, what):
        """called by the running logical thread: give the baton back to the scheduler"""
        t = self.cur
        if t is None or self.dead:
            return
        self.trace.append((t.name, what))
        self.main_evt.set()
        t.evt.wait()
        t.evt.clear()
        if self.dead:
            raise SystemExit

    def run(self):
        core_cur = core.CUR
        while True:
            runnable = [t for t in self.threads if not t.done and (t.blocked_on is None or not t.blocked_on.held)]
            if not runnable:
                if any(not t.done for t in self.threads):
                    self.dead = True
                    for t in self.threads:
                        t.evt.set()
                    raise Deadlock([t.name for t in self.threads if not t.done])
                return
            if self.preempt_bound is not None and self.last in runnable and self.preemptions >= self.preempt_bound:
                t = self.last                      # preemption budget used up: the running thread continues
            else:
                i = self.p.choose(len(runnable), "next") if len(runnable) > 1 else 0
                t = runnable[i]
                if self.last in runnable and t is not self.last:
                    self.preemptions += 1
            self.last = t
            t.blocked_on = None
            self.cur = t
            core.CUR = core_cur
            self.main_evt.clear()
            t.evt.set()
            self.main_evt.wait()
            self.cur = None
            for x in self.threads:
                if x.exc is not None and isinstance(x.exc, (core.ProxyLeak, core.EngineError, core.Infeasible)):
                    self.dead = True
                    raise x.exc


class SymLock:
    def __init__(self, sched):
        self.sched = sched
        self.held = False
        self.owner = None

    def acquire(self, blocking=True, timeout=-1):
        s = self.sched
        s.point("lock.acquire")
        while self.held:
            s.cur.blocked_on = self
            s.point("lock.wait")
        self.held = True
        self.owner = s.cur
        return True

    def release(self):
        if not self.held:
            raise RuntimeError("release unlocked lock")
        self.held = False
        self.owner = None
        self.sched.point("lock.release")

    def locked(self):
        return self.held

    def __enter__(self):
        self.acquire()
        return self

    def __exit__(self, *a):
        self.release()


SCENARIOS = {
    # name: (collection_size, [thread programs]) ; a program is a list of (op, uri)
    "same-uri-first-request": (-1, [[("get", "a")], [("get", "a")]]),
    "different-uris": (-1, [[("get", "a")], [("get", "b")]]),
    "modify-then-get-vs-get": (-1, [[("touch", "a"), ("get", "a")], [("get", "a")]]),
    "failing-compile-vs-get": (-1, [[("get", "bad")], [("get", "a")]]),
    "bounded-put-vs-put": (1, [[("put", "a"), ("put", "b")], [("put", "c")]]),
    "bounded-get-vs-put": (1, [[("get", "a"), ("get", "b")], [("put", "c")]]),
}
# three threads, at most two preemptions (a switch away from a thread that could have continued)
SCENARIOS3 = {
    "three-same-uri": (-1, [[("get", "a")], [("get", "a")], [("get", "a")]]),
    "three-mixed": (-1, [[("get", "a")], [("get", "b")], [("get", "bad")]]),
    "three-bounded": (1, [[("put", "a")], [("put", "b")], [("get", "c")]]),
}


def h_sched(name):
    size, programs = SCENARIOS[name] if name in SCENARIOS else SCENARIOS3[name]

    def h(p):
        sched = Sched(p, None if name in SCENARIOS else 2)
        constructed = []
        mtime = {"a": 10, "b": 10, "c": 10, "bad": 10}
        clock = [100.0]

        class FakeTemplate:
            def __init__(self, text=None, filename=None, uri=None, lookup=None, module_filename=None, **kw):
                sched.point("Template.begin")
                if uri == "bad":
                    raise EXC.CompileException("syntax error", "", 0, 0, filename)
                self.filename, self.uri = filename, uri
                self.read_mtime = mtime[uri]
                clock[0] += 1
                self.module = types.SimpleNamespace(_modified_time=clock[0])
                self.complete = False
                sched.point("Template.end")
                self.complete = True
                constructed.append(self)

        class OsPath:
            sep = "/"

            @staticmethod
            def isfile(path):
                sched.point("isfile")
                return True

        class Os:
            path = OsPath
            sep = "/"

            @staticmethod
            def stat(path):
                sched.point("stat")
                return {LK.stat.ST_MTIME: mtime[path.rsplit("/", 1)[1]]}

        LK.os = Os
        LK.Template = FakeTemplate
        LK.threading = types.SimpleNamespace(Lock=lambda: SymLock(sched))
        ticks = [0]

        def timer():
            sched.point("lru.timestamp")
            ticks[0] += 1
            return ticks[0]

        def attrgetter(attr):
            def get(obj):
                sched.point("lru.eviction-key")
                return getattr(obj, attr)
            return get

        UT.timeit = types.SimpleNamespace(default_timer=timer)
        UT.operator = types.SimpleNamespace(attrgetter=attrgetter)
        lk = LK.TemplateLookup(["/d"], filesystem_checks=True, collection_size=size)
        started = {}

        def make(prog, idx):
            def body():
                out = []
                for op, uri in prog:
                    if op == "get":
                        started[(idx, uri)] = mtime.get(uri)
                        try:
                            out.append(("get", uri, lk.get_template(uri)))
                        except Exception as e:
                            out.append(("get", uri, e))
                    elif op == "touch":
                        sched.point("touch")
                        mtime[uri] = clock[0] + 5      # modified well after anything compiled so far
                        clock[0] += 10
                        out.append(("touch", uri, None))
                    elif op == "put":
                        t = types.SimpleNamespace(uri=uri, filename=None, complete=True)
                        try:
                            lk.put_template(uri, t)
                            out.append(("put", uri, t))
                        except Exception as e:
                            out.append(("put", uri, e))
                return out
            return body

        ths = [sched.spawn("T%d" % i, make(prog, i)) for i, prog in enumerate(programs)]
        dead = None
        try:
            sched.run()
        except Deadlock as e:
            dead = e
        return dict(name=name, results=[t.result for t in ths], excs=[t.exc for t in ths], constructed=list(constructed), lk=lk, trace=list(sched.trace),
                    deadlock=dead, size=size, mtime=dict(mtime))
    return h


# ------------------------------------------------------------------ concurrent renders of one Template
RENDER_FILES = {
    "/base": "<html>${sp()}${self.title()}|${next.body()}|${sp()}</html><%def name='title()'>base-${who}</%def>",
    "/lib": "<%def name='box(x)'>[${sp()}${x}:${who}${caller.body() if caller else ''}]</%def>",
    "/main": "<%inherit file='/base'/><%namespace name='lib' file='/lib'/>"
             "<%def name='title()'>T-${who}${sp()}</%def>"
             "<%def name='row(i)'>${sp()}r${i}${who}</%def>\n"
             "% for i in range(2):\n${loop.index}${row(i)}${sp()}\n% endfor\n"
             "<%lib:box x='${who}'>in-${who}${sp()}</%lib:box>${capture(row, 9)}<%include file='/inc'/>",
    "/inc": "inc-${who}${sp()}",
}


def h_render(p):
    import mako.lookup as RLK      # rendering is not stubbed, only scheduled: undo the stubs of the lookup scenarios
    LK.os, LK.Template, LK.threading = ORIG["os"], ORIG["Template"], ORIG["threading"]
    UT.timeit, UT.operator = ORIG["timeit"], ORIG["operator"]
    sched = Sched(p, 3)
    lk = RLK.TemplateLookup()
    for k, v in RENDER_FILES.items():
        lk.put_string(k, v)
    t = lk.get_template("/main")
    solo = {}
    for who in ("A", "B"):
        solo[who] = t.render(who=who, sp=lambda: "")

    def sp():
        sched.point("template")
        return ""

    def make(who):
        return lambda: t.render(who=who, sp=sp)

    ths = [sched.spawn("T%d" % i, make(w)) for i, w in enumerate(("A", "B"))]
    dead = None
    try:
        sched.run()
    except Deadlock as e:
        dead = e
    return dict(solo=solo, results=[x.result for x in ths], excs=[x.exc for x in ths], trace=list(sched.trace), deadlock=dead)



# ------------------------------------------------------------------ first use of lazily initialised shared state, line by line
FIRSTUSE_TEMPLATE = ('<%def name="d()" cached="True" cache_timeout="10" cache_key="k">D</%def>'
                     '<%def name="e()" cached="True" cache_key="k2">E</%def>${d()}${e()}${d()}')


def firstuse_targets(CA, UTm):
    return [(CA.Cache._get_cache_kw.__code__, "_get_cache_kw"), (UTm.memoized_property.__get__.__code__, "memoized_property"),
            (CA.Cache.__init__.__code__, "Cache.__init__"), (CA.Cache._ctx_get_or_create.__code__, "_ctx_get_or_create")]


def h_firstuse(p):
    CA, TPm = common.mako("cache", "template")
    from . import c17backend as BK
    LK.os, LK.Template, LK.threading = ORIG["os"], ORIG["Template"], ORIG["threading"]
    UT.timeit, UT.operator = ORIG["timeit"], ORIG["operator"]
    BK.install(CA.CacheImpl)
    CA.register_plugin("refdict", "props.c17backend", "RefDict")
    BK.reset()
    sched = Sched(p, 2, trace_codes=firstuse_targets(CA, UT))
    t = TPm.Template(FIRSTUSE_TEMPLATE, cache_impl="refdict")        # a fresh Template: nothing initialised yet
    ths = [sched.spawn(n, lambda: t.render()) for n in ("A", "B")]
    dead = None
    try:
        sched.run()
    except Deadlock as e:
        dead = e
    return dict(results=[x.result for x in ths], excs=[x.exc for x in ths], trace=list(sched.trace), deadlock=dead, log=list(BK.LOG))


def on_firstuse(p, r, exc, acc):
    if exc is not None:
        acc.candidate(kind="harness-exception", input=None, detail="%s: %s" % (type(exc).__name__, str(exc)[:300]))
        return
    acc.tags["asserted"] += 1
    desc = dict(scenario="first-use", schedule=[("%s:%s" % x) for x in r["trace"]])
    acc.vcs += 3
    if r["deadlock"] is not None or any(e is not None for e in r["excs"]):
        acc.candidate(kind="render-thread-failed", input=desc, detail=repr(r["excs"]))
        return
    if r["results"] != ["DED", "DED"]:
        acc.candidate(kind="render-output-depends-on-interleaving", input=desc, detail="renders gave %r" % (r["results"],))
        return
    # what reached the cache backend: every request for def d carries d's own arguments, every request for e carries none
    for op, cid, key, kw in r["log"]:
        want = {"timeout": 10} if key == "k" else {}
        if kw != want:
            acc.candidate(kind="first-use-cache-arguments", input=desc, detail="backend %s(%r) received %r, alone it receives %r" % (op, key, kw, want))
            return
    if len(acc.samples) < 6:
        acc.sample(dict(schedule_length=len(r["trace"]), backend_calls=len(r["log"])))


# ------------------------------------------------------------------ the Beaker plugin under two renders, line by line
class FakeBeakerManager:
    """stands for beaker.cache.CacheManager (handed over through cache_args['manager'], the plugin's documented hook):
    records what each cache call receives"""

    def __init__(self, log):
        self.log = log
        self.store = {}

    def get_cache(self, name, **kw):
        mgr = self

        class C:
            def get(self, key, createfunc=None, **args):
                mgr.log.append((key, dict(args)))
                if key not in mgr.store:
                    mgr.store[key] = createfunc()
                return mgr.store[key]

            def put(self, key, value, **args):
                mgr.store[key] = value

            def remove_value(self, key, **args):
                mgr.store.pop(key, None)
        return C()

    get_cache_region = lambda self, name, region, **kw: self.get_cache(name, **kw)


def h_beaker(p):
    CA, TPm = common.mako("cache", "template")
    BC = common.mako("ext.beaker_cache")
    LK.os, LK.Template, LK.threading = ORIG["os"], ORIG["Template"], ORIG["threading"]
    UT.timeit, UT.operator = ORIG["timeit"], ORIG["operator"]
    log = []
    BC._beaker_cache = None
    sched = Sched(p, 2, trace_codes=[(BC.BeakerCacheImpl._get_cache.__code__, "_get_cache"), (BC.BeakerCacheImpl.get_or_create.__code__, "get_or_create")])
    t = TPm.Template(FIRSTUSE_TEMPLATE, cache_impl="beaker", cache_args={"manager": FakeBeakerManager(log)})
    t.cache.impl                # the plugin object exists before the threads start: this harness is about its per-call state
    ths = [sched.spawn(n, lambda: t.render()) for n in ("A", "B")]
    dead = None
    try:
        sched.run()
    except Deadlock as e:
        dead = e
    finally:
        BC._beaker_cache = None
    return dict(results=[x.result for x in ths], excs=[x.exc for x in ths], trace=list(sched.trace), deadlock=dead, log=list(log), start=t.cache.starttime)


def on_beaker(p, r, exc, acc):
    if exc is not None:
        acc.candidate(kind="harness-exception", input=None, detail="%s: %s" % (type(exc).__name__, str(exc)[:300]))
        return
    acc.tags["asserted"] += 1
    desc = dict(scenario="beaker", schedule=[("%s:%s" % x) for x in r["trace"]])
    acc.vcs += 3
    if r["deadlock"] is not None or any(e is not None for e in r["excs"]):
        acc.candidate(kind="render-thread-failed", input=desc, detail=repr(r["excs"]))
        return
    if r["results"] != ["DED", "DED"]:
        acc.candidate(kind="render-output-depends-on-interleaving", input=desc, detail="renders gave %r" % (r["results"],))
        return
    for key, args in r["log"]:
        want = {"starttime": r["start"]}
        if key == "k":
            want["expiretime"] = 10
        if args != want:
            acc.candidate(kind="beaker-call-arguments", input=desc, detail="beaker get(%r) received %r, alone it receives %r" % (key, args, want))
            return
    if len(acc.samples) < 6:
        acc.sample(dict(schedule_length=len(r["trace"]), beaker_calls=len(r["log"])))


# ------------------------------------------------------------------ first use of <%namespace module=...> by two renders
class ImportModel:
    """Python's import as environment: the importing thread registers the module object in sys.modules BEFORE its body runs,
    holds the module's import lock while the body runs (scheduling points inside), other threads' __import__ wait on that
    lock, and sys.modules.get() hands out whatever is registered - finished or not"""

    def __init__(self, sched):
        import types as _t
        self.sched = sched
        self.modules = {}
        self.locks = {}
        self._t = _t

    def import_(self, name, *a, **k):
        lock = self.locks.setdefault(name, SymLock(self.sched))
        lock.acquire()
        try:
            if name not in self.modules:
                mod = self._t.ModuleType(name)
                self.modules[name] = mod                 # visible from now on
                self.sched.point("module body: start")
                mod.early = lambda context: "early"
                self.sched.point("module body: middle")
                mod.f = lambda context: "F"
                mod.g = lambda context: "G"
            return self.modules[name]
        finally:
            lock.release()


MODNS_TEMPLATE = '<%namespace name="m" module="c16mod"/><%namespace module="c16mod" import="*"/>${m.f()}${g()}'


def h_modns(p):
    RTm, TPm = common.mako("runtime", "template")
    LK.os, LK.Template, LK.threading = ORIG["os"], ORIG["Template"], ORIG["threading"]
    UT.timeit, UT.operator = ORIG["timeit"], ORIG["operator"]
    sched = Sched(p, 3)
    im = ImportModel(sched)
    saved = (RTm.__dict__.get("__import__"), RTm.sys)
    RTm.__dict__["__import__"] = im.import_
    RTm.sys = types.SimpleNamespace(modules=im.modules, exc_info=saved[1].exc_info)
    try:
        t = TPm.Template(MODNS_TEMPLATE)
        ths = [sched.spawn(n, lambda: t.render()) for n in ("A", "B")]
        dead = None
        try:
            sched.run()
        except Deadlock as e:
            dead = e
    finally:
        if saved[0] is None:
            RTm.__dict__.pop("__import__", None)
        else:
            RTm.__dict__["__import__"] = saved[0]
        RTm.sys = saved[1]
    return dict(results=[x.result for x in ths], excs=[x.exc for x in ths], trace=list(sched.trace), deadlock=dead)


def on_modns(p, r, exc, acc):
    if exc is not None:
        acc.candidate(kind="harness-exception", input=None, detail="%s: %s" % (type(exc).__name__, str(exc)[:300]))
        return
    acc.tags["asserted"] += 1
    desc = dict(scenario="module-namespace", schedule=[("%s:%s" % x) for x in r["trace"]])
    acc.vcs += 2
    if r["deadlock"] is not None:
        acc.candidate(kind="deadlock", input=desc, detail="threads %r never finish" % (r["deadlock"].args[0],))
    elif any(e is not None for e in r["excs"]):
        acc.candidate(kind="render-thread-failed", input=desc, detail=repr(r["excs"]))
    elif r["results"] != ["FG", "FG"]:
        acc.candidate(kind="render-output-depends-on-interleaving", input=desc, detail="renders gave %r, alone 'FG'" % (r["results"],))
    if len(acc.samples) < 6:
        acc.sample(dict(schedule_length=len(r["trace"])))


# ------------------------------------------------------------------ two renders of a Template with a decorated top-level def
DECO_TEMPLATE = """<%!
def deco(fn):
    def wrapper(context, *args, **kw):
        context['sp']()              # the decorator does some work before it calls the def
        return fn(*args, **kw)
    return wrapper
%><%def name="d(x)" decorator="deco">D-${who}-${x}${sp()}</%def>[${d(1)}|${d(2)}]"""


def deco_scenario(TPm, RTm, sp):
    """two renders of one Template with a decorated top-level def: thread bodies, lone outputs, functions traced line by line"""
    codes = []

    def nested(code, label):
        codes.append((code, label))
        for c in code.co_consts:
            if isinstance(c, type(code)):
                nested(c, label + "." + c.co_name)
    nested(RTm._decorate_toplevel.__code__, "_decorate_toplevel")
    t = TPm.Template(DECO_TEMPLATE)
    solo = {n: t.render(who=w, sp=lambda: "") for n, w in (("T0", "A"), ("T1", "B"))}
    fns = {n: (lambda w: (lambda: t.render(who=w, sp=sp)))(w) for n, w in (("T0", "A"), ("T1", "B"))}
    return dict(fns=fns, solo=solo, codes=codes, cleanup=lambda: None)


def autoh_scenario(LKm, AHm, sp):
    """two renders that inherit through mako.ext.autohandler on a bounded lookup without filesystem checks; /page1's memo is in
    lookup._uri_cache (an LRU cache) when the threads start, /page2's includes push entries out of it"""
    import os as _os
    import shutil as _sh
    import tempfile as _tf
    base = _tf.mkdtemp(prefix="c16auto")
    head = "<%! from mako.ext.autohandler import autohandler %><%inherit file=\"${autohandler(template, context)}\"/>"
    files = {"autohandler": "R[${next.body()}]", "page1": head + "one-${who}", "page2": head + "two-${who}" + "".join("<%%include file='i%d'/>" % k for k in range(5))}
    for k in range(5):
        files["i%d" % k] = "i%d" % k
    for k, v in files.items():
        with open(_os.path.join(base, k), "w") as f:
            f.write(v)
    lk = LKm.TemplateLookup([base], filesystem_checks=False, collection_size=2)
    solo = {"T0": lk.get_template("/page1").render(who="A"), "T1": lk.get_template("/page2").render(who="B")}
    lk.get_template("/page1").render(who="A")          # the memo of /page1's autohandler is in place again
    fns = {"T0": lambda: lk.get_template("/page1").render(who="A"), "T1": lambda: lk.get_template("/page2").render(who="B")}
    return dict(fns=fns, solo=solo, codes=[(AHm.autohandler.__code__, "autohandler")], cleanup=lambda: _sh.rmtree(base, ignore_errors=True))


def uricache_scenario(LKm, UTm, sp):
    """two renders through one bounded lookup: /main includes a part by a relative URI (resolved through lookup._uri_cache, an
    LRU cache), /other includes five parts, whose URIs push entries out of that cache"""
    import os as _os
    import shutil as _sh
    import tempfile as _tf
    base = _tf.mkdtemp(prefix="c16uri")
    files = {"main": "m-${who}<%include file='part'/>", "part": "part", "other": "o-${who}" + "".join("<%%include file='i%d'/>" % k for k in range(5))}
    for k in range(5):
        files["i%d" % k] = "i%d" % k
    for k, v in files.items():
        with open(_os.path.join(base, k), "w") as f:
            f.write(v)
    lk = LKm.TemplateLookup([base], collection_size=2)
    solo = {"T0": lk.get_template("/main").render(who="A"), "T1": lk.get_template("/other").render(who="B")}
    lk.get_template("/main").render(who="A")            # ('part', '/main') is in the URI cache again
    fns = {"T0": lambda: lk.get_template("/main").render(who="A"), "T1": lambda: lk.get_template("/other").render(who="B")}
    codes = [(LKm.TemplateLookup.adjust_uri.__code__, "adjust_uri"), (UTm.LRUCache.setdefault.__code__, "LRUCache.setdefault")]
    return dict(fns=fns, solo=solo, codes=codes, cleanup=lambda: _sh.rmtree(base, ignore_errors=True))


def _run_scenario(p, sc_fn, name):
    LK.os, LK.Template, LK.threading = ORIG["os"], ORIG["Template"], ORIG["threading"]
    UT.timeit, UT.operator = ORIG["timeit"], ORIG["operator"]
    holder = {}

    def sp():
        holder["sched"].point("template")
        return ""
    sc = sc_fn(sp)
    try:
        sched = holder["sched"] = Sched(p, 2, trace_codes=sc["codes"])
        ths = [sched.spawn(n, sc["fns"][n]) for n in ("T0", "T1")]
        dead = None
        try:
            sched.run()
        except Deadlock as e:
            dead = e
        return dict(solo=sc["solo"], results=[x.result for x in ths], excs=[x.exc for x in ths], trace=list(sched.trace), deadlock=dead, scenario=name)
    finally:
        sc["cleanup"]()


def h_deco(p):
    TPm, RTm = common.mako("template", "runtime")
    return _run_scenario(p, lambda sp: deco_scenario(TPm, RTm, sp), "decorated-def")


def h_uricache(p):
    import mako.lookup as RLK
    import mako.util as RUT
    return _run_scenario(p, lambda sp: uricache_scenario(RLK, RUT, sp), "uri-cache-bounded-lookup")


def h_autoh(p):
    import mako.lookup as RLK
    AH = common.mako("ext.autohandler")
    return _run_scenario(p, lambda sp: autoh_scenario(RLK, AH, sp), "autohandler-bounded-lookup")


def on_render2(p, r, exc, acc):
    if exc is not None:
        acc.candidate(kind="harness-exception", input=None, detail="%s: %s" % (type(exc).__name__, str(exc)[:300]))
        return
    acc.tags["asserted"] += 1
    desc = dict(scenario=r["scenario"], schedule=[("%s:%s" % x) for x in r["trace"]])
    acc.vcs += 1
    if r["deadlock"] is not None or any(e is not None for e in r["excs"]):
        acc.candidate(kind="render-thread-failed", input=desc, detail=repr(r["excs"]))
        return
    for who, got in zip(("T0", "T1"), r["results"]):
        acc.vcs += 1
        if got != r["solo"][who]:
            acc.candidate(kind="render-output-depends-on-interleaving", input=desc, detail="render of %s gave %r, alone it gives %r" % (who, got, r["solo"][who]))
    if len(acc.samples) < 4:
        acc.sample(dict(scenario=r["scenario"], schedule_length=len(r["trace"])))



def on_render(p, r, exc, acc):
    if exc is not None:
        acc.candidate(kind="harness-exception", input=None, detail="%s: %s" % (type(exc).__name__, str(exc)[:300]))
        return
    acc.tags["asserted"] += 1
    desc = dict(scenario="concurrent-renders", schedule=[("%s:%s" % x) for x in r["trace"]])
    acc.vcs += 1
    if r["deadlock"] is not None or any(e is not None for e in r["excs"]):
        acc.candidate(kind="render-thread-failed", input=desc, detail=repr(r["excs"]))
        return
    for who, got in zip(("A", "B"), r["results"]):
        acc.vcs += 1
        if got != r["solo"][who]:
            acc.candidate(kind="render-output-depends-on-interleaving", input=desc, detail="render for %s gave %r, alone it gives %r" % (who, got, r["solo"][who]))
    acc.sample(dict(schedule_length=len(r["trace"])))


def on_sched(p, r, exc, acc):
    if exc is not None:
        acc.candidate(kind="harness-exception", input=None, detail="%s: %s" % (type(exc).__name__, str(exc)[:300]))
        return
    acc.tags["asserted"] += 1
    name = r["name"]
    desc = dict(scenario=name, schedule=[("%s:%s" % x) for x in r["trace"]])
    acc.vcs += 1
    if r["deadlock"] is not None:
        acc.candidate(kind="deadlock", input=desc, detail="threads %r never finish" % (r["deadlock"].args[0],))
        return
    for e in r["excs"]:
        if e is not None:
            acc.candidate(kind="thread-crashed", input=desc, detail="%s: %s" % (type(e).__name__, e))
            return
    flat = [x for res in r["results"] for x in res]
    acc.vcs += 1
    for op, uri, val in flat:
        if isinstance(val, Exception):
            if not (uri == "bad" and isinstance(val, EXC.CompileException)) and not isinstance(val, EXC.TemplateLookupException):
                acc.candidate(kind="undocumented-exception", input=desc, detail="%s(%s) raised %s: %s" % (op, uri, type(val).__name__, val))
        elif op == "get" and not getattr(val, "complete", False):
            acc.candidate(kind="incomplete-template-returned", input=desc, detail="get(%s)" % uri)
    acc.vcs += 1
    if r["lk"]._mutex.locked():
        acc.candidate(kind="mutex-left-locked", input=desc, detail="")
    if name in ("same-uri-first-request", "three-same-uri"):
        acc.vcs += 1
        got = [v for op, u, v in flat if op == "get"]
        if len(r["constructed"]) != 1 or any(g is not got[0] for g in got):
            acc.candidate(kind="compiled-more-than-once", input=desc, detail="%d constructions, same object: %s" % (len(r["constructed"]), got[0] is got[1]))
    if name == "modify-then-get-vs-get":
        acc.vcs += 1
        # T0 modified the file (mtime far beyond any earlier compile instant) before its own get: it must see the new content
        t0 = [v for op, u, v in r["results"][0] if op == "get"][0]
        if not isinstance(t0, Exception) and t0.read_mtime != r["mtime"]["a"]:
            acc.candidate(kind="stale-template-returned", input=desc, detail="the thread that modified the file got a template compiled from mtime %s" % t0.read_mtime)
    if r["size"] > 0:
        acc.vcs += 1
        n = len(r["lk"]._collection)
        if n > 1.5 * r["size"]:
            acc.candidate(kind="bounded-lookup-over-bound", input=desc, detail="%d entries with collection_size %d" % (n, r["size"]))
    acc.sample(dict(scenario=name, schedule_length=len(r["trace"])))


def make_replay(c):
    i = c["input"] or {}

    if i.get("scenario") == "module-namespace":
        body = """
# two real threads render a template whose <%namespace module=...> names a module that is not imported yet and whose body is slow
import threading, time, tempfile, shutil
from mako.template import Template
d = tempfile.mkdtemp(prefix="c16modns")
open(os.path.join(d, "c16slowmod.py"), "w").write("import time\\\\ndef early(context): return 'early'\\\\ntime.sleep(0.5)\\\\ndef f(context): return 'F'\\\\ndef g(context): return 'G'\\\\n")
sys.path.insert(0, d)
try:
    t = Template('<%namespace name="m" module="c16slowmod"/><%namespace module="c16slowmod" import="*"/>${m.f()}${g()}')
    res = {}
    def run(name, delay):
        time.sleep(delay)
        try: res[name] = t.render()
        except Exception as e: res[name] = "raised %s: %s" % (type(e).__name__, e)
    ths = [threading.Thread(target=run, args=("A", 0)), threading.Thread(target=run, args=("B", 0.2))]
    for x in ths: x.start()
    for x in ths: x.join()
finally:
    sys.path.remove(d); sys.modules.pop("c16slowmod", None); shutil.rmtree(d, ignore_errors=True)
print("outputs:", res)
bad = None if res == {"A": "FG", "B": "FG"} else "a render that starts while the namespace's module is still being imported does not give the output of a lone render"
print("VIOLATED: " + bad if bad else "HOLDS")
sys.exit(1 if bad else 0)
"""
        return (c["kind"], body, ("module-namespace",))

    if i.get("scenario") == "beaker":
        body = """
# two real threads render one Template cached through the Beaker plugin; a line tracer in the plugin hands the baton over as in the schedule found
import threading, time
sys.path.insert(0, "/verif")
CASE = __CASE__
from mako.template import Template
from mako.ext import beaker_cache as BC
from props.C16 import FIRSTUSE_TEMPLATE, FakeBeakerManager
log = []
BC._beaker_cache = None
order = [x.split(":", 1)[0] for x in CASE["schedule"]]
codes = {BC.BeakerCacheImpl._get_cache.__code__, BC.BeakerCacheImpl.get_or_create.__code__}
st = {"k": 0, "diverged": False, "done": set()}
cond = threading.Condition()
def my_turn(name):
    return st["diverged"] or st["k"] >= len(order) or order[st["k"]] == name or (set("AB") - {name}) <= st["done"]
def wait_turn(name):
    with cond:
        t0 = time.time()
        while not my_turn(name):
            cond.wait(0.05)
            if time.time() - t0 > 10: st["diverged"] = True
def arrive(name):
    with cond:
        if st["k"] < len(order) and order[st["k"]] == name: st["k"] += 1
        else: st["diverged"] = st["diverged"] or st["k"] < len(order)
        cond.notify_all()
    wait_turn(name)
def tracer_for(name):
    def tracer(frame, event, arg):
        if frame.f_code not in codes: return None
        def local(frame, event, arg):
            if event == "line": arrive(name)
            return local
        return local
    return tracer
t = Template(FIRSTUSE_TEMPLATE, cache_impl="beaker", cache_args={"manager": FakeBeakerManager(log)})
t.cache.impl
res = {}
def run(name):
    wait_turn(name)
    sys.settrace(tracer_for(name))
    try:
        res[name] = t.render()
    except Exception as e:
        res[name] = "raised %s: %s" % (type(e).__name__, e)
    finally:
        sys.settrace(None)
        with cond:
            st["done"].add(name); cond.notify_all()
ths = [threading.Thread(target=run, args=(n,)) for n in "AB"]
for x in ths: x.start()
for x in ths: x.join()
print("schedule followed:", not st["diverged"], " outputs:", res)
bad = None
for key, args in log:
    want = {"starttime": t.cache.starttime}
    if key == "k": want["expiretime"] = 10
    print(" beaker get", key, args)
    if args != want: bad = "beaker received %r for key %r; rendered alone it receives %r" % (args, key, want)
if res != {"A": "DED", "B": "DED"}: bad = bad or "outputs differ from a lone render: %r" % res
print("VIOLATED: " + bad if bad else "HOLDS")
sys.exit(1 if bad else 0)
""".replace("__CASE__", repr(i))
        return (c["kind"], body, ("beaker", tuple(i["schedule"])))

    if i.get("scenario") in ("decorated-def", "autohandler-bounded-lookup", "uri-cache-bounded-lookup"):
        body = """
# two real threads; a line tracer in mako's own functions and the scheduling points of the templates hand the baton over exactly
# as in the schedule found
import threading, time
sys.path.insert(0, "/verif")
CASE = __CASE__
import mako.template as TPm, mako.runtime as RTm, mako.lookup as LKm, mako.ext.autohandler as AHm, mako.util as UTm
from props import C16
order = [x.split(":", 1)[0] for x in CASE["schedule"]]
st = {"k": 0, "diverged": False, "done": set()}
cond = threading.Condition()
NAMES = {"T0", "T1"}
def my_turn(name):
    return st["diverged"] or st["k"] >= len(order) or order[st["k"]] == name or (NAMES - {name}) <= st["done"]
def wait_turn(name):
    with cond:
        t0 = time.time()
        while not my_turn(name):
            cond.wait(0.05)
            if time.time() - t0 > 10: st["diverged"] = True
def arrive(name):
    with cond:
        if st["k"] < len(order) and order[st["k"]] == name: st["k"] += 1
        else: st["diverged"] = st["diverged"] or st["k"] < len(order)
        cond.notify_all()
    wait_turn(name)
def sp():
    arrive(threading.current_thread().name); return ""
sc = {"decorated-def": lambda: C16.deco_scenario(TPm, RTm, sp), "autohandler-bounded-lookup": lambda: C16.autoh_scenario(LKm, AHm, sp),
      "uri-cache-bounded-lookup": lambda: C16.uricache_scenario(LKm, UTm, sp)}[CASE["scenario"]]()
codes = dict(sc["codes"])
def tracer_for(name):
    def tracer(frame, event, arg):
        if frame.f_code not in codes: return None
        def local(frame, event, arg):
            if event == "line": arrive(name)
            return local
        return local
    return tracer
res = {}
def run(name):
    wait_turn(name)
    sys.settrace(tracer_for(name))
    try:
        res[name] = sc["fns"][name]()
    except Exception as e:
        res[name] = "raised %s: %s" % (type(e).__name__, e)
    finally:
        sys.settrace(None)
        with cond:
            st["done"].add(name); cond.notify_all()
ths = [threading.Thread(target=run, args=(n,), name=n) for n in ("T0", "T1")]
for x in ths: x.start()
for x in ths: x.join()
sc["cleanup"]()
print("schedule followed:", not st["diverged"]); print("outputs:", res); print("alone  :", sc["solo"])
bad = None if res == sc["solo"] else "a render does not produce what it produces when run alone"
print("VIOLATED: " + bad if bad else "HOLDS")
sys.exit(1 if bad else 0)
""".replace("__CASE__", repr(i))
        return (c["kind"], body, (i["scenario"], tuple(i["schedule"])))
    if i.get("scenario") == "first-use":
        body = """
# two real threads render one fresh Template; a line tracer in mako's own functions hands the baton over exactly as in the schedule found
import threading
sys.path.insert(0, "/verif")
CASE = __CASE__
from mako import cache as CA, util as UT
from mako.template import Template
from props import c17backend as BK
from props.C16 import FIRSTUSE_TEMPLATE, firstuse_targets
BK.install(CA.CacheImpl)
CA.register_plugin("refdict", "props.c17backend", "RefDict")
BK.reset()
order = [x.split(":", 1)[0] for x in CASE["schedule"]]
codes = dict(firstuse_targets(CA, UT))
st = {"k": 0, "diverged": False, "done": set()}
cond = threading.Condition()
def my_turn(name):
    return st["diverged"] or st["k"] >= len(order) or order[st["k"]] == name or (set("AB") - {name}) <= st["done"]
def wait_turn(name):
    with cond:
        t0 = time.time()
        while not my_turn(name):
            cond.wait(0.05)
            if time.time() - t0 > 10: st["diverged"] = True
def arrive(name):
    with cond:
        if st["k"] < len(order) and order[st["k"]] == name: st["k"] += 1
        else: st["diverged"] = st["diverged"] or st["k"] < len(order)
        cond.notify_all()
    wait_turn(name)
import time
def tracer_for(name):
    def tracer(frame, event, arg):
        if frame.f_code not in codes: return None
        def local(frame, event, arg):
            if event == "line": arrive(name)
            return local
        return local
    return tracer
t = Template(FIRSTUSE_TEMPLATE, cache_impl="refdict")
res = {}
def run(name):
    wait_turn(name)
    sys.settrace(tracer_for(name))
    try:
        res[name] = t.render()
    except Exception as e:
        res[name] = "raised %s: %s" % (type(e).__name__, e)
    finally:
        sys.settrace(None)
        with cond:
            st["done"].add(name); cond.notify_all()
ths = [threading.Thread(target=run, args=(n,)) for n in "AB"]
for x in ths: x.start()
for x in ths: x.join()
print("schedule followed:", not st["diverged"], " outputs:", res)
bad = None
for op, cid, key, kw in BK.LOG:
    print(" backend", op, key, kw)
    want = {"timeout": 10} if key == "k" else {}
    if kw != want: bad = "the cache backend received %r for key %r; rendered alone it receives %r" % (kw, key, want)
if res != {"A": "DED", "B": "DED"}: bad = bad or "outputs differ from a lone render: %r" % res
print("VIOLATED: " + bad if bad else "HOLDS")
sys.exit(1 if bad else 0)
""".replace("__CASE__", repr(i))
        return (c["kind"], body, ("first-use", tuple(i["schedule"])))
    body = """
# real threads, with the recorded schedule enforced at the same scheduling points through the same stubs
sys.path.insert(0, "/verif")
CASE = __CASE__
KIND = __KIND__
import threading, types, time
import mako.lookup as LK, mako.util as UT
from mako import exceptions as EXC
from props.C16 import SCENARIOS, SCENARIOS3
print("scenario:", CASE["scenario"]); print("schedule:", CASE["schedule"])
if CASE["scenario"] == "concurrent-renders":
    from props.C16 import RENDER_FILES
    from mako.lookup import TemplateLookup
    lk = TemplateLookup()
    for k_, v_ in RENDER_FILES.items(): lk.put_string(k_, v_)
    t = lk.get_template("/main")
    solo = {w: t.render(who=w, sp=lambda: "") for w in ("A", "B")}
    order = [s.split(":")[0] for s in CASE["schedule"]]
    turn = {"i": 0}; cv = threading.Condition(); names = {}
    def sp():
        me = names.get(threading.current_thread())
        with cv:
            deadline = time.time() + 3
            while turn["i"] < len(order) and order[turn["i"]] != me and time.time() < deadline: cv.wait(0.02)
            turn["i"] += 1; cv.notify_all()
        return ""
    res = {}
    def run_(i, w):
        names[threading.current_thread()] = "T%d" % i
        try: res[w] = t.render(who=w, sp=sp)
        except Exception as e: res[w] = "raised %s: %s" % (type(e).__name__, e)
    ths = [threading.Thread(target=run_, args=(i, w), daemon=True) for i, w in enumerate(("A", "B"))]
    for x in ths: x.start()
    for x in ths: x.join(20)
    bad = None
    for w in ("A", "B"):
        print(w, "->", repr(res.get(w)), "| alone:", repr(solo[w]))
        if res.get(w) != solo[w]: bad = "a concurrent render produced different output than when run alone"
    print("VIOLATED: " + bad if bad else "HOLDS")
    os._exit(1 if bad else 0)
size, programs = (SCENARIOS.get(CASE["scenario"]) or SCENARIOS3[CASE["scenario"]])
order = [s.split(":")[0] for s in CASE["schedule"]]
turn = {"i": 0}
cv = threading.Condition()
names = {}
def point(what):
    me = names.get(threading.current_thread())
    if me is None: return
    with cv:
        # wait until the recorded schedule says it is this thread's turn (or the schedule is exhausted)
        deadline = time.time() + 5
        while turn["i"] < len(order) and order[turn["i"]] != me and time.time() < deadline:
            cv.wait(0.05)
        turn["i"] += 1
        cv.notify_all()
constructed = []
mtime = {"a": 10, "b": 10, "c": 10, "bad": 10}; clock = [100.0]
class FakeTemplate:
    def __init__(self, text=None, filename=None, uri=None, lookup=None, module_filename=None, **kw):
        point("Template.begin")
        if uri == "bad": raise EXC.CompileException("syntax error", "", 0, 0, filename)
        self.filename, self.uri, self.read_mtime = filename, uri, mtime[uri]
        clock[0] += 1
        self.module = types.SimpleNamespace(_modified_time=clock[0]); self.complete = False
        point("Template.end"); self.complete = True; constructed.append(self)
class OsPath:
    sep = "/"
    @staticmethod
    def isfile(p): point("isfile"); return True
class Os:
    path = OsPath; sep = "/"
    @staticmethod
    def stat(p): point("stat"); return {LK.stat.ST_MTIME: mtime[p.rsplit("/", 1)[1]]}
real_lock = threading.Lock
class L:
    def __init__(self): self.l = real_lock()
    def acquire(self, *a):
        point("lock.acquire")
        while not self.l.acquire(False): point("lock.wait")
        return True
    def release(self): self.l.release(); point("lock.release")
    def locked(self): return self.l.locked()
    def __enter__(self): self.acquire(); return self
    def __exit__(self, *a): self.release()
LK.os = Os; LK.Template = FakeTemplate
LK.threading = types.SimpleNamespace(Lock=L)
ticks = [0]
def timer(): point("lru.timestamp"); ticks[0] += 1; return ticks[0]
def attrgetter(a):
    def get(o): point("lru.eviction-key"); return getattr(o, a)
    return get
UT.timeit = types.SimpleNamespace(default_timer=timer); UT.operator = types.SimpleNamespace(attrgetter=attrgetter)
lk = LK.TemplateLookup(["/d"], filesystem_checks=True, collection_size=size)
results = {}
def run(idx, prog):
    names[threading.current_thread()] = "T%d" % idx
    out = []
    for op, uri in prog:
        try:
            if op == "get": out.append((op, uri, lk.get_template(uri)))
            elif op == "touch": point("touch"); mtime[uri] = clock[0] + 5; clock[0] += 10; out.append((op, uri, None))
            else:
                t = types.SimpleNamespace(uri=uri, filename=None, complete=True); lk.put_template(uri, t); out.append((op, uri, t))
        except Exception as e:
            out.append((op, uri, e))
    results[idx] = out
ths = [threading.Thread(target=run, args=(i, p), daemon=True) for i, p in enumerate(programs)]
for t in ths: t.start()
for t in ths: t.join(20)
bad = None
if any(t.is_alive() for t in ths): bad = "a thread is left blocked"
flat = [x for i in sorted(results) for x in results[i]]
for op, uri, val in flat:
    print(op, uri, "->", val if isinstance(val, Exception) else "template")
    if isinstance(val, Exception) and not (uri == "bad" and isinstance(val, EXC.CompileException)) and not isinstance(val, EXC.TemplateLookupException):
        bad = bad or "%s(%s) raised %s: %s" % (op, uri, type(val).__name__, val)
if CASE["scenario"] in ("same-uri-first-request", "three-same-uri") and not bad:
    got = [v for op, u, v in flat if op == "get"]
    if len(constructed) != 1 or any(g is not got[0] for g in got): bad = "the template was compiled %d times / callers got different objects" % len(constructed)
if CASE["scenario"] == "modify-then-get-vs-get" and not bad:
    t0 = [v for op, u, v in results[0] if op == "get"][0]
    print("T0 modified the file (mtime now %s) and then got a template compiled from mtime %s" % (mtime["a"], getattr(t0, "read_mtime", None)))
    if not isinstance(t0, Exception) and t0.read_mtime != mtime["a"]: bad = "the thread that modified the file was handed a template compiled from the older content"
if size > 0 and len(lk._collection) > 1.5 * size: bad = bad or "bounded lookup holds %d entries" % len(lk._collection)
print("VIOLATED: " + bad if bad else "HOLDS")
os._exit(1 if bad else 0)
""".replace("__CASE__", repr(i)).replace("__KIND__", repr(c["kind"]))
    return (c["kind"], body, (c["kind"], i.get("scenario"), tuple(i.get("schedule") or ())))


def classify(c):
    i = c.get("input") or {}
    if c["kind"] == "stale-template-returned" and i.get("scenario") == "modify-then-get-vs-get":
        sched = i.get("schedule") or []
        # the listed finding: the modifying thread's request missed the collection, went to _load, and was served the OTHER
        # thread's template by the second look into the collection (it never constructed a template itself)
        if "T0:lock.acquire" in sched and "T0:Template.begin" not in sched:
            return "C16-second-chance-read-unchecked"
    return None


def run(check, tier):
    setup()
    check.encode(*kernel())
    check.assume(
        "two logical threads (thorough: also three, with at most two preemptions) run the real get_template/_check/_load/put_template and LRUCache code under a baton scheduler; scheduling points: "
        "every lock acquire / wait / release (the lookup's mutex is a model lock), os.stat and os.path.isfile, begin and end of Template "
        "construction, every LRU timestamp read and every key read of the LRU eviction sort; at each point the next thread is a solver-explored "
        "choice, so EVERY schedule over these points is executed",
        "Template is a constructor stub (may fail to compile, records the mtime it read); the file system and clock are stubs",
        "the solver's part is the feasibility / exhaustion of schedule choices; results are concrete per schedule")
    check.not_claimed("preemption at arbitrary byte-code boundaries inside dict operations", "three or more threads",
                      "line-level races outside Cache.__init__ / _get_cache_kw / _ctx_get_or_create / memoized_property.__get__ (e.g. the lexer's regexp cache)")
    jobs = []
    for name in SCENARIOS:
        jobs.append(("C16-" + name, h_sched(name), on_sched, "all schedules of scenario %s" % name, dict(scenario=SCENARIOS[name].__repr__()), ("asserted",)))
    jobs.append(("C16-renders", h_render, on_render, "two concurrent renders of one inheriting / namespace-using Template with different contexts, "
                 "scheduling points inside the templates, at most 3 preemptions", dict(points="sp() calls in body, defs, call bodies, includes, base template"), ("asserted",)))
    jobs.append(("C16-deco", h_deco, on_render2, "two concurrent renders of a Template with a decorated top-level def: every line of runtime._decorate_toplevel "
                 "and its closures, the user decorator and the def body are scheduling points, at most 2 preemptions", dict(preemption_bound=2), ("asserted",)))
    jobs.append(("C16-uricache", h_uricache, on_render2, "two concurrent renders through a bounded lookup whose URI cache (an LRU cache) the other render evicts from: "
                 "every line of TemplateLookup.adjust_uri and LRUCache.setdefault is a scheduling point, at most 2 preemptions", dict(preemption_bound=2, collection_size=2), ("asserted",)))
    jobs.append(("C16-autoh", h_autoh, on_render2, "two concurrent renders inheriting through mako.ext.autohandler on a bounded lookup without filesystem checks "
                 "(memo in lookup._uri_cache, an LRU cache other renders evict from): every line of autohandler() is a scheduling point, at most 2 preemptions",
                 dict(preemption_bound=2, collection_size=2), ("asserted",)))
    jobs.append(("C16-firstuse", h_firstuse, on_firstuse, "two concurrent first renders of a fresh Template with cached defs: every line of "
                 "Cache.__init__ / _get_cache_kw / _ctx_get_or_create / memoized_property.__get__ is a scheduling point, at most 2 preemptions",
                 dict(points="line level inside the lazily initialising functions", preemption_bound=2), ("asserted",)))
    jobs.append(("C16-modns", h_modns, on_modns, "two concurrent first renders of a template with <%namespace module=...>: the import is an environment model "
                 "(module registered before its body runs, per-module import lock, scheduling points inside the body), at most 3 preemptions",
                 dict(points="import lock operations and two points inside the module body", preemption_bound=3), ("asserted",)))
    try:
        import beaker  # noqa
        jobs.append(("C16-beaker", h_beaker, on_beaker, "two concurrent renders through the Beaker plugin (cached defs with and without timeout): every line of "
                     "BeakerCacheImpl._get_cache / get_or_create is a scheduling point, at most 2 preemptions",
                     dict(points="line level inside the plugin", preemption_bound=2), ("asserted",)))
    except ImportError:
        pass
    if tier == "thorough":
        for name in SCENARIOS3:
            jobs.append(("C16-" + name, h_sched(name), on_sched, "three threads, every schedule with at most 2 preemptions: %s" % name,
                         dict(scenario=SCENARIOS3[name].__repr__(), preemption_bound=2), ("asserted",)))
    import os
    if os.environ.get("C16_ONLY"):          # development aid
        jobs = [j for j in jobs if j[0].startswith(os.environ["C16_ONLY"])]
    for j in jobs:
        driver.register(j[0], j[1], j[2])
    cands = []
    for name, _h, _o, title, bounds, req in jobs:
        st, acc = driver.explore(name, time_limit=1500)
        check.section(title, st, acc, bounds, tags_required=req)
        cands.extend(acc.candidates)
    check.confirm(cands, make_replay, classify, max_confirm=10)
    driver.close_pool()
