"""C18 - template text round-trips through input and output encodings."""
import codecs
import types
import z3

from symx import core, values, driver, realproc
from symx.values import SymStr, SymChar, SymBytes, SymInt, sym_string, str_eq_term, conc, ch_eq, ch_in, cv
from . import common, C10

L = PT = EXC = TP = RT = UT = None
ASCII = values.Domain(list(range(1, 128)))
BLANKS = values.Domain([32, 9])
AFTER = values.Domain([32, 42, 35, 58])          # characters that cannot extend an encoding name: space * # :
NAMES = [None, "utf-8", "latin-1", "ascii", "cp1251", "UTF-8", "nosuchcodec"]


def canon(name):
    """the codec a name denotes (None for a name no codec answers to)"""
    try:
        return codecs.lookup(name).name
    except LookupError:
        return None
BODIES = {"utf-8": "café Ж", "latin-1": "café", "ascii": "cafe", "cp1251": "Жж"}
NEWLINES = ["\n", "\r\n"]


def setup():
    global L, PT, EXC, TP, RT, UT
    if L is not None:
        return
    L, PT, EXC, TP, RT, UT = common.mako("lexer", "parsetree", "exceptions", "template", "runtime", "util")
    global REAL_AST, STUB_AST
    REAL_AST = PT.ast
    STUB_AST = common.stub_ast_namespace()
    values.set_domain(ASCII)


def kernel():
    return [L.Lexer.decode_raw_stream, L.Lexer.parse, UT.FastEncodingBuffer.getvalue, RT._render, TP.Template.render,
            TP.Template.render_unicode]


# ------------------------------------------------------------------ input side
def h_input(n1, nw, n2):
    def h(p):
        PT.ast = STUB_AST
        bom = bool(p.choose(2, "bom"))
        name = NAMES[1 + p.choose(len(NAMES) - 1, "name")]
        known = NAMES[p.choose(len(NAMES), "input_encoding")]
        actual = list(BODIES)[p.choose(len(BODIES), "actual")]
        nl = NEWLINES[p.choose(len(NEWLINES), "newline")]
        h1 = sym_string(n1, "h1", ASCII)
        for c in h1.items:
            p.assume(z3.And(c.v != 10, c.v != 13))
        sep = values.new_char("sep", ASCII)
        p.assume(z3.And(sep.v != 10, sep.v != 13))
        w = sym_string(nw, "w", BLANKS)
        h2 = sym_string(n2, "h2", AFTER)
        first = ["#"] + h1.items + list("coding") + [sep] + w.items + list(name) + h2.items + list(nl)
        body = BODIES[actual]
        data = SymBytes((list(codecs.BOM_UTF8) if bom else []) + [ord(c) if isinstance(c, str) else c.v for c in first]
                        + list(body.encode(actual)))
        lx = L.Lexer(data, filename="t.html", input_encoding=known)
        res = exc = None
        try:
            tree = lx.parse()
            res = tree
        except (EXC.CompileException, EXC.SyntaxException) as e:
            exc = e
        except Exception as e:          # anything else escaping the lexer (engine exceptions are BaseExceptions)
            exc = e
        return dict(bom=bom, name=name, known=known, actual=actual, nl=nl, first=first, sep=sep, lx=lx, tree=res, exc=exc, data=data, body=body,
                    h1=h1)
    return h


def on_input(p, r, exc, acc):
    if exc is not None:
        acc.candidate(kind="undocumented-exception", input=None, detail="%s: %s" % (type(exc).__name__, str(exc)[:200]))
        return
    m = p.witness()
    raw = r["data"].concretize(m)
    cfg = lambda mod: dict(data=r["data"].concretize(mod), input_encoding=r["known"])
    # reference rule: comment (shape: '#', anything, 'coding', ':' or '=', optional blanks, name) > input_encoding > utf-8
    recognized = ch_in(r["sep"], ":=")
    # a 'coding:' / 'coding=' already inside the free prefix would be read instead: outside the asserted shape
    pre = r["h1"].items
    for i in range(len(pre)):
        if ch_in(pre[i], ":=") and i >= 6 and all(ch_eq(pre[i - 6 + k], "coding"[k]) for k in range(6)):
            acc.counts["skipped: prefix contains its own coding declaration"] += 1
            return
    acc.tags["comment" if recognized else "no-comment"] += 1
    enc = r["name"] if recognized else ("utf-8" if r["bom"] else (r["known"] or "utf-8"))     # a BOM outranks input_encoding
    if canon(enc) is None:
        # a name no codec answers to: a compile error of the template, like an undecodable body
        acc.counts["unknown codec name"] += 1
        acc.vcs += 1
        if r["exc"] is None or not isinstance(r["exc"], EXC.CompileException):
            acc.candidate(kind="no-compile-exception", input=cfg(m), detail="unknown codec %r: %s" % (enc, type(r["exc"]).__name__ if r["exc"] else "compiled"))
        return
    if r["bom"]:
        if recognized and canon(r["name"]) != "utf-8":
            expect = ("exc", "BOM contradicted by the comment")
        else:
            expect = None
            enc = "utf-8" if not recognized else enc
            if not recognized:
                enc = "utf-8"
    else:
        expect = None
    body_bytes = r["body"].encode(r["actual"])
    if expect is None:
        try:
            decoded_body = body_bytes.decode(enc)
            expect = ("ok", decoded_body)
        except UnicodeDecodeError:
            expect = ("exc", "undecodable as %s" % enc)
    acc.counts["%s / %s" % ("bom" if r["bom"] else "nobom", expect[0])] += 1
    acc.vcs += 1
    if expect[0] == "exc":
        if r["exc"] is None or not isinstance(r["exc"], EXC.CompileException):
            acc.candidate(kind="no-compile-exception", input=cfg(m), detail=expect[1])
    else:
        # the free characters of the first line may themselves spell a Mako directive (e.g. '#<%coding>...'): then a
        # compile error / non-text nodes are legitimate; the reference tokenizer decides, and such inputs are not asserted
        from oracles import tokenizer
        ref = tokenizer.R(list(r["first"]) + list(expect[1]), {}, set())
        if ref[0] != "out":
            acc.counts["first line spells a directive: not asserted"] += 1
            return
        if r["exc"] is not None:
            acc.candidate(kind="unexpected-compile-exception", input=cfg(m), detail=str(r["exc"])[:150])
        else:
            # content: when the comment is recognised it is not template content; the body follows decoded with `enc`
            out = []
            for nd in r["tree"].nodes:
                if type(nd).__name__ == "Text":
                    out.extend(values._items(nd.content))
                elif type(nd).__name__ == "Comment":
                    pass
                else:
                    out = None
                    break
            if out is None:
                acc.counts["first line lexed as a directive"] += 1
            else:
                firstline = [c for c in r["first"]]
                want_a = list(expect[1])                      # comment line removed
                want_b = firstline + list(expect[1])          # kept (only admissible when not recognised as coding comment)
                # a '##...' first line is a Mako comment anyway; '#' + text is plain text when not recognised
                alts = [str_eq_term(SymStr(out), SymStr(want_a))] if recognized else [
                    str_eq_term(SymStr(out), SymStr(want_b)), str_eq_term(SymStr(out), SymStr(want_a))]
                st, mod = p.vc(z3.Or(alts))
                if st == "fails":
                    acc.candidate(kind="wrong-decoding", input=cfg(mod), detail="content %r, expected body %r decoded as %s" % (
                        SymStr(out).concretize(mod), expect[1], enc))
                acc.vcs += 1
                if recognized and canon(conc(r["lx"].encoding, m) if not isinstance(r["lx"].encoding, str) else r["lx"].encoding) != canon(enc):
                    acc.candidate(kind="wrong-encoding-recorded", input=cfg(m), detail="lexer.encoding %r expected %r" % (r["lx"].encoding, enc))
    real = realproc.call("decode_probe", raw, r["known"])
    acc.replayed += 1
    mine = ("exc",) if r["exc"] is not None else ("ok", r["lx"].encoding if isinstance(r["lx"].encoding, str) else conc(r["lx"].encoding, m))
    if real[:len(mine)] != mine:
        raise core.EngineError("engine/real disagreement on %r: real %r mine %r" % (raw, real, mine))
    acc.sample(dict(data=repr(raw), input_encoding=r["known"], outcome=mine))


# ------------------------------------------------------------------ output side
OUT = [None, "ascii", "latin-1", "utf-8", "utf-16-le", "utf-16", "utf-16-be", "utf-32-le"]


def h_output(n):
    def h(p):
        PT.ast = REAL_AST
        s = sym_string(n, "c", values.Domain(None))
        oe = OUT[p.choose(len(OUT), "output_encoding")]
        as_unicode = bool(p.choose(2, "as_unicode"))
        t = TP.Template("A${x}B", default_filters=[], output_encoding=oe, encoding_errors="strict")
        res = exc = None
        try:
            res = t.render_unicode(x=s) if as_unicode else t.render(x=s)
        except UnicodeEncodeError as e:
            exc = e
        return dict(s=s, oe=oe, as_unicode=as_unicode, res=res, exc=exc)
    return h


def on_output(p, r, exc, acc):
    if exc is not None:
        acc.candidate(kind="render-exception", input=None, detail="%s: %s" % (type(exc).__name__, str(exc)[:200]))
        return
    s, oe = r["s"], r["oe"]
    m = p.witness()
    w = s.concretize(m)
    cfg = lambda mod: dict(text=s.concretize(mod), output_encoding=oe, as_unicode=r["as_unicode"])
    full = SymStr(["A"] + s.items + ["B"])
    acc.tags["ran"] += 1
    acc.vcs += 1
    if r["as_unicode"] or oe is None:
        ok = isinstance(r["res"], (str, SymStr)) and r["exc"] is None
        if not ok:
            acc.candidate(kind="render-type", input=cfg(m), detail="expected str, got %s" % type(r["res"]).__name__)
        else:
            st, mod = p.vc(str_eq_term(values.lift(r["res"]), full))
            if st == "fails":
                acc.candidate(kind="render-text", input=cfg(mod), detail="")
    else:
        lim = {"ascii": 128, "latin-1": 256}.get(oe)
        if oe.startswith("utf-16") or oe.startswith("utf-32"):
            surr = z3.Or([z3.And(cv(c) >= 0xD800, cv(c) <= 0xDFFF) for c in s.items if not isinstance(c, str)] + [z3.BoolVal(False)])
            if r["exc"] is not None:
                st, mod = p.vc(surr)
                if st == "fails":
                    acc.candidate(kind="render-raises-on-encodable", input=cfg(mod), detail=str(r["exc"])[:100])
            elif not isinstance(r["res"], (bytes, SymBytes)):
                acc.candidate(kind="render-type", input=cfg(m), detail="expected bytes, got %s" % type(r["res"]).__name__)
            else:
                items = r["res"].items if isinstance(r["res"], SymBytes) else list(r["res"])
                cps = wide_decode(items, oe)
                if cps is None or len(cps) != len(full.items):
                    acc.candidate(kind="render-bytes", input=cfg(m), detail="not the %s encoding of the text (one byte-order mark at most, at the start)" % oe)
                else:
                    st, mod = p.vc(z3.And([z3.Not(surr)] + [a == cv(b) for a, b in zip(cps, full.items)]))
                    if st == "fails":
                        acc.candidate(kind="render-bytes", input=cfg(mod), detail="")
        elif lim is not None:
            enc_ok = z3.And([cv(c) < lim for c in s.items]) if s.items else z3.BoolVal(True)
            if r["exc"] is not None:
                st, mod = p.vc(z3.Not(enc_ok))
                if st == "fails":
                    acc.candidate(kind="render-raises-on-encodable", input=cfg(mod), detail=str(r["exc"])[:100])
            else:
                if not isinstance(r["res"], (bytes, SymBytes)):
                    acc.candidate(kind="render-type", input=cfg(m), detail="expected bytes, got %s" % type(r["res"]).__name__)
                else:
                    items = r["res"].items if isinstance(r["res"], SymBytes) else list(r["res"])
                    same = len(items) == len(full.items)
                    conds = [enc_ok] + ([a == cv(b) for a, b in zip(items, full.items)] if same else [z3.BoolVal(False)])
                    st, mod = p.vc(z3.And(conds))
                    if st == "fails":
                        acc.candidate(kind="render-bytes", input=cfg(mod), detail="")
        else:
            if r["exc"] is not None or not isinstance(r["res"], (bytes, SymBytes)):
                acc.candidate(kind="render-type", input=cfg(m), detail="utf-8 output: %r" % (r["exc"] or type(r["res"]).__name__))
            else:
                items = r["res"].items if isinstance(r["res"], SymBytes) else list(r["res"])
                # decode the bytes with the reference strict UTF-8 decoder (shared with C10) and compare code points
                fake = []
                cps = C10_utf8(items)
                if cps is None or len(cps) != len(full.items):
                    acc.candidate(kind="render-bytes", input=cfg(m), detail="not the UTF-8 encoding of the text")
                else:
                    st, mod = p.vc(z3.And([a == cv(b) for a, b in zip(cps, full.items)]))
                    if st == "fails":
                        acc.candidate(kind="render-bytes", input=cfg(mod), detail="")
    real = realproc.call("render_probe", w, oe, r["as_unicode"])
    acc.replayed += 1
    mine = ("exc",) if r["exc"] is not None else ("ok", conc(r["res"], m))
    if real != mine:
        raise core.EngineError("engine/real disagreement for %r/%s: real %r mine %r" % (w, oe, real, mine))
    acc.sample(cfg(m))


MOD_ENCS = ["utf-8", "latin-1", "cp1251", "koi8-r", "ascii", "utf-16"]
MOD_STYLES = ["comment", "input_encoding", "both", "conflicting", "bom", "bom+comment", "bom+input_encoding", "bom+contradicting-comment"]


def h_modfile(p):
    enc = MOD_ENCS[p.choose(len(MOD_ENCS), "enc")]
    style = MOD_STYLES[p.choose(len(MOD_STYLES), "style")]
    return dict(enc=enc, style=style, future=bool(p.choose(2, "future_imports")))


def on_modfile(p, r, exc, acc):
    acc.tags["ran"] += 1
    res = realproc.call("module_roundtrip", r["enc"], r["style"], r["future"])
    acc.replayed += 1
    for stage, got, want in res:
        acc.vcs += 1
        if got != want:
            acc.candidate(kind="module-file-roundtrip", input=dict(encoding=r["enc"], declared_by=r["style"], stage=stage, future_imports=r["future"]),
                          detail="rendered %r expected %r" % (got, want))
    acc.sample(dict(encoding=r["enc"], declared_by=r["style"]))


def wide_decode(byte_items, enc):
    """reference UTF-16 / UTF-32 decoder on byte terms -> code point terms (forks on surrogate classes); None = malformed"""
    import sys as _sys
    p = core.cur()
    f = lambda e: e if isinstance(e, bool) else p.fork(e)
    e = enc.lower().replace("-", "")
    wide = e.startswith("utf32")
    order = e[-2:] if e[-2:] in ("le", "be") else ("le" if _sys.byteorder == "little" else "be")
    n = 4 if wide else 2
    bs = list(byte_items)
    if len(bs) % n:
        return None
    units = []
    for i in range(0, len(bs), n):
        ds = bs[i:i + n] if order == "be" else bs[i:i + n][::-1]
        u = 0
        for d in ds:
            u = u * 256 + d
        units.append(u)
    if e in ("utf16", "utf32"):
        if not units or not f(units[0] == 0xFEFF):
            return None
        units = units[1:]
    if wide:
        return units
    cps = []
    i = 0
    while i < len(units):
        u = units[i]
        if f(z3.And(u >= 0xD800, u <= 0xDBFF) if not isinstance(u, int) else 0xD800 <= u <= 0xDBFF):
            if i + 1 >= len(units):
                return None
            l = units[i + 1]
            if not f(z3.And(l >= 0xDC00, l <= 0xDFFF) if not isinstance(l, int) else 0xDC00 <= l <= 0xDFFF):
                return None
            cps.append(0x10000 + (u - 0xD800) * 1024 + (l - 0xDC00))
            i += 2
        else:
            cps.append(u)
            i += 1
    return cps


OUT_CONSTRUCTIONS = ["Template", "lookup.put_string", "lookup-file", "lookup-file-module-directory", "lookup-get_def"]
OUT_ERRORS = ["strict", "replace", "ignore", "xmlcharrefreplace", "htmlentityreplace", "backslashreplace"]


def h_outerr(p):
    return dict(construction=OUT_CONSTRUCTIONS[p.choose(len(OUT_CONSTRUCTIONS), "construction")], oe=["ascii", "latin-1", "utf-16", "utf-8-sig", "cp1251"][p.choose(5, "output_encoding")],
                errors=OUT_ERRORS[p.choose(len(OUT_ERRORS), "encoding_errors")])


def on_outerr(p, r, exc, acc):
    acc.tags["ran"] += 1
    got, want = realproc.call("output_errors_probe", r["construction"], r["oe"], r["errors"])
    acc.replayed += 1
    acc.vcs += 1
    if tuple(got) != tuple(want):
        acc.candidate(kind="render-encoding-errors", input=dict(construction=r["construction"], output_encoding=r["oe"], encoding_errors=r["errors"]),
                      detail="render() gave %r, render_unicode().encode(...) gives %r" % (got, want))
    acc.sample(dict(r))


def C10_utf8(byte_items):
    """strict UTF-8 decoding of byte terms -> code point terms (independent reference, forks on byte classes)"""
    p = core.cur()
    f = lambda e: e if isinstance(e, bool) else p.fork(e)
    bs = list(byte_items)
    cps = []
    i = 0
    while i < len(bs):
        b = bs[i]
        if f(b < 0x80):
            cps.append(b)
            i += 1
            continue
        if f(b < 0xC2):
            return None
        need = 1 if f(b < 0xE0) else (2 if f(b < 0xF0) else (3 if f(b < 0xF5) else None))
        if need is None or i + need >= len(bs) + 0 and i + need > len(bs) - 1:
            return None
        cont = bs[i + 1:i + 1 + need]
        for cb in cont:
            if not f((cb >= 0x80) if isinstance(cb, int) else z3.And(cb >= 0x80, cb <= 0xBF)):
                return None
        if need == 1:
            cp = (b - 0xC0) * 64 + (cont[0] - 0x80)
        elif need == 2:
            cp = (b - 0xE0) * 4096 + (cont[0] - 0x80) * 64 + (cont[1] - 0x80)
        else:
            cp = (b - 0xF0) * 262144 + (cont[0] - 0x80) * 4096 + (cont[1] - 0x80) * 64 + (cont[2] - 0x80)
        cps.append(cp)
        i += 1 + need
    return cps


def make_replay(c):
    i = c["input"] or {"text": "", "output_encoding": None, "as_unicode": True}
    body = """
from mako.template import Template
from mako import exceptions
CASE = __CASE__
KIND = __KIND__
bad = None
if "construction" in CASE:
    sys.path.insert(0, "/verif")
    from props.realops import output_errors_probe
    got, want = output_errors_probe(CASE["construction"], CASE["output_encoding"], CASE["encoding_errors"])
    print(CASE); print("render():", got); print("render_unicode().encode(output_encoding, encoding_errors):", want)
    if tuple(got) != tuple(want): bad = "render() is not render_unicode().encode(output_encoding, encoding_errors)"
elif "declared_by" in CASE:
    sys.path.insert(0, "/verif")
    from props.realops import module_roundtrip
    for stage, got, want in module_roundtrip(CASE["encoding"], CASE["declared_by"], CASE.get("future_imports", False)):
        print(stage, repr(got), "expected", repr(want))
        if got != want: bad = "template text changed on the %s path" % stage
elif "data" in CASE:
    data = CASE["data"]
    print("template bytes:", data, "input_encoding:", CASE["input_encoding"])
    import re, codecs
    raw = data[3:] if data.startswith(codecs.BOM_UTF8) else data
    first = raw.split(b"\\n")[0]
    m = re.match(rb"#.*?coding[:=][ \\t]*([-\\w.]+)", first)
    declared = m.group(1).decode("ascii") if m else None
    enc = declared or ("utf-8" if data.startswith(codecs.BOM_UTF8) else CASE["input_encoding"] or "utf-8")
    try:
        t = Template(data, input_encoding=CASE["input_encoding"]); out = t.render_unicode(); err = None
    except exceptions.CompileException as e:
        out, err = None, e
    except Exception as e:
        print("raised", type(e).__name__, e); out, err = None, None
        bad = "%s escapes instead of a CompileException" % type(e).__name__
    def canon(n):
        try: return codecs.lookup(n).name
        except LookupError: return None
    if bad:
        want = "CompileException"
    elif canon(enc) is None:
        want = "CompileException"
    elif data.startswith(codecs.BOM_UTF8) and declared and canon(declared) != "utf-8":
        want = "CompileException"
    else:
        try:
            body = raw[len(first) + 1:] if declared else raw
            want = body.decode(enc)
        except UnicodeDecodeError:
            want = "CompileException"
    print("expected:", repr(want), "got:", repr(out), err and type(err).__name__)
    if bad:
        pass
    elif want == "CompileException":
        if err is None: bad = "no CompileException"
    elif err is not None: bad = "CompileException: %s" % err
    elif out.replace("\\r\\n", "\\n") != want.replace("\\r\\n", "\\n"): bad = "decoded differently"
else:
    text, oe, au = CASE["text"], CASE["output_encoding"], CASE["as_unicode"]
    t = Template("A${x}B", default_filters=[], output_encoding=oe)
    ref = "A" + text + "B"
    try:
        got = t.render_unicode(x=text) if au else t.render(x=text)
    except UnicodeEncodeError as e:
        got = e
    try:
        want = ref if (au or oe is None) else ref.encode(oe, "strict")
    except UnicodeEncodeError as e:
        want = e
    print("render:", repr(got), "expected:", repr(want))
    if isinstance(want, Exception):
        if not isinstance(got, Exception): bad = "encoded although unencodable"
    elif got != want or type(got) is not type(want): bad = "render() is not render_unicode().encode(output_encoding, encoding_errors)"
print("VIOLATED: " + bad if bad else "HOLDS")
sys.exit(1 if bad else 0)
""".replace("__CASE__", repr(i)).replace("__KIND__", repr(c["kind"]))
    return (c["kind"], body, (c["kind"], repr(sorted(i.items(), key=str))))


def classify(c):
    i = c.get("input") or {}
    if c["kind"] == "module-file-roundtrip" and i.get("encoding") == "utf-16" and i.get("stage") in ("generate", "reload"):
        return "C18-utf16-template-in-module-directory"
    return None


def run(check, tier):
    setup()
    check.encode(*kernel())
    check.assume(
        "input side: the template is a byte string = optional UTF-8 BOM + a first line '#' h1 'coding' c w NAME h2 newline + a concrete "
        "non-ASCII body encoded in one of utf-8/latin-1/ascii/cp1251; h1 (free ASCII), c (one free ASCII character), w (blanks), h2 "
        "(characters that cannot extend a name) are symbolic; BOM, NAME, input_encoding, the body's actual encoding and the newline "
        "kind are solver-chosen; the reference rule is comment > input_encoding > BOM/UTF-8 default",
        "symbolic bytes are ASCII, so decoding them is the identity in every ASCII-compatible codec; concrete byte runs are decoded by the real codec",
        "a coding comment without a line terminator is not asserted; codec names are compared through codecs.lookup (UTF-8, utf8 and utf-8 "
        "are one codec); a name no codec answers to must be a CompileException",
        "output side: real Template('A${x}B', default_filters=[]) rendered with a symbolic str over all Unicode scalar values; "
        "str.encode for ascii/latin-1/utf-8/utf-16(-le,-be)/utf-32-le is the engine's arithmetic model, checked against an independent reference decoder and, per path "
        "witness, against the real codecs")
    check.not_claimed("codec tables beyond utf-8/latin-1/ascii/cp1251", "module-file generation and reload in the declared encoding (file I/O + import)",
                      "the replacement text of each error handler (htmlentityreplace is C10's subject; here only render() == render_unicode().encode(..) is asserted)")
    jobs = []
    for n1 in range(0, {"quick": 1, "thorough": 2}[tier] + 1):
        for nw in range(0, 2):
            for n2 in range(0, 2):
                if tier == "quick" and n1 + nw + n2 > 1:
                    continue
                if n1 == 2 and nw + n2 > 0:
                    continue
                jobs.append(("C18-in-%d-%d-%d" % (n1, nw, n2), h_input(n1, nw, n2), on_input,
                             "input decoding, first line with %d free + separator + %d blank + %d trailing symbolic characters" % (n1, nw, n2),
                             dict(h1=n1, w=nw, h2=n2), ("comment", "no-comment")))
    for n in range(0, {"quick": 1, "thorough": 2}[tier] + 1):
        jobs.append(("C18-out-%d" % n, h_output(n), on_output, "render()/render_unicode() with %d symbolic code points" % n, dict(chars=n), ("ran",)))
    jobs.append(("C18-out-errors", h_outerr, on_outerr, "output_encoding x encoding_errors x the way the Template came to life (real code)",
                 dict(constructions=OUT_CONSTRUCTIONS, errors=OUT_ERRORS), ("ran",)))
    jobs.append(("C18-modfile", h_modfile, on_modfile, "module-directory round trip for solver-chosen (encoding, declaration style): "
                 "concrete replay only", dict(encodings=MOD_ENCS, styles=MOD_STYLES), ("ran",)))
    for j in jobs:
        driver.register(j[0], j[1], j[2])
    cands = []
    for name, _h, _o, title, bounds, req in jobs:
        st, acc = driver.explore(name, time_limit=900)
        check.section(title, st, acc, bounds, tags_required=req)
        cands.extend(acc.candidates)
    check.confirm(cands, make_replay, classify)
    driver.close_pool()
    realproc.shutdown()
