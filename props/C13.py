"""C13 - an exception at any point leaves the render state consistent (inductive step per construct kind)."""
import sys
import types
import z3

from symx import core, values, driver
from . import common, render_step as RS

RT = LK = UT = TP = None


def setup():
    global RT, LK, UT, TP
    if RT is not None:
        return
    RT, LK, UT, TP = common.mako("runtime", "lookup", "util", "template")


def kernel():
    C = RT.Context
    return [RT.CallerStack._push_frame, RT.CallerStack._pop_frame, C._push_buffer, C._pop_buffer, C._push_writer,
            C._pop_buffer_and_writer, C.write, C.writer, RT.capture, RT.supports_caller, RT._decorate_toplevel, RT._decorate_inline,
            RT._include_file, RT._exec_template, RT._render_error]


def h_site(site, hosted=False):
    def h(p):
        return RS.step(p, RT, LK, UT, site, True, hosted)
    return h


def check_state(r, acc, desc, prefix):
    pre, post = r["pre"], r["post"]
    acc.vcs += 3
    if post["buffers"] != pre["buffers"]:
        acc.candidate(kind=prefix + "buffer-stack-depth", input=desc, detail="%d buffers before, %d after" % (pre["buffers"], post["buffers"]))
    if len(post["callers"]) != len(pre["callers"]) or any(a is not b for a, b in zip(post["callers"], pre["callers"])):
        acc.candidate(kind=prefix + "caller-stack", input=desc, detail="caller stack %r -> %r" % ([getattr(x, "tag", x) for x in pre["callers"]], [getattr(x, "tag", x) for x in post["callers"]]))
    if post.get("with_template") is not pre.get("with_template"):
        acc.vcs += 1
        acc.candidate(kind=prefix + "context-template", input=desc, detail="the context's template (lookup, error handling) is %r afterwards, was %r" % (
            getattr(post.get("with_template"), "uri", None), getattr(pre.get("with_template"), "uri", None)))
    if post["nextcaller"] is not pre["nextcaller"]:
        acc.candidate(kind=prefix + "nextcaller", input=desc, detail="pending caller %r -> %r" % (getattr(pre["nextcaller"], "tag", None), getattr(post["nextcaller"], "tag", None)))


def on_site(p, r, exc, acc):
    if exc is not None:
        acc.candidate(kind="harness-exception", input=None, detail="%s: %s" % (type(exc).__name__, str(exc)[:200]))
        return
    site = r["site"]
    did_raise = bool(r["raised"])
    desc = dict(site=site, buffers=r["d"], callers=r["c"], nextcaller_pending=r["pending"], handled_inside=r["hosted"],
                raise_at=r["raise_id"] if did_raise else 0, occurrence=r["raise_occ"] if did_raise else 0)
    normal, on_raise = RS.ALL_SITES[site]
    if not did_raise:
        acc.counts["no probe of this site raised"] += 1
        return
    acc.tags["raised"] += 1
    acc.counts["raise at probe %d" % r["raise_id"]] += 1
    check_state(r, acc, desc, "")
    key = r["raise_id"] if r["raise_id"] in on_raise else (r["raise_id"], r["raise_occ"])
    want = on_raise.get(key)
    acc.vcs += 1
    if r["hosted"]:
        if r["exc"] is not None:
            acc.candidate(kind="handled-exception-escapes", input=desc, detail="%s: %s" % (type(r["exc"]).__name__, r["exc"]))
            return
        if want is not None:
            want = "h" + want + "![none]" + ("hb" if r["pending"] else "nocaller") + "e"
    elif r["exc"] is not r["raised"][-1]:
        acc.candidate(kind="exception-replaced", input=desc, detail="raised %r, arrived %s: %s" % (r["raised"][-1], type(r["exc"]).__name__, r["exc"]))
        return
    acc.vcs += 2
    top = r["contents"][-1] if r["contents"] else None
    d = r["d"]
    if want is not None and len(r["contents"]) == d:
        got = top[len("pre%d|" % (d - 1)):] if top.startswith("pre%d|" % (d - 1)) else top
        if got != want:
            acc.candidate(kind="output-after-exception", input=desc,
                          detail="outer buffer received %r, expected %r (direct writes stay, abandoned buffers are discarded)" % (got, want))
        for i, cnt in enumerate(r["contents"][:-1]):
            if cnt != "pre%d|" % i:
                acc.candidate(kind="lower-buffer-touched", input=desc, detail="buffer %d holds %r" % (i, cnt))
    # rendering continues: the next construct behaves as from a fresh state and writes to the same (outer) buffer
    acc.vcs += 2
    a = r["after"]
    if r["later_exc"] is not None:
        acc.candidate(kind="later-construct-fails", input=desc, detail="%s: %s" % (type(r["later_exc"]).__name__, r["later_exc"]))
    elif len(a["contents"]) == d:
        tail = a["contents"][-1].split("|then:")[-1]
        if tail != RS.SITES["s_call"][0] or "|then:" not in a["contents"][-1]:
            acc.candidate(kind="later-output-misplaced", input=desc, detail="after the handled exception the next construct wrote %r into %r" % (tail, a["contents"]))
    else:
        acc.candidate(kind="later-output-misplaced", input=desc, detail="buffer stack has %d entries afterwards" % len(a["contents"]))
    acc.sample(desc)


# ------------------------------------------------------------------ who ends up with the exception: error_handler / format_exceptions / the caller
class Boom2(Exception):
    pass


class Control(BaseException):
    """a control-flow exception of a framework: not an Exception, carries state, needs its argument"""

    def __init__(self, code):
        self.code = code
        super().__init__(code)


KINDS = {"Exception": lambda: Boom2("x"), "BaseException": lambda: Control(7), "SystemExit": lambda: SystemExit(3)}
H_SITES = {"body": "before ${boom()} after", "include": "before <%include file='inc'/> after",
           "buffered-def": "<%def name='d()' buffered='True'>partial ${boom()}</%def>before ${d()} after",
           "inherited": "<%inherit file='base'/>before ${boom()} after",
           # the exception is raised while the inheritance chain is set up (the expression naming the parent)
           "inherit-expression": "<%inherit file=\"${context['boom']() and 'base'}\"/>before after"}
H_NORMAL = {"body": "before ok after", "include": "before inc ok cni after", "buffered-def": "before partial ok after", "inherited": "B(before ok after)", "inherit-expression": "B(before after)"}


def handler_case(LKm, cfg):
    """returns (outcome, handler_calls, second_render)"""
    E = KINDS[cfg["exception"]]()
    state = {"raise": True}

    def boom():
        if state["raise"]:
            raise E
        return "ok"
    calls = []

    def h(context, error):
        calls.append("same object" if error is E else ("its class" if error is type(E) else repr(error)))
        context.write("[handled]")
        return cfg["error_handler"] == "accept"
    def ih(context, error):
        calls.append("include handler: " + ("same object" if error is E else repr(error)))
        context.write("[ihandled]")
        return cfg.get("include_error_handler") == "accept"
    lk = LKm.TemplateLookup(error_handler=h if cfg["error_handler"] else None, format_exceptions=cfg["format_exceptions"],
                            include_error_handler=ih if cfg.get("include_error_handler") else None)
    lk.put_string("inc", "inc ${boom()} cni")
    lk.put_string("base", "B(${next.body()})")
    lk.put_string("main", H_SITES[cfg["site"]])
    if cfg.get("main_from") == "Template(lookup=)":
        # the page is built by hand and only handed the lookup: it carries none of the lookup's handlers itself, the templates
        # it includes (fetched through the lookup) do
        import sys as _sys
        TPm = _sys.modules[LKm.__name__.rsplit(".", 1)[0] + ".template"]
        t = TPm.Template(H_SITES[cfg["site"]], lookup=lk)
    else:
        t = lk.get_template("main")
    # data named like builtins (the error page must not read its own helpers through the failed render's context)
    extra = dict(max=3, min=2, len=1, range=0, str="s") if cfg.get("data_named_like_builtins") else {}
    if cfg.get("entry") == "render_context":
        # the caller owns the Context and its buffer: the outcome is what that buffer holds afterwards
        import io
        RTm = sys.modules[LKm.__name__.rsplit(".", 1)[0] + ".runtime"]
        buf = io.StringIO()
        ctx = RTm.Context(buf, boom=boom, **extra)
        try:
            t.render_context(ctx)
            out = buf.getvalue()
            res = ("returned", out if len(out) < 80 else ("error page naming %s" % type(E).__name__ if type(E).__name__ in out else "some long text"))
        except BaseException as e:
            res = ("raised", "the same object" if e is E else "another exception: %r" % (e,))
        state["raise"] = False
        buf2 = io.StringIO()
        try:
            t.render_context(RTm.Context(buf2, boom=boom, **extra))
            again = buf2.getvalue()
        except BaseException as e:
            again = "raised %r" % (e,)
        return res, calls, again
    try:
        out = t.render_unicode(boom=boom, **extra)
        res = ("returned", out if len(out) < 80 else ("error page naming %s" % type(E).__name__ if type(E).__name__ in out else "some long text"))
    except BaseException as e:
        res = ("raised", "the same object" if e is E else "another exception: %r" % (e,))
    state["raise"] = False
    try:
        again = t.render_unicode(boom=boom, **extra)
    except BaseException as e:
        again = "raised %r" % (e,)
    return res, calls, again


def handler_expected(cfg):
    pre = ""
    if cfg["site"] == "include" and cfg.get("include_error_handler") and cfg["exception"] == "Exception":
        # the included template's include_error_handler sees an Exception first: accepted -> the includer goes on after the tag
        if cfg["include_error_handler"] == "accept":
            return ("returned", "before inc [ihandled] after")
        pre = "[ihandled]"
    if cfg.get("main_from") == "Template(lookup=)":
        cfg = dict(cfg, error_handler=None, format_exceptions=False)
    if pre and cfg["error_handler"] == "accept":
        return ("returned", "before inc [ihandled][handled]")
    if cfg["error_handler"] == "accept":
        return ("returned", {"body": "before [handled]", "include": "before inc [handled]", "buffered-def": "before [handled]", "inherited": "B(before [handled]", "inherit-expression": "[handled]"}[cfg["site"]])
    if cfg["error_handler"] == "decline" or not cfg["format_exceptions"]:
        return ("raised", "the same object")
    return ("returned", "error page naming %s" % {"Exception": "Boom2", "BaseException": "Control", "SystemExit": "SystemExit"}[cfg["exception"]])


def h_handlers(p):
    cfg = dict(site=list(H_SITES)[p.choose(len(H_SITES), "site")], error_handler=[None, "accept", "decline"][p.choose(3, "error_handler")],
               format_exceptions=bool(p.choose(2, "format_exceptions")), exception=list(KINDS)[p.choose(len(KINDS), "exception_kind")])
    cfg["entry"] = ["render_unicode", "render_context"][p.choose(2, "entry_point")]
    if cfg["format_exceptions"]:
        cfg["data_named_like_builtins"] = bool(p.choose(2, "data_named_like_builtins"))
    if cfg["site"] == "include":
        cfg["include_error_handler"] = [None, "accept", "decline"][p.choose(3, "include_error_handler")]
        cfg["main_from"] = ["lookup.get_template", "Template(lookup=)"][p.choose(2, "page_built_by")]
    res, calls, again = handler_case(LK, cfg)
    return dict(cfg=cfg, res=res, calls=calls, again=again)


def on_handlers(p, r, exc, acc):
    if exc is not None:
        acc.candidate(kind="harness-exception", input=None, detail="%s: %s" % (type(exc).__name__, str(exc)[:200]))
        return
    acc.tags["raised"] += 1
    acc.vcs += 2
    want = handler_expected(r["cfg"])
    if tuple(r["res"]) != want:
        acc.candidate(kind="exception-disposition", input=dict(handlers=r["cfg"]), detail="%r, documented %r" % (r["res"], want))
    elif r["again"] != H_NORMAL[r["cfg"]["site"]]:
        acc.candidate(kind="second-render-wrong", input=dict(handlers=r["cfg"]), detail="second render gave %r" % (r["again"],))
    acc.sample(dict(r["cfg"], outcome=list(r["res"]), handler_received=r["calls"]))



CONTEXT_TEMPLATE_REPLAY = """
# a template of another lookup is rendered into the running context, raises, and the exception is handled in the same def:
# a later <%include> must still be resolved by the lookup of the template that is rendering
from mako.lookup import TemplateLookup
class Boom(Exception): pass
def probe(i):
    if i == 20: raise Boom()
    return "#%d#" % i
main, foreign = TemplateLookup(), TemplateLookup()
main.put_string("inc", "inc-of-the-rendering-lookup"); foreign.put_string("inc", "INC-OF-THE-FOREIGN-LOOKUP")
foreign.put_string("foreign", "N[${probe(20)}]")
SRC = '<%def name="t()">a\\\\\\n% try:\\n<% other.render_context(context) %>\\\\\\n% except Boom:\\n!\\\\\\n% endtry\\n<%include file="inc"/></%def>${t()}'
print(SRC)
main.put_string("main", SRC)
try:
    out = main.get_template("main").render(other=foreign.get_template("foreign"), probe=probe, Boom=Boom)
except Exception as e:
    out = "raised %s: %s" % (type(e).__name__, e)
print("rendered:", repr(out))
bad = None if out == "aN[!inc-of-the-rendering-lookup" else "after the handled exception the context belongs to the abandoned template (its lookup resolves the include)"
print("VIOLATED: " + bad if bad else "HOLDS")
sys.exit(1 if bad else 0)
"""


def make_replay(c):
    i = c["input"] or {}
    if "handlers" in i:
        body = """
sys.path.insert(0, "/verif")
CASE = __CASE__
import mako.lookup as LK
from props import C13
cfg = CASE["handlers"]
print("configuration:", cfg); print("template:", C13.H_SITES[cfg["site"]])
res, calls, again = C13.handler_case(LK, cfg)
want = C13.handler_expected(cfg)
print("outcome:", res, " handler received:", calls, " documented:", want); print("second render:", repr(again))
bad = None
if tuple(res) != want: bad = "the exception did not end up where the configuration says (%s %s)" % tuple(res)
elif again != C13.H_NORMAL[cfg["site"]]: bad = "the Template does not render correctly afterwards"
print("VIOLATED: " + bad if bad else "HOLDS")
sys.exit(1 if bad else 0)
""".replace("__CASE__", repr(i))
        return (c["kind"], body, ("handlers", repr(sorted(i["handlers"].items(), key=str))))
    if c["kind"].endswith("context-template"):
        return (c["kind"], CONTEXT_TEMPLATE_REPLAY, ("context-template",))
    body = """
sys.path.insert(0, "/verif")
CASE = __CASE__
KIND = __KIND__
from mako.lookup import TemplateLookup
from mako import runtime, util
from props.render_step import TEMPLATE_FULL as TEMPLATE, INC, ALL_SITES as SITES, Boom
print("case:", CASE)
site, k, occ = CASE["site"], CASE["raise_at"], CASE["occurrence"]
# public-API reproduction: the site runs inside % try in a def that was called with content; after the handler that def
# uses its caller, other defs are called, and the body keeps rendering
body = TEMPLATE + '''
start|\\\\
<%call expr="h___SITE__()">hb</%call>|<%call expr="wcaller()">after</%call>|${capture(plain)}|${who()}|<%include file="inc"/>|end'''.replace("__SITE__", site)
lk = TemplateLookup(); lk.put_string("inc", INC); lk.put_string("main", body)
seen = {}
state = {"armed": True}
def probe(i):
    seen[i] = seen.get(i, 0) + 1
    if state["armed"] and i == k and seen[i] == occ:
        state["armed"] = False
        raise Boom()
    return "#%d#" % i
def dec(fn):
    def decorate(context, *a, **kw):
        context.write("<"); fn(*a, **kw); context.write(">"); return ""
    return decorate
lk2 = TemplateLookup(); lk2.put_string("foreign", "N[${probe(20)}]"); lk2.put_string("inc", "WRONG-LOOKUP")
data = dict(probe=probe, up=lambda s: s.upper(), tf=lambda s: probe(9) + s.lower(), dec=dec, Boom=Boom, items=lambda m: (7,), other=lk2.get_template("foreign"), q="Q")
bad = None
try:
    out = lk.get_template("main").render(**data)
except Exception as e:
    out = None; bad = "render failed after the handled exception: %s: %s" % (type(e).__name__, e)
if out is not None:
    normal, on_raise = SITES[site]
    want_mid = on_raise.get(k, on_raise.get((k, occ)))
    expect = "start|h" + want_mid + "![none]hbe|" + "W[#4#after#5#]|P[#1#]|none|I[#11#]|end"
    got = "".join(out.split())
    print("rendered:", repr(got)); print("expected:", repr(expect))
    if got != expect: bad = "output after the handled exception differs"
    # and the same Template renders correctly again
    state["armed"] = False; seen.clear()
    again = "".join(lk.get_template("main").render(**data).split())
    if again != "start|h" + normal + "[none]hbe|W[#4#after#5#]|P[#1#]|none|I[#11#]|end": bad = bad or "second render of the same Template is wrong: %r" % again
print("VIOLATED: " + bad if bad else "HOLDS")
sys.exit(1 if bad else 0)
""".replace("__CASE__", repr(i)).replace("__KIND__", repr(c["kind"]))
    return (c["kind"], body, (i.get("site"), i.get("raise_at"), i.get("occurrence")))


def classify(c):
    h_ = (c.get("input") or {}).get("handlers") or {}
    if h_.get("entry") == "render_context" and h_.get("format_exceptions") and h_.get("error_handler") != "accept" and \
            not (h_.get("include_error_handler") == "accept" and h_.get("site") == "include" and h_.get("exception") == "Exception"):
        return "C13-render-context-format-exceptions"
    return None


def run(check, tier):
    setup()
    check.encode(*kernel())
    check.assume(
        "inductive step per construct kind: each of %d sites (plain / buffered / filtered / decorated defs, nested buffered defs, <%%call> and "
        "<%%ns:def> with body, body arguments, capture, loop, <%%text filter>, filtered block, include) is real generated code, called "
        "from a Context whose buffer-stack depth (1-3), caller-stack depth (0-2) and pending nextcaller are symbolic choices; the probe at "
        "which an exception is raised (and its occurrence inside a loop) is a z3 Int" % len(RS.SITES),
        "post-condition on the exceptional exit: buffer-stack depth, caller stack (identity of every frame) and nextcaller are what they were; "
        "the outer buffer received exactly the direct writes made before the raise; lower buffers untouched; a construct rendered "
        "afterwards behaves as from a fresh state",
        "state and outputs are concrete on each path; the solver decides which (raise point, pre-state) combinations are feasible and "
        "exhausts them")
    check.assume("disposition of the exception: an Exception, a BaseException that is not an Exception (carrying state) and SystemExit raised in the "
                 "body / an included / a buffered / an inheriting template, with error_handler absent / accepting / declining and "
                 "format_exceptions on/off (for the include site also include_error_handler absent / accepting / declining, and the page fetched from the lookup or built by hand with lookup=): handled -> output so far plus the handler's; declined or no handler -> the SAME object "
                 "reaches the caller; format_exceptions -> an error page naming the class; then the Template renders again correctly")
    check.not_claimed("error page contents of format_exceptions",
                      "templates beyond the per-construct composition argument")
    jobs = []
    sites = list(RS.SITES) + (list(RS.NESTED) if tier == "thorough" else [n for n in RS.NESTED if n.endswith("_s_call") or n.endswith("_s_buf")])
    for site in sites:
        jobs.append(("C13-" + site, h_site(site), on_site, "exception escaping construct %s, from a symbolic pre-state" % site, dict(site=site), ("raised",)))
        jobs.append(("C13-h-" + site, h_site(site, True), on_site, "exception inside construct %s handled by an enclosing %% try, then rendering continues" % site,
                     dict(site=site, handler="% try in the enclosing def"), ("raised",)))
    jobs.append(("C13-handlers", h_handlers, on_handlers, "error_handler (none / accepts / declines) x format_exceptions x exception kind x raise site: who ends up with the exception",
                 dict(sites=list(H_SITES), kinds=list(KINDS)), ("raised",)))
    for j in jobs:
        driver.register(j[0], j[1], j[2])
    cands = []
    for name, _h, _o, title, bounds, req in jobs:
        st, acc = driver.explore(name, time_limit=600)
        check.section(title, st, acc, bounds, tags_required=req)
        cands.extend(acc.candidates)
    check.confirm(cands, make_replay, classify)
    driver.close_pool()
