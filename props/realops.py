"""concrete operations on the *unpatched* real mako; executed in the realserver child (or in replay scripts)."""
import sys


def _node(n):
    from mako import parsetree as pt
    t = type(n).__name__
    if isinstance(n, pt.Text):
        return ("Text", n.content, n.lineno, n.pos)
    if isinstance(n, pt.Comment):
        return ("Comment", n.text, n.lineno, n.pos)
    if isinstance(n, pt.ControlLine):
        return ("ControlLine", n.keyword, n.isend, n.text, n.lineno, n.pos, tuple(_node(c) for c in n.nodes) if False else ())
    if isinstance(n, pt.Expression):
        return ("Expression", n.text, n.escapes_code.code if hasattr(n.escapes_code, "code") else None, n.lineno, n.pos)
    if isinstance(n, pt.Code):
        return ("Code", n.text, n.ismodule, n.lineno, n.pos)
    if isinstance(n, pt.Tag):
        return ("Tag", n.keyword, tuple(sorted(n.attributes.items())), n.lineno, n.pos, tuple(_node(c) for c in n.nodes))
    return (t,)


_PRE = {
    None: None,
    "prepend-banner": lambda t: "B:" + t,
    "append-footer": lambda t: t + "\n:F",
    "expand-shorthand": lambda t: t.replace("@", "${x}"),
}


def lex_structure(s, pre=None):
    """real Lexer with Python parsing disabled (same stubs as the symbolic run, but real `re`)"""
    import types
    from mako import lexer, parsetree, exceptions

    class StubCode:
        def __init__(self, code, **kw):
            self.code = code
            self.declared_identifiers = set()
            self.undeclared_identifiers = set()
            self.args = []

    class StubTag(parsetree.Node):
        def __init__(self, keyword, attributes, **kw):
            super().__init__(**kw)
            self.keyword = keyword
            self.attributes = attributes
            self.nodes = []
            self.parent = None

    saved = (parsetree.ast, lexer.adjust_whitespace, lexer.parsetree)
    parsetree.ast = types.SimpleNamespace(PythonCode=StubCode, ArgumentList=StubCode, PythonFragment=StubCode,
                                          FunctionDecl=StubCode, FunctionArgs=StubCode)
    # adjust_whitespace runs for real (as in the symbolic run)
    ns = types.SimpleNamespace(**{k: v for k, v in vars(parsetree).items() if not k.startswith("__")})
    ns.Tag = StubTag
    lexer.parsetree = ns
    try:
        try:
            t = lexer.Lexer(s, preprocessor=_PRE[pre]).parse() if pre else lexer.Lexer(s).parse()
        except (exceptions.SyntaxException, exceptions.CompileException) as e:
            return ("exc", type(e).__name__, e.lineno, e.pos)
        return ("ok", flat(t.nodes))
    finally:
        parsetree.ast, lexer.adjust_whitespace, lexer.parsetree = saved


def flat(nodes):
    out = []
    for n in nodes:
        t = type(n).__name__
        if t == "Text":
            out.append(("Text", n.content, n.lineno, n.pos))
        elif t == "Comment":
            out.append(("Comment", n.text, n.lineno, n.pos))
        elif t == "ControlLine":
            out.append(("ControlLine", n.keyword, n.isend, n.text, n.lineno, n.pos))
        elif t == "Expression":
            out.append(("Expression", n.text, n.escapes_code.code, n.lineno, n.pos))
        elif t == "Code":
            out.append(("Code", n.text, n.ismodule, n.lineno, n.pos))
        else:
            out.append(("Tag", n.keyword, tuple(sorted(n.attributes.items())), n.lineno, n.pos, tuple(flat(n.nodes))))
    return out


def render(s, **kw):
    from mako.template import Template
    from mako import exceptions
    try:
        return ("ok", Template(s, **kw).render_unicode())
    except (exceptions.SyntaxException, exceptions.CompileException) as e:
        return ("exc", type(e).__name__, e.lineno, e.pos)
    except Exception as e:
        return ("err", type(e).__name__, str(e)[:200])


def lex_time(s):
    import time
    from mako import lexer, exceptions
    t = time.perf_counter()
    try:
        lexer.Lexer(s).parse()
    except exceptions.MakoException:
        pass
    return time.perf_counter() - t


def lookup_probe(uri, dirs, moddir, via, rel, notfiles=()):
    """real TemplateLookup / Template.__init__ with the same environment stubs as the symbolic C09 run"""
    import types
    import os
    from mako import lookup as LK, template as TP, runtime as RT, exceptions as EXC
    ops = []

    class P:
        sep = "/"

        @staticmethod
        def isfile(p):
            return p not in notfiles

    class O:
        path = P
        sep = "/"

    saved = (LK.os, TP.Template._compile_from_file, os.getcwd)
    LK.os = O

    def fake(self, path, filename):
        ops.append(("compile", path, filename))
        return types.SimpleNamespace(render_body=lambda *a, **k: None, _modified_time=0)

    TP.Template._compile_from_file = fake
    os.getcwd = lambda: "/cwd"
    try:
        lk = LK.TemplateLookup(dirs, module_directory=moddir, filesystem_checks=False)
        try:
            if via == "direct":
                t = lk.get_template(uri)
            else:
                ctx = types.SimpleNamespace(_with_template=types.SimpleNamespace(lookup=lk, uri=rel))
                t = RT._lookup_template(ctx, uri, rel)
        except Exception as e:
            return ("exc", type(e).__name__)
        return ("ok", t.filename, ops)
    finally:
        LK.os, TP.Template._compile_from_file, os.getcwd = saved


def two_lookups(cfg):
    """two TemplateLookups in one process, each with its own directories, serving the same URI with different content:
    returns [(which lookup, rendered, expected, source file inside its own directory?)] for the sequence of requests"""
    import os
    import shutil
    import tempfile
    import time
    from mako.lookup import TemplateLookup
    base = tempfile.mkdtemp(prefix="c09two")
    try:
        lks, want = {}, {}
        now = time.time()
        for name in ("A", "B"):
            root = os.path.join(base, name, "templates")
            os.makedirs(root)
            with open(os.path.join(root, "page.html"), "w") as f:
                f.write("<%! who = '" + name + "' %>page of " + name + " ${who} <%include file='/part.html'/>")
            with open(os.path.join(root, "part.html"), "w") as f:
                f.write("part of " + name)
            age = {"same": 100, "A-newer": 100 if name == "A" else 200, "B-newer": 200 if name == "A" else 100}[cfg["mtimes"]]
            for fn in ("page.html", "part.html"):
                os.utime(os.path.join(root, fn), (now - age, now - age))
            moddir = None
            if cfg["module_directory"] == "own":
                moddir = os.path.join(base, name, "modules")
            elif cfg["module_directory"] == "shared":
                moddir = os.path.join(base, "modules")
            lks[name] = (TemplateLookup([root], module_directory=moddir), root, moddir)
            want[name] = "page of %s %s part of %s" % (name, name, name)
        out = []
        for name in cfg["order"]:
            lk, root, moddir = lks[name]
            if cfg.get("fresh_lookup_per_request"):
                lk = TemplateLookup([root], module_directory=moddir)       # as a later request handler / worker would build it
            try:
                t = lk.get_template("/page.html")
                got = t.render()
                inside = os.path.realpath(t.filename).startswith(os.path.realpath(root) + os.sep)
            except Exception as e:
                got, inside = "raised %s: %s" % (type(e).__name__, e), True
            out.append((name, got, want[name], inside))
            if cfg["module_directory"] != "none" and cfg.get("age_modules"):
                # the module files just written are made older than both sources' successors: nothing on disk is "newer"
                for d, _s, files in os.walk(base):
                    for fn in files:
                        if fn.endswith(".py"):
                            os.utime(os.path.join(d, fn), (now - 50, now - 50))
        return out
    finally:
        shutil.rmtree(base, ignore_errors=True)


def has_template_probe(uri, dirs, moddir, notfiles=()):
    """real TemplateLookup.has_template with the adversarial file system of the symbolic C09 run"""
    import types
    import os
    from mako import lookup as LK, template as TP

    class P:
        sep = "/"

        @staticmethod
        def isfile(p):
            return p not in notfiles

    class O:
        path = P
        sep = "/"

    saved = (LK.os, TP.Template._compile_from_file, os.getcwd)
    LK.os = O
    TP.Template._compile_from_file = lambda self, path, filename: types.SimpleNamespace(render_body=lambda *a, **k: None, _modified_time=0)
    os.getcwd = lambda: "/cwd"
    try:
        return LK.TemplateLookup(dirs, module_directory=moddir, filesystem_checks=False).has_template(uri)
    finally:
        LK.os, TP.Template._compile_from_file, os.getcwd = saved


def filter_apply(which, text):
    from mako import filters
    fn = {"x": filters.xml_escape, "h": filters.html_escape, "u": filters.url_escape, "trim": filters.trim,
          "entity": filters.html_entities_escape}[which]
    return str(fn(text))


def encode_replace(text):
    """real codec machinery with encoding_errors='htmlentityreplace' for several charsets: {charset: (ok, detail)}"""
    from mako import filters  # registers the handler
    out = {}
    for cs in ("ascii", "latin-1", "cp1251", "shift_jis", "utf-8", "cp037", "iso2022_jp"):
        try:
            text.encode(cs, "strict")
            continue   # natively encodable in this charset: the handler is not involved
        except UnicodeEncodeError:
            pass
        try:
            b = text.encode(cs, "htmlentityreplace")
            back = ref_unescape(b.decode(cs))
            out[cs] = (back == text, "%r.encode(%r, 'htmlentityreplace') = %r decodes to %r" % (text, cs, b, back))
        except Exception as e:
            out[cs] = (False, "%r.encode(%r, 'htmlentityreplace') raised %s: %s" % (text, cs, type(e).__name__, e))
    # the same through a template with several writes (text, expression, text, expression), also for charsets whose encoder
    # starts its output with a signature
    from mako.template import Template
    for cs in ("ascii", "latin-1", "utf-16", "utf-8-sig", "utf-32", "utf-16-le"):
        try:
            b = Template("<p>${x}</p>${x}", output_encoding=cs, encoding_errors="htmlentityreplace").render(x=text)
            back = ref_unescape(b.decode(cs))
            want = "<p>" + text + "</p>" + text
            if back != want:
                out["render:" + cs] = (False, "rendered to %s: %r decodes to %r, written %r" % (cs, b, back, want))
        except Exception as e:
            out["render:" + cs] = (False, "rendering to %s raised %s: %s" % (cs, type(e).__name__, e))
    return out


def ref_unescape(text):
    """reference decoder of &name; (HTML 4 names, html.entities.name2codepoint), &#D; and &#xH; references"""
    import re
    from html.entities import name2codepoint

    def one(m):
        t = m.group(1)
        if t.startswith("#x") or t.startswith("#X"):
            return chr(int(t[2:], 16))
        if t.startswith("#"):
            return chr(int(t[1:]))
        return chr(name2codepoint[t]) if t in name2codepoint else m.group(0)
    return re.sub(r"&(#[0-9]+|#[xX][0-9a-fA-F]+|[A-Za-z][A-Za-z0-9]*);", one, text)


def compile_error(text, filename):
    """(exception class name, lineno, pos) from the real lexer with Python parsing stubbed as in the symbolic run"""
    import types
    from mako import lexer, parsetree, exceptions

    class StubCode:
        def __init__(self, code, **kw):
            self.code = code
            self.declared_identifiers = set()
            self.undeclared_identifiers = set()
            self.args = []

    saved = parsetree.ast
    parsetree.ast = types.SimpleNamespace(PythonCode=StubCode, ArgumentList=StubCode, PythonFragment=StubCode,
                                          FunctionDecl=StubCode, FunctionArgs=StubCode)
    try:
        try:
            lexer.Lexer(text, filename=filename).parse()
        except (exceptions.SyntaxException, exceptions.CompileException) as e:
            return (type(e).__name__, e.lineno, e.pos)
        return (None, None, None)
    finally:
        parsetree.ast = saved


def template_error(text, filename):
    """(exception class name, lineno, pos) of the full real compilation (lexing, node construction with real Python parsing, code generation)"""
    from mako.template import Template
    from mako import exceptions
    try:
        Template(text, filename=filename)
    except (exceptions.SyntaxException, exceptions.CompileException) as e:
        return (type(e).__name__, e.lineno, e.pos)
    return (None, None, None)


def error_display(text, filename, via="direct"):
    """what html_error_template shows for the compile error of `text`:
    (lineno, list of displayed source lines, index of the line for lineno in that list) or None if it compiles.
    via="include": the faulty template is compiled for the first time while another template, which includes it, is rendering"""
    import sys
    from mako import exceptions
    from mako.template import Template
    try:
        if via == "include":
            from mako.lookup import TemplateLookup
            lk = TemplateLookup()
            lk.put_string("/parent.html", "p1\np2\np3\np4\np5\n<%include file='/broken.html'/>\np7\n")
            # the faulty template is only compiled when the include runs
            lk.get_template = (lambda orig: (lambda uri: Template(text, filename=filename, lookup=lk) if uri == "/broken.html" else orig(uri)))(lk.get_template)
            lk.get_template("/parent.html").render()
        else:
            Template(text, filename=filename)
        return None
    except (exceptions.SyntaxException, exceptions.CompileException) as e:
        err = e
        tb = sys.exc_info()[2]
    saved = (exceptions.syntax_highlight, exceptions.pygments_html_formatter)
    exceptions.syntax_highlight = lambda filename="", language=None: (lambda s: "@@B@@" + s + "@@E@@")
    exceptions.pygments_html_formatter = None
    try:
        out = exceptions.html_error_template().render_unicode(error=err, traceback=tb, full=False, css=False)
    finally:
        exceptions.syntax_highlight, exceptions.pygments_html_formatter = saved
    sample = out.split('<div class="stacktrace">')[0]
    import re
    shown = re.findall("@@B@@(.*?)@@E@@", sample, re.S)
    line = err.lineno
    return (line, shown, (line - 1) - max(0, line - 4))


def pipeline_render(cfg):
    """render ${x | local} under default_filters / <%page expression_filter> with tagging (non-commuting) user filters and
    compare with the documented composition computed directly: returns (rendered, expected)"""
    import types
    import string
    from mako.template import Template
    from mako import filters
    # user filters are sensitive to the TYPE of what they are handed: the value rendered is an object, not a str
    tag = lambda name: (lambda s: "<%s:%s>" % (name, s if isinstance(s, str) else "OBJECT"))
    ctx = {}
    for c in string.ascii_lowercase:
        if c not in "nhxu":
            ctx[c] = tag(c)
    ctx["ff"] = tag("ff")
    ctx["gg"] = lambda k: tag("gg%d" % k)
    ctx["ns"] = types.SimpleNamespace(ff=lambda a, b: tag("nsff%s%s" % (a, b)), mk=lambda k: types.SimpleNamespace(ap=tag("mk%d" % k)))
    ctx["aa"], ctx["bb"] = 1, 2
    value = " <v&'\xe9> "
    table = {"x": filters.xml_escape, "h": filters.html_escape, "u": filters.url_escape, "trim": filters.trim,
             "entity": filters.html_entities_escape, "unicode": str, "str": str, "decode.utf8": filters.decode.utf8}

    def fn(name):
        if name in table:
            return table[name]
        return eval(name, {}, dict(ctx, u=7))

    local, d, pg = cfg["local"], cfg["default_filters"], cfg["page_expression_filter"]
    d = ["str"] if d is None else d
    chain = list(local)
    if "n" not in local:
        if pg is not None:
            chain = list(pg) + chain
        if "n" not in (pg or []):
            chain = list(d) + chain
    class Value:
        def __str__(self):
            return value
    applied = [name for name in chain if name != "n"]
    obj = Value() if applied else value         # with nothing applied the value reaches the writer as it is: keep it a str
    try:
        expected = obj
        for name in applied:
            expected = fn(name)(expected)
        expected = str(expected)
    except (TypeError, AttributeError) as e:
        expected = "raised: the filter does not take an object"
    src = ""
    if pg is not None:
        src += '<%%page expression_filter="%s"/>' % ", ".join(pg).replace('"', "'")
    sp = cfg.get("spelling", "plain")
    if not local:
        flt = ""
    elif sp == "newline-after-comma":
        flt = " | " + ",\n     ".join(local)
    elif sp == "comment-after-last":
        flt = " | " + ", ".join(local) + "  # the filters\n"
    elif sp == "leading-newline":
        flt = " |\n   " + ", ".join(local) + "\n"
    else:
        flt = " | " + ", ".join(local)
    src += "${x%s}" % flt
    kw = {}
    if cfg["default_filters"] is not None:
        kw["default_filters"] = cfg["default_filters"]
    # names used in default_filters / expression_filter must be visible at module level: provide them through imports=
    import sys
    mod = types.ModuleType("c02_filters_mod")
    mod.__dict__.update({k: v for k, v in ctx.items() if k != "x"})
    mod.__all__ = [k for k in ctx if k != "x"]
    sys.modules["c02_filters_mod"] = mod
    kw["imports"] = ["from c02_filters_mod import " + ", ".join(mod.__all__)]
    # once as configured, once more under strict_undefined (the filter flags are not variables; the filter functions are given)
    for strict in (False, True):
        try:
            got = Template(src, strict_undefined=strict, **kw).render_unicode(x=obj, u=7, **({k: v for k, v in ctx.items() if k != "x"} if strict else {}))
        except (TypeError, AttributeError) as e:
            got = "raised: the filter does not take an object"
        except Exception as e:
            got = "raised %s: %s%s" % (type(e).__name__, e, " (strict_undefined)" if strict else "")
        if got != expected:
            break
    return (got, expected)


def remargin(block, indent):
    """real adjust_whitespace + PythonPrinter re-margining of a code block at the given indent level"""
    import io
    from mako import pygen
    adj = pygen.adjust_whitespace(block) + "\n"
    st = io.StringIO()
    pr = pygen.PythonPrinter(st)
    pr.indent = indent
    pr.indent_detail = ["def"] * indent
    pr.write_indented_block(adj)
    pr._flush_adjusted_lines()
    return st.getvalue()


def decode_probe(raw, known):
    from mako import lexer, parsetree, exceptions
    import types

    class StubCode:
        def __init__(self, code, **kw):
            self.code = code
            self.declared_identifiers = set()
            self.undeclared_identifiers = set()
            self.args = []

    saved = parsetree.ast
    parsetree.ast = types.SimpleNamespace(PythonCode=StubCode, ArgumentList=StubCode, PythonFragment=StubCode,
                                          FunctionDecl=StubCode, FunctionArgs=StubCode)
    try:
        lx = lexer.Lexer(raw, filename="t.html", input_encoding=known)
        try:
            lx.parse()
        except exceptions.CompileException:
            return ("exc",)
        return ("ok", lx.encoding)
    finally:
        parsetree.ast = saved


def render_probe(text, oe, as_unicode):
    from mako.template import Template
    t = Template("A${x}B", default_filters=[], output_encoding=oe, encoding_errors="strict")
    try:
        return ("ok", t.render_unicode(x=text) if as_unicode else t.render(x=text))
    except UnicodeEncodeError:
        return ("exc",)


def module_roundtrip(enc, style, future=False):
    """template file in encoding `enc` (declared by `style`) compiled through a module directory, rendered, then reloaded
    from the module file by a fresh Template: returns list of (stage, rendered, expected)"""
    import os
    import shutil
    import tempfile
    from mako.template import Template
    texts = {"utf-8": "café Ж €", "latin-1": "café ü", "cp1251": "Жж ш", "koi8-r": "Жж", "ascii": "plain", "utf-16": "héllo Ж"}
    body = texts[enc]
    if enc == "utf-16" and style != "input_encoding":
        return []            # a coding comment cannot be read in a UTF-16 file: only input_encoding can name it
    src = ("## -*- coding: %s -*-\n" % enc if style in ("comment", "both") else "") + body + "${'!'}\n"
    kw = {"input_encoding": enc} if style in ("input_encoding", "both") else {}
    bom = b""
    if style in ("bom", "bom+comment"):
        # a UTF-8 file that starts with a byte-order mark (which is not template content), with or without a coding comment
        import codecs
        if enc != "utf-8":
            return []
        bom = codecs.BOM_UTF8
        src = ("## -*- coding: utf-8 -*-\n" if style == "bom+comment" else "") + body + "${'!'}\n"
        kw = {}
    expect_error = False
    if style in ("bom+input_encoding", "bom+contradicting-comment"):
        import codecs
        if enc != "utf-8":
            return []
        bom = codecs.BOM_UTF8
        if style == "bom+input_encoding":
            # a UTF-8 file with a byte-order mark on a site whose input_encoding is a single-byte codec: the mark wins
            src, kw = body + "${'!'}\n", {"input_encoding": "latin-1"}
        else:
            # the mark contradicted by the comment: a compile error on every path
            src, kw, expect_error = "## -*- coding: iso-8859-1 -*-\n" + body + "${'!'}\n", {}, True
    if future:
        kw["future_imports"] = ["annotations"]
    if style == "conflicting":
        # the comment names the file's real encoding, input_encoding another one: the comment takes precedence
        src = "## -*- coding: %s -*-\n" % enc + body + "${'!'}\n"
        kw = {"input_encoding": {"utf-8": "latin-1", "latin-1": "utf-8", "cp1251": "koi8-r", "koi8-r": "cp1251", "ascii": "utf-8"}[enc]}
    base = tempfile.mkdtemp(prefix="c18mod")
    out = []
    try:
        f = os.path.join(base, "t.html")
        with open(f, "wb") as fp:
            fp.write(bom + src.encode(enc))
        for stage in ("generate", "reload"):
            try:
                got = Template(filename=f, module_directory=os.path.join(base, "mods"), **kw).render_unicode()
            except Exception as e:
                got = "raised %s: %s" % (type(e).__name__, e)
            out.append((stage, got, body + "!\n"))
        try:
            got = Template(filename=f, **kw).render_unicode()
        except Exception as e:
            got = "raised %s: %s" % (type(e).__name__, e)
        out.append(("memory", got, body + "!\n"))
        try:
            from mako.lookup import TemplateLookup
            got = TemplateLookup([base], **kw).get_template("t.html").render_unicode()
        except Exception as e:
            got = "raised %s: %s" % (type(e).__name__, e)
        out.append(("lookup-memory", got, body + "!\n"))
    finally:
        shutil.rmtree(base, ignore_errors=True)
    if expect_error:
        out = [(st, ("raised CompileException" if g.startswith("raised CompileException") else g), "raised CompileException") for st, g, _w in out]
    return out


_C08 = {
    "plain": {"/t": "text ${x} <%def name='d()'>D${x}</%def>${d()}|${capture(d)}"},
    "inherits": {"/t": "<%inherit file='/base'/><%def name='d()'>D ${parent.pd()} ${local.uri} ${self.uri} ${x}</%def>body ${d()}",
                 "/base": "<%def name='pd()'>PD</%def>B(${next.body()})"},
    "namespaces": {"/t": "<%namespace name='ns' file='/lib'/><%def name='d()'>${ns.f()} ${x}</%def>${d()} <%include file='/lib'/>",
                   "/lib": "<%def name='f()'>F</%def>lib"},
    "nonascii": {"/t": "## -*- coding: utf-8 -*-\ncafé Ж ${x} <%def name='d()'>€${x}</%def>${d()}"},
    "latin1": {"/t": "## -*- coding: iso-8859-1 -*-\ncafé ü ${x} <%def name='d()'>ß${x}</%def>${d()}"},
}
_C08_ENC = {"latin1": "iso-8859-1"}


def path_equivalence(name, path):
    """(output on `path`, output of the same template compiled from a string); for get_def the def's output from the body"""
    import os
    import shutil
    import tempfile
    from mako.lookup import TemplateLookup
    from mako.template import Template, ModuleTemplate
    from mako.runtime import Context
    from mako import util
    files = _C08[name]
    data = {"x": " X = é "}       # blanks and an equals sign: the value must arrive unchanged on every path, the command line included
    ref_lk = TemplateLookup()
    for k, v in files.items():
        ref_lk.put_string(k, v)
    ref = ref_lk.get_template("/t").render_unicode(**data)
    base = tempfile.mkdtemp(prefix="c08")
    try:
        root = os.path.join(base, "root")
        os.makedirs(root)
        for k, v in files.items():
            with open(os.path.join(root, k.lstrip("/")), "wb") as fp:
                fp.write(v.encode(_C08_ENC.get(name, "utf-8")))
        mods = os.path.join(base, "mods")
        try:
            return _path_equivalence_inner(name, path, files, data, ref_lk, ref, root, mods)
        except Exception as e:
            return ("raised %s: %s" % (type(e).__name__, e), ref)
    finally:
        shutil.rmtree(base, ignore_errors=True)


def _path_equivalence_inner(name, path, files, data, ref_lk, ref, root, mods):
    import os
    from mako.lookup import TemplateLookup
    from mako.template import Template, ModuleTemplate
    from mako.runtime import Context
    from mako import util
    if True:
        if path == "string":
            got = ref_lk.get_template("/t").render_unicode(**data)
        elif path == "file":
            got = TemplateLookup([root]).get_template("/t").render_unicode(**data)
        elif path == "module_directory":
            got = TemplateLookup([root], module_directory=mods).get_template("/t").render_unicode(**data)
        elif path == "reloaded":
            TemplateLookup([root], module_directory=mods).get_template("/t").render_unicode(**data)
            got = TemplateLookup([root], module_directory=mods).get_template("/t").render_unicode(**data)
        elif path == "render_unicode":
            got = TemplateLookup([root], output_encoding="utf-8").get_template("/t").render(**data).decode("utf-8")
        elif path == "render_context":
            buf = util.FastEncodingBuffer()
            ctx = Context(buf, **data)
            ref_lk.get_template("/t").render_context(ctx)
            got = buf.getvalue()
        elif path == "module_template":
            lk = TemplateLookup([root], module_directory=mods)
            t = lk.get_template("/t")
            mt = ModuleTemplate(t.module, lookup=lk, template_filename=t.filename, template_source=t.source)
            got = mt.render_unicode(**data)
        elif path == "mako_render":
            # the mako-render command with the same variables
            import io
            import sys
            from mako import cmd
            saved = sys.stdout
            sys.stdout = buf = io.StringIO()
            try:
                cmd.cmdline(["--template-dir", root] + [a for k, v in data.items() for a in ("--var", "%s=%s" % (k, v))] + [os.path.join(root, "t")])
            finally:
                sys.stdout = saved
            # mako-render names the template by its file path (there is no URI on the command line): a template that prints its
            # own uri prints that path
            got = buf.getvalue().replace(root, "")
        elif path == "mako_render_output_encoding":
            # the command with --output-encoding, to stdout and to --output-file
            import io
            import sys
            from mako import cmd
            outs = []
            for to_file in (False, True):
                target = os.path.join(root, "..", "out.txt")
                argv = ["--template-dir", root, "--output-encoding", "utf-8"] + [a for k, v in data.items() for a in ("--var", "%s=%s" % (k, v))]
                if to_file:
                    argv += ["--output-file", target]
                raw = io.BytesIO()
                saved = sys.stdout
                sys.stdout = wrapper = io.TextIOWrapper(raw, encoding="utf-8", write_through=True)
                try:
                    cmd.cmdline(argv + [os.path.join(root, "t")])
                    wrapper.flush()
                finally:
                    sys.stdout = saved
                    wrapper.detach()          # keep the byte buffer open
                if to_file:
                    with open(target, "rb") as fp:
                        outs.append(fp.read().decode("utf-8"))
                else:
                    outs.append(raw.getvalue().decode("utf-8"))
            if outs[0] != outs[1]:
                return ("stdout %r / --output-file %r" % (outs[0][:40], outs[1][:40]), "the same text")
            got = outs[0].replace(root, "")
        elif path == "moved_source":
            # compiled into a module directory, then the template directory is renamed (mtimes unchanged, the module file is
            # re-used) and an unrelated file appears at the old place: source / code / output are still this template's own
            import shutil
            lk = TemplateLookup([root], module_directory=mods)
            t1 = lk.get_template("/t")
            first = (t1.render_unicode(**data), t1.source, t1.code)
            root2 = root + "-moved"
            os.rename(root, root2)
            os.makedirs(root)
            with open(os.path.join(root, "t"), "w") as fp:
                fp.write("an unrelated file at the old location")
            try:
                t2 = TemplateLookup([root2], module_directory=mods).get_template("/t")
                second = (t2.render_unicode(**data), t2.source, t2.code)
            finally:
                shutil.rmtree(root, ignore_errors=True)
                os.rename(root2, root)
            if second[1:] != first[1:]:
                return ("source/code after the move: %r" % (second[1][:60],), "source/code before the move: %r" % (first[1][:60],))
            got = second[0]
        elif path == "stale_generation_module":
            # the module directory holds a module file written by another generation of the code generator (other magic
            # number, newer than the template): it is regenerated, and what is rendered / reported is the regenerated module
            from mako import codegen
            lk = TemplateLookup([root], module_directory=mods)
            t1 = lk.get_template("/t")
            path_ = t1.module.__file__
            with open(path_, "rb") as fp:
                old = fp.read()
            marker = b"__M_writer = context.writer()"
            magic = ("_magic_number = %r" % codegen.MAGIC_NUMBER).encode()
            assert marker in old and magic in old
            old = old.replace(magic, ("_magic_number = %r" % (codegen.MAGIC_NUMBER - 1)).encode())
            old = old.replace(marker, marker + b"; __M_writer('WRITTEN-BY-AN-OLDER-GENERATOR ')")
            with open(path_, "wb") as fp:
                fp.write(old)
            t2 = TemplateLookup([root], module_directory=mods).get_template("/t")
            got = t2.render_unicode(**data)
            if "OLDER-GENERATOR" in (t2.code or "") and "OLDER-GENERATOR" not in got:
                return ("Template.code is the outdated module", "Template.code is the module that renders")
            if got == ref and b"OLDER-GENERATOR" in open(path_, "rb").read():
                return ("the outdated module file is still in place", "regenerated module file")
        elif path == "get_def_arguments":
            # a def with arguments rendered on its own: every argument given to render() arrives, None / 0 / '' / False included
            src = "<%def name='row(label, value=\"n/a\", *extra, flag=1)'>${repr(label)}|${repr(value)}|${repr(flag)}</%def>"
            outs, refs = [], []
            for v in (None, 0, "", False, "v"):
                t = Template(src + "${row(label, value=value, flag=flag)}")
                refs.append(t.render_unicode(label=v, value=v, flag=v))
                outs.append(Template(src).get_def("row").render_unicode(label=v, value=v, flag=v))
            return (" ".join(outs), " ".join(refs))
        elif path == "get_def":
            # the def rendered on its own must give what it gives when called from the body
            got = TemplateLookup([root]).get_template("/t").get_def("d").render_unicode(**data)
            one = TemplateLookup()
            for k, v in files.items():
                one.put_string(k, v)
            one.put_string("/only", files["/t"].split("</%def>")[0] + "</%def><%def name='probe__()'>${d()}</%def>")
            marker = ref_lk.get_template("/t")
            # reference: the text the body's ${d()} call contributes = full output of a body consisting only of that call
            files2 = dict(files)
            head = files["/t"].split("</%def>")[0] + "</%def>"
            files2["/t"] = head + "${d()}"
            lk2 = TemplateLookup()
            for k, v in files2.items():
                lk2.put_string(k, v)
            full = lk2.get_template("/t").render_unicode(**data)
            ref = full[2:-1] if name == "inherits" else full      # strip the base template's B( ... ) wrapper
            if name == "nonascii":
                ref = full[full.index("€"):]
            if name == "latin1":
                ref = full[full.index("ß"):]
            if name == "plain":
                ref = full[full.index("D"):]
        else:
            raise ValueError(path)
        return (got, ref)


_C20_CORPUS = """<%page args="pa=_('page-arg')"/>
<%! mod = _('module-block') %>
text _('decoy-text') here
## _('decoy-comment')
<%doc> _('decoy-doc') </%doc>
<%text> _('decoy-texttag') </%text>
${_('expression')}
${x | _('filter-list')}
% if _('if-line'):
% elif _('elif-line'):
% endif
% for i in _('for-line'):
% endfor
% try:
% except _('except-clause'):
% endtry
<%
    a = _('code-block-2')
    b = 1
    c = _('code-block-4')
%>
<%def name="d(a=_('def-signature'))">
  ${_('inside-def')}
</%def>
<%block name="b" args="a=_('block-args')">
</%block>
<%call expr="d(_('call-expr'))">
  ${_('inside-call')}
</%call>
<%self:d a="${_('nsdef-attr')}">
</%self:d>
<%def
   name="e(a=_('multiline-tag-def'))">
</%def>
${_('multi',
    'ignored') + _('multiline-expression-2')}
${
    _('expression-on-later-line')}
${x
   | f(_('filter-list-on-later-line'))}
${except_hint(_('expression-starting-with-except'))}
<% exceptional = _('block-starting-with-except') %>
${(
  x

  or _('expression-after-blank-line')
)}
${_ ('space-before-parenthesis')}
<% spaced = _  ('two-spaces-before-parenthesis') %>
<%namespace name="inl">
  <%def name="nd(a=_('inline-namespace-def-default'))">${_('inline-namespace-def-body')}</%def>
</%namespace>
${x |
   f(_('filter-list-after-pipe-newline'))}
<%namespace name="inl2" file="${_('decoy-not-python-bearing') and 'x.html'}"/>
<%block name="argblock" args="

    heading=_('block-args-value-starting-on-a-later-line'),
    sub=_('block-args-second-line')">
</%block>
"""


def extract_template(which, tmpl):
    """[(line, message, comments)] from the real extractor"""
    import io
    if which == "babel":
        from mako.ext import babelplugin
        return [(r[0], r[2] if isinstance(r[2], str) else r[2][0], list(r[3]))
                for r in babelplugin.extract(io.BytesIO(tmpl.encode("utf-8")), ["_"], ["TRANSLATORS:"], {"encoding": "utf-8"})]
    try:
        from lingua.extractors import register_extractors
        from mako.ext.linguaplugin import LinguaMakoExtractor
    except ImportError:
        return None
    register_extractors()

    class Opt:
        keywords = []
        domain = None
        comment_tag = True

    ex = LinguaMakoExtractor({"comment-tags": "TRANSLATORS:"})
    return [(m.location[1], m.msgid, m.comment) for m in ex("t.mako", Opt, io.StringIO(tmpl))]


def extract_corpus(which, leading_blank_lines):
    """[(marker, line it is written on, lines it is reported at)] for every non-decoy marker, plus decoys that were reported"""
    import re
    tmpl = "\n" * leading_blank_lines + _C20_CORPUS
    res = extract_template(which, tmpl)
    if res is None:
        return None
    out = []
    for i, ln in enumerate(tmpl.split("\n"), 1):
        for mk in re.findall(r"_\s*\('([a-z0-9-]+)'", ln):
            got = [r[0] for r in res if r[1] == mk]
            if mk.startswith("decoy"):
                if got:
                    out.append((mk, None, got))
            elif mk == "multi":
                out.append((mk, i, got))
            else:
                out.append((mk, i, got))
    return out


def pipeline_render_nonexpr(cfg, where):
    """filter= on a def / block / <%text> and buffer_filters: only the listed filters apply (no default_filters, no page
    expression_filter).  returns (rendered, expected)"""
    import types
    import string
    import sys
    from mako.template import Template
    from mako import filters
    tag = lambda name: (lambda s: "<%s:%s>" % (name, s))
    ctx = {}
    for c in string.ascii_lowercase:
        if c not in "nhxu":
            ctx[c] = tag(c)
    ctx["ff"] = tag("ff")
    ctx["gg"] = lambda k: tag("gg%d" % k)
    ctx["ns"] = types.SimpleNamespace(ff=lambda a, b: tag("nsff%s%s" % (a, b)), mk=lambda k: types.SimpleNamespace(ap=tag("mk%d" % k)))
    ctx["aa"], ctx["bb"] = 1, 2
    value = " <v&'\xe9> "
    table = {"x": filters.xml_escape, "h": filters.html_escape, "u": filters.url_escape, "trim": filters.trim,
             "entity": filters.html_entities_escape, "unicode": str, "str": str, "decode.utf8": filters.decode.utf8}

    def fn(name):
        return table[name] if name in table else eval(name, {}, dict(ctx, u=7))

    local, d, pg = cfg["local"], cfg["default_filters"], cfg["page_expression_filter"]
    expected = value
    for name in local:
        if name != "n":
            expected = fn(name)(expected)
    expected = str(expected)
    src = ""
    if pg is not None:
        src += '<%%page expression_filter="%s"/>' % ", ".join(pg).replace('"', "'")
    flt = ", ".join(local)
    kw = {}
    if where == "def":
        src += '<%%def name="dd()" filter="%s">%s</%%def><%% dd() %%>' % (flt, value)
    elif where == "block":
        src += '<%%block filter="%s">%s</%%block>' % (flt, value)
    elif where == "text":
        src += '<%%text filter="%s">%s</%%text>' % (flt, value)
    else:
        src += '<%%def name="dd()" buffered="True">%s</%%def><%% context.write(dd()) %%>' % value
        kw["buffer_filters"] = list(local)
    if d is not None:
        kw["default_filters"] = list(d)
    mod = types.ModuleType("c02_filters_mod")
    mod.__dict__.update(ctx)
    mod.__all__ = list(ctx)
    if where == "buffer_filters":
        # buffer_filters are configuration, not template text: their names are module-level names
        mod.u = 7
        mod.__all__.append("u")
    sys.modules["c02_filters_mod"] = mod
    kw["imports"] = ["from c02_filters_mod import " + ", ".join(mod.__all__)]
    for strict in (False, True):
        try:
            got = Template(src, strict_undefined=strict, **kw).render_unicode(u=7, **(dict(ctx) if strict else {}))
        except Exception as e:
            got = "raised %s: %s%s" % (type(e).__name__, e, " (strict_undefined)" if strict else "")
        if got != expected:
            break
    return (got, expected)


# ------------------------------------------------------------------ C12: warnings raised while a template is compiled / its module code runs
_WARN_POS = {
    # position: (template lines with the warning-triggering literal; 1-based index of the line holding it)
    "code-block": (["<%", "    x = 1", "    y = \"\\d\"", "%>"], 3),
    "code-block-first-line": (["<% y = \"\\d\" %>"], 1),
    "module-block": (["<%!", "    y = \"\\d\"", "%>"], 2),
    "expression": (["text ${\"\\d\"} text"], 1),
    "multi-line-expression": (["${(1,", "   \"\\d\")}"], 2),
    "control-line": (["% if \"\\d\":", "x", "% endif"], 1),
    "def-default": (["<%def name=\"d(a='\\d')\">x</%def>"], 1),
    "module-code-runs": (["<%!", "    import warnings", "    warnings.warn(\"module body\", UserWarning)", "%>"], 3),
}


def warning_probe(position, source, action, lead):
    """compile one template holding one warning-triggering construct, through one construction path, under one warnings filter;
    returns (list of (where, lineno) of the warnings shown, (where, lineno) expected once)"""
    import os
    import shutil
    import tempfile
    import time
    import warnings
    from mako.template import Template
    from mako.lookup import TemplateLookup
    from mako import codegen
    lines, k = _WARN_POS[position]
    text = "\n".join(["filler"] * lead + lines + ["end"]) + "\n"
    want_line = lead + k
    if position == "multi-line-expression":
        want_line = lead + 1           # otherwise than for blocks, a construct is reported at the line on which it begins
    base = tempfile.mkdtemp(prefix="c12warn")
    try:
        fn = os.path.join(base, "warning.mako")
        with open(fn, "w") as f:
            f.write(text)
        moddir = os.path.join(base, "modules")
        shown_as = [fn]

        def build():
            if source == "string":
                t = Template(text)
                shown_as[0] = t.uri
            elif source == "string-with-uri":
                t = Template(text, uri="/some/uri.html")
                shown_as[0] = "/some/uri.html"
            elif source == "file":
                Template(filename=fn)
            elif source == "lookup":
                TemplateLookup([base]).get_template("warning.mako")
            elif source == "lookup-module-directory":
                TemplateLookup([base], module_directory=moddir).get_template("warning.mako")
            else:
                Template(filename=fn, module_directory=moddir)

        if source in ("module-file-reload", "module-file-stale-magic"):
            # a module file already exists: up to date, or written by another release (different magic number, newer than the template)
            with warnings.catch_warnings():
                warnings.simplefilter("ignore")
                Template(filename=fn, module_directory=moddir)
            if source == "module-file-stale-magic":
                for root, _d, files in os.walk(moddir):
                    for name in files:
                        if name.endswith(".py"):
                            p = os.path.join(root, name)
                            src = open(p).read().replace("_magic_number = %r" % codegen.MAGIC_NUMBER, "_magic_number = %r" % (codegen.MAGIC_NUMBER - 1))
                            open(p, "w").write(src)
                            os.utime(p, (time.time() + 5, time.time() + 5))
        with warnings.catch_warnings(record=True) as rec:
            warnings.simplefilter(action)
            build()
        got = [("<template>" if w.filename == shown_as[0] else os.path.basename(str(w.filename)), w.lineno) for w in rec]
        return got, ("<template>", want_line)
    finally:
        shutil.rmtree(base, ignore_errors=True)


def runtime_error_display(prefix):
    """a real template = `prefix` + a raising expression on a line of its own: what the HTML and text error templates show for the
    template frame: dict(line=expected line, html=(shown lines, index of the highlighted one), text=(reported line number, source line))"""
    import re
    import sys
    from mako import exceptions
    from mako.template import Template
    tmpl = prefix + "\n${1/0} MARK\nafter"
    want = prefix.count("\n") + 2
    try:
        Template(tmpl, filename="/t/page.html").render()
        return None
    except ZeroDivisionError:
        saved = (exceptions.syntax_highlight, exceptions.pygments_html_formatter)
        exceptions.syntax_highlight = lambda filename="", language=None: (lambda s: "@@B@@" + s + "@@E@@")
        exceptions.pygments_html_formatter = None
        try:
            html = exceptions.html_error_template().render_unicode(full=False, css=False)
            text = exceptions.text_error_template().render_unicode()
        finally:
            exceptions.syntax_highlight, exceptions.pygments_html_formatter = saved
    sample = html.split('<div class="stacktrace">')[0]
    shown = re.findall("@@B@@(.*?)@@E@@", sample, re.S)
    # without pygments the page marks nothing: the line for `want` sits at this index of the excerpt (lines want-3 .. want+5)
    idx = (want - 1) - max(0, want - 4)
    hl = [shown[idx]] if 0 <= idx < len(shown) else []
    m = re.search(r'File "/t/page.html", line (\d+), in render_body\n\s*(.*)', text)
    return dict(line=want, html_shown=shown, html_highlighted=hl, text=(int(m.group(1)), m.group(2)) if m else None)


def output_errors_probe(construction, oe, errors):
    """render() must be render_unicode().encode(output_encoding, encoding_errors), however the Template came to life"""
    import os
    import shutil
    import tempfile
    from mako.template import Template
    from mako.lookup import TemplateLookup
    text = "<%def name='d()'>caf\u00e9 \u20ac</%def>caf\u00e9 \u20ac ${d()}"
    base = tempfile.mkdtemp(prefix="c18out")
    try:
        if construction == "Template":
            t = Template(text, output_encoding=oe, encoding_errors=errors)
        elif construction == "lookup.put_string":
            lk = TemplateLookup(output_encoding=oe, encoding_errors=errors)
            lk.put_string("/t", text)
            t = lk.get_template("/t")
        else:
            with open(os.path.join(base, "t"), "w", encoding="utf-8") as f:
                f.write(text)
            lk = TemplateLookup([base], output_encoding=oe, encoding_errors=errors,
                                module_directory=os.path.join(base, "m") if construction == "lookup-file-module-directory" else None)
            t = lk.get_template("/t")
        if construction == "lookup-get_def":
            t = t.get_def("d")
        uni = t.render_unicode()
        try:
            want = ("ok", uni.encode(oe, errors))
        except UnicodeEncodeError:
            want = ("raises UnicodeEncodeError",)
        try:
            got = ("ok", t.render())
        except UnicodeEncodeError:
            got = ("raises UnicodeEncodeError",)
        return got, want
    finally:
        shutil.rmtree(base, ignore_errors=True)


# ------------------------------------------------------------------ C12: template frames of a runtime exception, on every construction path
_TB_POS = {
    # position: (template lines; 1-based index of the raising line)
    "expression": (["a", "${boom()}", "b"], 2),
    "code-block": (["<%", "    x = 1", "    boom()", "%>"], 3),
    "control-line": (["% if boom():", "x", "% endif"], 1),
    "def-body": (["<%def name=\"d()\">", "in def ${boom()}", "</%def>", "${d()}"], 2),
    "call-body": (["<%def name=\"w()\">${caller.body()}</%def>", "<%call expr=\"w()\">", "  ${boom()}", "</%call>"], 3),
    # under strict_undefined a name nobody supplies raises NameError for the expression that reads it
    "strict-undefined-name": (["a", "${nosuchname}", "b"], 2),
    # the body of a call to a def of ANOTHER template: page -> lib's def -> back into the page
    "call-body-of-a-def-in-another-template": (["<%namespace name=\"lib\" file=\"/lib.mako\"/>", "<%lib:wrap>", "  ${boom()}", "</%lib:wrap>"], 3),
}


def traceback_probe(position, source, lead):
    """render a template that raises at a known line, built through one construction path; returns
    ((filename-ok, reported line, reported source line), (True, expected line, expected source line))"""
    import os
    import shutil
    import tempfile
    from mako.template import Template
    from mako.lookup import TemplateLookup
    from mako import exceptions
    lines, k = _TB_POS[position]
    all_lines = ["filler"] * lead + lines + ["end"]
    text = "\n".join(all_lines) + "\n"
    want_line = lead + k

    class Boom(Exception):
        pass

    def boom():
        raise Boom()
    base = os.path.realpath(tempfile.mkdtemp(prefix="c12tb"))
    try:
        fn = os.path.join(base, "page.mako")
        with open(fn, "w") as f:
            f.write(text)
        with open(os.path.join(base, "lib.mako"), "w") as f:
            f.write("<%def name=\"wrap()\">[${caller.body()}]</%def>\n")
        strict = position == "strict-undefined-name"
        lkw = {"strict_undefined": True} if strict else {}
        lib = {"lookup": TemplateLookup([base])} if "another-template" in position else {}
        tkw = dict(lib, **lkw)
        real_mods = os.path.join(base, "modules")
        link = os.path.join(base, "link")
        os.symlink(base, link)              # <base>/link -> <base>: every path below can also be spelled through the link
        name = fn
        if source == "string":
            t = Template(text, **tkw)
            name = t.uri
        elif source == "string-with-uri":
            t = Template(text, uri="/some/uri.html", **tkw)
            name = "/some/uri.html"
        elif source == "file":
            t = Template(filename=fn, **tkw)
        elif source == "lookup":
            t = TemplateLookup([base], **lkw).get_template("page.mako")
        elif source == "module-file":
            t = Template(filename=fn, module_directory=real_mods, **tkw)
        elif source == "module-file-reload":
            Template(filename=fn, module_directory=real_mods, **tkw)
            t = Template(filename=fn, module_directory=real_mods, **tkw)
        elif source == "module-file-after-edit":
            # the dev-server loop: an earlier version of the file fails (its error is formatted), the file is edited so that
            # everything moves down, and the new version is loaded into the same module directory in the same process
            with open(fn, "w") as f:
                f.write("\n".join(lines + ["end"]) + "\n")
            old = os.stat(fn).st_mtime
            os.utime(fn, (old - 100, old - 100))
            try:
                Template(filename=fn, module_directory=real_mods, **tkw).render(boom=boom)
            except (Boom, NameError):
                exceptions.RichTraceback()
                exceptions.text_error_template().render()
            with open(fn, "w") as f:
                f.write(text + "one more line\n" * 3)
            import time
            os.utime(fn, (time.time() + 5, time.time() + 5))       # whole seconds later than the module file
            t = Template(filename=fn, module_directory=real_mods, **tkw)
        elif source == "relative-module-filename":
            # module_filename given relative to the working directory (also what a modulename_callable may return)
            cwd = os.getcwd()
            os.chdir(base)
            try:
                t = Template(filename=fn, module_filename=os.path.join("modules", "t.py"), **tkw)
            finally:
                os.chdir(cwd)
        elif source == "module-directory-through-symlink":
            t = Template(filename=fn, module_directory=os.path.join(link, "modules"), **tkw)
        elif source == "lookup-through-symlink":
            t = TemplateLookup([link], module_directory=os.path.join(link, "modules"), **lkw).get_template("page.mako")
            name = os.path.join(link, "page.mako")
        else:
            raise ValueError(source)
        try:
            t.render(boom=boom)
            return (("no exception",), (True, want_line, all_lines[want_line - 1], all_lines[want_line - 1]))
        except (Boom, NameError):
            tb = exceptions.RichTraceback()
        recs = [r for r in tb.records if r[4] is not None]
        if not recs:
            return (("no template frame reported", [r[0] for r in tb.records][-3:]), (True, want_line, all_lines[want_line - 1], all_lines[want_line - 1]))
        r = recs[-1]
        same_file = r[4] == name or (os.path.exists(str(r[4])) and os.path.exists(name) and os.path.samefile(r[4], name))
        # what the error pages show as the excerpt: RichTraceback.source at RichTraceback.lineno
        src_lines = (tb.source or "").split("\n")
        excerpt = src_lines[tb.lineno - 1] if tb.lineno and 0 < tb.lineno <= len(src_lines) else None
        return ((same_file, r[5], r[6], excerpt), (True, want_line, all_lines[want_line - 1], all_lines[want_line - 1]))
    finally:
        shutil.rmtree(base, ignore_errors=True)


ENCODED_VARIANTS = ("comment-vs-option", "input-encoding-option-only", "comment-only-raw-string", "encoding-option-only")


def extract_encoded(which, variant="comment-vs-option"):
    """a template in another encoding than UTF-8; the encoding is named by its magic comment (while the extractor's own option
    says utf-8: the comment wins, as it does when the template is compiled), by the Mako-style option input_encoding alone, by
    the comment alone (message in a raw string), or by the Babel-style option alone: returns (msgids extracted, expected)"""
    import io
    if variant == "comment-vs-option":
        tmpl, enc, opts = "## -*- coding: iso-8859-1 -*-\n${_('caf\u00e9')}\n<% x = _('na\u00efve') %>\n", "iso-8859-1", {"encoding": "utf-8"}
        want = ["caf\u00e9", "na\u00efve"]
    elif variant == "input-encoding-option-only":
        tmpl, enc, opts = "${_('\u0442\u0435\u0441\u0442')}\n", "cp1251", {"input_encoding": "cp1251"}
        want = ["\u0442\u0435\u0441\u0442"]
    elif variant == "encoding-option-only":
        tmpl, enc, opts = "${_('\u0442\u0435\u0441\u0442')}\n<% y = _(r'\u0442\u0435') %>\n", "cp1251", {"encoding": "cp1251"}
        want = ["\u0442\u0435\u0441\u0442", "\u0442\u0435"]
    else:
        tmpl, enc, opts = "## -*- coding: cp1251 -*-\n<% x = _(r'\u0442\u0435') %>\n${_('\u0442')}\n", "cp1251", {}
        want = ["\u0442\u0435", "\u0442"]
    data = tmpl.encode(enc)
    try:
        if which == "babel":
            from mako.ext import babelplugin
            got = [r[2] if isinstance(r[2], str) else r[2][0] for r in
                   babelplugin.extract(io.BytesIO(data), ["_"], [], dict(opts))]
        else:
            import os
            import shutil
            import tempfile
            try:
                from lingua.extractors import register_extractors
                from mako.ext.linguaplugin import LinguaMakoExtractor
            except ImportError:
                return None
            register_extractors()

            class Opt:
                keywords = []
                domain = None
                comment_tag = True
            base = tempfile.mkdtemp(prefix="c20enc")
            try:
                fn = os.path.join(base, "t.mako")
                with open(fn, "wb") as f:
                    f.write(data)
                got = [m.msgid for m in LinguaMakoExtractor({"comment-tags": "", "encoding": "utf-8"})(fn, Opt)]
            finally:
                shutil.rmtree(base, ignore_errors=True)
    except Exception as e:
        got = "raised %s: %s" % (type(e).__name__, e)
    return got, want


def regex_census(corpus):
    """every regex any mako module applies while the given templates are lexed by the real code (node constructors and the
    re-margining of code blocks included), with the function that applied it: {(pattern, flags): caller}.  Recorded at re's own
    compile entry point, plus the lexer's pattern cache and its class-level coding pattern."""
    import re
    import sys
    from mako import lexer
    used = {}
    orig = re._compile

    def spy(pattern, flags):
        if isinstance(pattern, str):
            f = sys._getframe(1)
            while f is not None:
                if f.f_globals.get("__name__", "").startswith("mako."):
                    used.setdefault((pattern, int(flags) & ~int(re.U)), f.f_code.co_name)
                    break
                f = f.f_back
        return orig(pattern, flags)
    re._compile = spy
    try:
        for t in corpus:
            try:
                lexer.Lexer(t).parse()
            except Exception:
                pass
    finally:
        re._compile = orig
    pats = {(k[0], int(k[1] or 0)): "match_reg" for k in lexer._regexp_cache}
    pats[(lexer.Lexer._coding_re.pattern, int(lexer.Lexer._coding_re.flags & ~re.U))] = "decode_raw_stream"
    for k, caller in used.items():
        pats.setdefault(k, caller)
    return pats


def autohandler_case(cfg):
    """inheritance through an expression, mako.ext.autohandler: directories /, /a, /a/b each with a page and (per flag) an
    autohandler that itself inherits through autohandler(); the pages of cfg["order"] are rendered one after the other through
    one TemplateLookup: returns [(uri, rendered, expected)]"""
    import os
    import shutil
    import tempfile
    from mako.lookup import TemplateLookup
    base = tempfile.mkdtemp(prefix="c06auto")
    head = "<%! from mako.ext.autohandler import autohandler %><%inherit file=\"${autohandler(template, context)}\"/>"
    dirs = ["", "/a", "/a/b"]
    try:
        for lvl, d in enumerate(dirs):
            os.makedirs(base + d, exist_ok=True)
            with open(base + d + "/page", "w") as f:
                f.write(head + "page%d who=${self.who()}<%%def name=\"who()\">p%d</%%def>" % (lvl, lvl))
            if cfg["autohandlers"][lvl]:
                with open(base + d + "/autohandler", "w") as f:
                    f.write(head + "A%d[${next.body()}]" % lvl)
        lk = TemplateLookup([base], filesystem_checks=cfg["filesystem_checks"])
        out = []
        for lvl in cfg["order"]:
            uri = dirs[lvl] + "/page"
            want = "page%d who=p%d" % (lvl, lvl)
            for k in range(lvl, -1, -1):
                if cfg["autohandlers"][k]:
                    want = "A%d[%s]" % (k, want)
            try:
                got = lk.get_template(uri).render()
            except Exception as e:
                got = "raised %s: %s" % (type(e).__name__, str(e)[:80])
            out.append((uri, got, want))
        return out
    finally:
        shutil.rmtree(base, ignore_errors=True)


def stamp_probe(env, module_directory):
    """the real lookup under an environment the deployment may set (reproducible-build variables, time zone, locale): with
    nothing changing on disk repeated get_template calls return the very same Template object and compile once; a later edit is
    picked up.  returns (same object?, compilations, content after an edit)"""
    import os
    import shutil
    import tempfile
    import time
    from mako.lookup import TemplateLookup
    from mako import template as TP
    saved = dict(os.environ)
    base = tempfile.mkdtemp(prefix="c14env")
    count = {"n": 0}
    orig = TP._compile

    def counting(*a, **k):
        count["n"] += 1
        return orig(*a, **k)
    try:
        now = time.time()
        vals = {"past": str(int(now - 86400)), "future": str(int(now + 86400)), "nix": "315532800"}
        for k, v in env.items():
            os.environ[k] = vals.get(v, v)
        if "TZ" in env and hasattr(time, "tzset"):
            time.tzset()
        fn = os.path.join(base, "t.html")
        with open(fn, "w") as f:
            f.write("version 1")
        os.utime(fn, (now - 60, now - 60))
        TP._compile = counting
        lk = TemplateLookup([base], module_directory=os.path.join(base, "mods") if module_directory else None)
        ts = [lk.get_template("t.html") for _ in range(4)]
        same = all(t is ts[0] for t in ts)
        compiled = count["n"]
        with open(fn, "w") as f:
            f.write("version 2")
        os.utime(fn, (now + 30, now + 30))        # whole seconds after the compilation
        after = lk.get_template("t.html").render()
        return (same, compiled, after)
    finally:
        TP._compile = orig
        os.environ.clear()
        os.environ.update(saved)
        if hasattr(time, "tzset"):
            time.tzset()
        shutil.rmtree(base, ignore_errors=True)


def cmd_priority_probe(cfg):
    """mako-render with --template-dir given: an included URI is served from the first configured directory that contains it,
    and a URI no configured directory contains is an error.  returns (stdout or 'error', expected)"""
    import io
    import os
    import shutil
    import sys
    import tempfile
    from mako import cmd
    base = tempfile.mkdtemp(prefix="c14cmd")
    try:
        dirs = {}
        for name in ("overrides", "base", "elsewhere"):
            dirs[name] = os.path.join(base, name)
            os.makedirs(dirs[name])
            if cfg["header_in"].get(name):
                with open(os.path.join(dirs[name], "header.html"), "w") as f:
                    f.write("header-of-" + name)
        page = os.path.join(dirs[cfg["page_in"]], "page.html")
        with open(page, "w") as f:
            f.write("[<%include file='/header.html'/>]")
        configured = [d for d in cfg["template_dirs"]]
        argv = [a for d in configured for a in ("--template-dir", dirs[d])] + [page]
        saved = sys.stdout, sys.stderr
        sys.stdout, sys.stderr = out, err = io.StringIO(), io.StringIO()
        try:
            try:
                cmd.cmdline(argv)
                got = out.getvalue()
            except SystemExit:
                got = "error"
        finally:
            sys.stdout, sys.stderr = saved
        search = configured or [cfg["page_in"]]
        first = [d for d in search if cfg["header_in"].get(d)]
        want = "[header-of-%s]" % first[0] if first else "error"
        return (got, want)
    finally:
        shutil.rmtree(base, ignore_errors=True)


def starttime_probe(t_fill, t_regen):
    """a cached page whose backend honours Cache.starttime (a stored value is dropped when it was stored before the template's
    module was generated - Beaker's rule) and outlives the Template object: the old module fills the cache at clock instant
    t_fill, the source is edited, the module is regenerated at t_regen > t_fill: the render after the rewrite must show the
    current source.  The clock of the code generator is a stub.  returns (rendered after the rewrite, expected)"""
    import os
    import shutil
    import sys
    import tempfile
    import time
    import types
    from mako import cache as C
    from mako import codegen as CG
    from mako.template import Template
    clock = [0.0]
    store = {}

    class Impl(C.CacheImpl):
        def get_or_create(self, key, creation_function, **kw):
            ent = store.get((self.cache.id, key))
            if ent is None or ent[0] < self.cache.starttime:
                ent = store[(self.cache.id, key)] = (clock[0], creation_function())
            return ent[1]

        def set(self, key, value, **kw):
            store[(self.cache.id, key)] = (clock[0], value)

        def get(self, key, **kw):
            ent = store.get((self.cache.id, key))
            return None if ent is None or ent[0] < self.cache.starttime else ent[1]

        def invalidate(self, key, **kw):
            store.pop((self.cache.id, key), None)
    mod = types.ModuleType("c15_starttime_backend")
    mod.Impl = Impl
    sys.modules["c15_starttime_backend"] = mod
    C.register_plugin("c15starttime", "c15_starttime_backend", "Impl")
    real_time = CG.time
    CG.time = types.SimpleNamespace(time=lambda: clock[0])
    base = tempfile.mkdtemp(prefix="c15start")
    try:
        fn, md = os.path.join(base, "page.html"), os.path.join(base, "mods")
        now = time.time()
        with open(fn, "w") as f:
            f.write('<%page cached="True"/>version 1')
        os.utime(fn, (now - 100, now - 100))
        clock[0] = 1000.05
        t1 = Template(filename=fn, module_directory=md, cache_impl="c15starttime")
        clock[0] = t_fill
        first = t1.render()
        with open(fn, "w") as f:
            f.write('<%page cached="True"/>version 2')
        os.utime(fn, (now + 5, now + 5))          # whole seconds newer than the module file: a rewrite is due
        clock[0] = t_regen
        t2 = Template(filename=fn, module_directory=md, cache_impl="c15starttime")
        clock[0] = t_regen + 0.01
        return (first + " / " + t2.render(), "version 1 / version 2")
    finally:
        CG.time = real_time
        shutil.rmtree(base, ignore_errors=True)


def beaker_probe(cfg):
    """the real Beaker plugin with the real Beaker: (1) a template replaced under its URI does not replay its predecessor's cached
    output (the plugin hands Beaker the compile time of the module as starttime), whichever way the section is configured
    (plain / timeout / region); (2) cache files are written to the directory the innermost configuration level names (section
    over <%page> over Template cache_args), else to the module directory.  returns {"outputs": ..., "files_in": ...} and the
    expectations"""
    import os
    import shutil
    import tempfile
    import time
    try:
        from beaker import cache as bc
    except ImportError:
        return None
    from mako.ext import beaker_cache as BC
    from mako.lookup import TemplateLookup
    if cfg["dir_level"] == "none" and not cfg["module_directory"] and cfg["section"] != "region":
        return "file-backed cache without any directory: not a valid configuration"
    base = tempfile.mkdtemp(prefix="c17beaker")
    saved = BC._beaker_cache
    try:
        dirs = {k: os.path.join(base, k) for k in ("template", "page", "section", "modules", "region")}
        regions = {"short": {"type": "file" if cfg["dir_level"] != "memory" else "memory", "expire": 600, "data_dir": dirs["region"],
                             "lock_dir": dirs["region"] + "-lock"}}
        BC._beaker_cache = None
        args = {"manager": bc.CacheManager(cache_regions=regions)}
        if cfg["dir_level"] != "memory":
            args["type"] = "file"
        if cfg["dir_level"] in ("template", "page", "section"):
            args["dir"] = dirs["template"]
        sect = {"plain": "", "timeout": ' cache_timeout="600"', "region": ' cache_region="short"'}[cfg["section"]]
        page = '<%page cache_dir="' + dirs["page"] + '"/>' if cfg["dir_level"] in ("page", "section") else ""
        sdir = ' cache_dir="' + dirs["section"] + '"' if cfg["dir_level"] == "section" else ""
        src = lambda v: page + '<%def name="d()" cached="True"' + sect + sdir + '>' + v + '</%def>${d()}'
        lk = TemplateLookup(cache_args=args, module_directory=dirs["modules"] if cfg["module_directory"] else None)
        lk.put_string("/t", src("first"))
        out = [lk.get_template("/t").render(), lk.get_template("/t").render()]
        time.sleep(0.02)
        lk.put_string("/t", src("second"))            # a new Template under the same URI (same cache namespace)
        out.append(lk.get_template("/t").render())
        want_out = ["first", "first", "second"]
        used = sorted(k for k, d in dirs.items() if os.path.isdir(d) and any(f for _r, _d, fs in os.walk(d) for f in fs if not f.endswith(".py")))
        if cfg["dir_level"] == "memory":
            want_dirs = []
        elif cfg["section"] == "region":
            want_dirs = None           # a region brings its own directory: not asserted
        elif cfg["dir_level"] in ("template", "page", "section"):
            want_dirs = [cfg["dir_level"]]
        else:
            want_dirs = ["modules"] if cfg["module_directory"] else None
        return dict(outputs=out, want_outputs=want_out, dirs=used, want_dirs=want_dirs)
    finally:
        BC._beaker_cache = saved
        shutil.rmtree(base, ignore_errors=True)
