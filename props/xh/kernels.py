"""second engine (CrossHair): small integer kernels of the REAL mako code stated as PEP316 contracts.
Run by props/xh_run.py:  crosshair check --report_all --per_condition_timeout N props/xh/kernels.py"""
import os
import sys
from typing import Dict, List

sys.path.insert(0, os.environ.get("MAKO_TREE", "/repo"))
from mako.runtime import LoopContext  # noqa: E402
from mako.template import ModuleInfo  # noqa: E402
from mako.util import LRUCache  # noqa: E402


class _Sized:
    def __init__(self, n: int):
        self.n = n

    def __len__(self) -> int:
        return self.n

    def __iter__(self):
        return iter(())


def loop_attributes(n: int, i: int) -> bool:
    """
    pre: 0 <= i < n <= 1000000
    post: _
    """
    lc = LoopContext(_Sized(n))
    lc.index = i
    return (lc.reverse_index == n - i - 1 and lc.first == (i == 0) and lc.last == (i == n - 1)
            and lc.odd == (i % 2 == 1) and lc.even == (i % 2 == 0))


def loop_cycle(i: int, k: int) -> bool:
    """
    pre: 0 <= i <= 1000000 and 1 <= k <= 4
    post: _
    """
    lc = LoopContext(_Sized(i + 1))
    lc.index = i
    vals = tuple(range(k))
    return lc.cycle(*vals) == i % k


def densify(present: List[bool], vals: List[int]) -> bool:
    """
    pre: len(present) == 6 and len(vals) == 6 and any(present) and all(0 <= v <= 1000 for v in vals)
    post: _
    """
    import json
    keys = [1, 2, 4, 5, 9, 12]
    lm = {str(k): v for k, p, v in zip(keys, present, vals) if p}
    src = "__M_BEGIN_METADATA" + json.dumps({"line_map": lm}) + "__M_END_METADATA"
    full = ModuleInfo.get_module_source_metadata(src, full_line_map=True)["full_line_map"]
    top = max(int(k) for k in lm)
    if len(full) != top - 1:
        return False
    for mod_line in range(1, top):
        below = [int(k) for k in lm if int(k) <= mod_line]
        want = lm[str(max(below))] if below else 1
        if full[mod_line - 1] != want:
            return False
    return True


def lru_bound(cap: int, n_inserts: int) -> bool:
    """
    pre: 1 <= cap <= 4 and 0 <= n_inserts <= 12
    post: _
    """
    c = LRUCache(cap)
    for j in range(n_inserts):
        c[j] = j
        if len(c) > cap * 1.5:
            return False
    return True
