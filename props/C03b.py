"""C03, second part (exploration): templates generated from a grammar of nested control structures are rendered by the
real pipeline (lexer, code generator incl. the auto-pass rule and loop rewriting, PythonPrinter's indentation inference)
and compared with the equivalent Python program executed natively.  Run-time decisions (conditions, iterable lengths,
which body raises) are symbolic flags shared by both executions."""
import types
import z3

from symx import core, driver
from symx.values import SymBool
from . import common

TP = None
STYLES = [("", "", False), ("  ", " # c", False), ("\t", "  # note: x", False), ("      ", " # it's \"so\": done:", False),
          ("  ", "", True),      # (indentation of % lines, trailing comment, header continued over two lines with a backslash)
          ("", "", "paren"),     # no blank between the keyword and a parenthesised condition: % if(c(1)):
          ("", " # c", "literal")]   # the condition carries a string literal with ':#' and ': #' in it, and a comment follows
INDENTS = [s_[0] for s_ in STYLES]
COMMENTS = [s_[1] for s_ in STYLES]


class Boom(Exception):
    pass


class Gen:
    """builds a template and the equivalent Python program side by side; every choice is an explorer choice"""

    def __init__(self, p, depth):
        self.p = p
        self.depth = depth
        self.k = 0
        self.indent, self.comment, self.continued = STYLES[p.choose(len(STYLES), "control_line_style")]
        self.simple = False
        # `loop`: the loop context (default), or an ordinary name when the template is compiled with enable_loop=False
        # (unless <%page enable_loop="True"/> turns it on again)
        self.loop_mode = ["enabled", "disabled", "disabled-then-page-enables"][p.choose(3, "enable_loop")]
        # quick tier (depth 0): the optional else / finally clauses are varied under the first two header styles only
        self.clauses = depth > 0 or STYLES.index((self.indent, self.comment, self.continued)) < 2
        self.fors = []              # enumerate counters of the enclosing `for` statements, innermost last
        self.nested_for = {0: 1, 1: 2}.get(depth, 2)      # budget of directly nested loops (loop.parent chains)

    def fresh(self):
        self.k += 1
        return self.k

    def ctl(self, text):
        if self.continued in ("paren", "literal"):
            import re as _re
            m = _re.match(r"(if|elif|while) (.*):$", text)
            if m and self.continued == "paren":
                text = "%s(%s):" % m.group(1, 2)
            elif m:
                text = "%s %s == [':#', ': # x'][0:0] or %s:" % (m.group(1), "[1]", m.group(2))
        elif self.continued and " " in text:
            kw, rest = text.split(" ", 1)
            text = kw + " \\\n        " + rest          # the header goes on after a backslash-newline
        return "%s%% %s%s\n" % (self.indent, text, self.comment if not text.startswith("end") else "")

    def body(self, d, py_indent):
        """(template text, python lines) of a block body: empty, comment-only, a leaf, or a nested compound"""
        kinds = 4 if d > 0 else 3
        nest = bool(self.fors) and len(self.fors) <= self.nested_for
        kind = self.p.choose(kinds + (1 if nest else 0), "body")
        if nest and kind == kinds:
            return self.for_loop(d, py_indent, inner=True)
        if kind == 0:
            return "", [py_indent + "pass"]
        if kind == 1:
            return "## only a comment\n", [py_indent + "pass"]
        if kind == 2:
            return self.leaf(py_indent)
        was = self.simple
        self.simple = True          # nested compounds are the simple forms (no elif / else), to keep the space exhaustible
        try:
            return self.compound(d - 1, py_indent)
        finally:
            self.simple = was

    def leaf(self, py_indent):
        k = self.fresh()
        if self.p.choose(2, "leaf"):
            return "t%d\n" % k, [py_indent + "out.append('t%d')" % k]
        return "${e(%d)}\n" % k, [py_indent + "out.append(str(e(%d)))" % k]

    def compound(self, d, ind):
        p = self.p
        kind = p.choose(5, "compound")
        k = self.fresh()
        i2 = ind + "    "
        if kind == 0:       # if / elif / else
            t1, p1 = self.body(d, i2)
            tmpl = self.ctl("if c(%d):" % k) + t1
            py = [ind + "if c(%d):" % k] + p1
            if not self.simple and p.choose(2, "has_elif"):
                k2 = self.fresh()
                t2, p2 = self.body(d, i2)
                tmpl += self.ctl("elif c(%d):" % k2) + t2
                py += [ind + "elif c(%d):" % k2] + p2
            if not self.simple and p.choose(2, "has_else"):
                t3, p3 = self.body(d, i2)
                tmpl += self.ctl("else:") + t3
                py += [ind + "else:"] + p3
            return tmpl + self.ctl("endif"), py
        if kind == 1:       # for (optionally using loop), over a list, a lazy generator or a string
            return self.for_loop(d, ind, k=k)
        if kind == 2:       # while (optionally with an else clause)
            t1, p1 = self.body(d, i2)
            tmpl, py = self.ctl("while w(%d):" % k) + t1, [ind + "while w(%d):" % k] + p1
            if not self.simple and self.clauses and p.choose(2, "while_else"):
                tmpl += self.ctl("else:") + "we%d\n" % k
                py += [ind + "else:", i2 + "out.append('we%d')" % k]
            return tmpl + self.ctl("endwhile"), py
        if kind == 3:       # try / except (one or two clauses)
            t1, p1 = self.body(d, i2)
            tmpl = self.ctl("try:") + "${boom(%d)}\n" % k + t1 + self.ctl("except Boom:") + "x%d\n" % k
            py = [ind + "try:", i2 + "out.append(str(boom(%d)))" % k] + p1 + [ind + "except Boom:", i2 + "out.append('x%d')" % k]
            if not self.simple and p.choose(2, "second_except_clause"):
                tmpl += self.ctl("except KeyError:") + "y%d\n" % k
                py += [ind + "except KeyError:", i2 + "out.append('y%d')" % k]
            if not self.simple and self.clauses:
                tail = p.choose(4, "try_tail")          # nothing / else / finally / else + finally
                if tail in (1, 3):
                    tmpl += self.ctl("else:") + "te%d\n" % k
                    py += [ind + "else:", i2 + "out.append('te%d')" % k]
                if tail in (2, 3):
                    tmpl += self.ctl("finally:") + "tf%d\n" % k
                    py += [ind + "finally:", i2 + "out.append('tf%d')" % k]
            return tmpl + self.ctl("endtry"), py
        t1, p1 = self.body(d, i2)      # with
        return self.ctl("with cm(%d) as v%d:" % (k, k)) + "${v%d}\n" % k + t1 + self.ctl("endwith"), \
            [ind + "with cm(%d) as v%d:" % (k, k), i2 + "out.append(str(v%d))" % k] + p1


def _for_loop(self, d, ind, k=None, inner=False):
    p = self.p
    k = k or self.fresh()
    i2 = ind + "    "
    itk = p.choose(4 if self.clauses else 3, "iterable")
    it = ["r(%d)", "g(%d)", "s(%d)", "%d, 7"][itk] % k          # the last: a tuple written without parentheses
    # nothing / loop.index / loop.index only inside a tag attribute / loop.parent.index as well
    use = ["none", "index", "attr", "parent"][p.choose(4 if self.fors else 3, "uses_loop")]
    parent = self.fors[-1] if self.fors else None
    self.fors.append(k)
    try:
        if inner:
            t1, p1 = self.leaf(i2) if p.choose(2, "inner_body") == 0 else self.body(d, i2)
        else:
            t1, p1 = self.body(d, i2)
    finally:
        self.fors.pop()
    extra = {"none": "", "index": "${loop.index}\n", "parent": "${loop.parent.index}.${loop.index}\n",
             "attr": '<%call expr="sh(loop.index)"></%call>\n'}[use]
    pyx = {"none": [], "index": [i2 + "out.append(str(n%d))" % k], "parent": [i2 + "out.append(str(n%s) + '.' + str(n%d))" % (parent, k)],
           "attr": [i2 + "out.append('L' + str(n%d))" % k]}[use]
    if self.loop_mode == "disabled" and use == "attr":
        extra, pyx = '<%call expr="sh(7) + loop"></%call>\n', [i2 + "out.append('L7ordinary-loop')"]
    elif self.loop_mode == "disabled" and use != "none":
        # with enable_loop=False `loop` is whatever the context holds under that name
        extra, pyx = "${loop}\n", [i2 + "out.append('ordinary-loop')"]
    target = "i%d" % k
    if itk == 2 and not inner and self.clauses and p.choose(2, "starred_target"):
        target = "i%d, *rest%d" % (k, k)                         # for i, *rest in "ab": legal Python
    tmpl = self.ctl("for %s in %s:" % (target, it)) + extra + t1
    py = [ind + "for n%d, (%s) in enumerate(%s):" % (k, target if "," in target else target + ",", "(%s)" % it if itk == 3 else it)] + pyx + p1
    if "," not in target:
        py[0] = ind + "for n%d, i%d in enumerate(%s):" % (k, k, "(%s)" % it if itk == 3 else it)
    if not self.simple and self.clauses and not inner and p.choose(2, "for_else"):
        # the else clause runs after exhaustion (nothing in the grammar breaks out); `loop` there is the enclosing loop's again
        tmpl += self.ctl("else:") + "fe%d\n" % k
        py += [ind + "else:", i2 + "out.append('fe%d')" % k]
    return tmpl + self.ctl("endfor"), py


Gen.for_loop = _for_loop


def helpers(p):
    flags = {}
    state = {}

    def flag(name):
        if name not in flags:
            flags[name] = SymBool(p.new_bool(name))
        return bool(flags[name])

    def c(k):
        return flag("cond%d" % k)

    def r(k):
        return [0, 1] if flag("nonempty%d" % k) else []

    events = []

    def g(k):
        # a lazy iterable: producing an element is an observable event, interleaved with the body's events
        for i in range(2 if flag("nonempty%d" % k) else 0):
            events.append("gen%d.%d" % (k, i))
            yield i

    def s_(k):
        return "ab" if flag("nonempty%d" % k) else ""

    def w(k):
        state[k] = state.get(k, 0) + 1
        return state[k] == 1 and flag("while%d" % k)

    def boom(k):
        if flag("raise%d" % k):
            raise (KeyError("k") if flag("raise_keyerror%d" % k) else Boom())
        return ""

    class CM:
        def __init__(self, k):
            self.k = k

        def __enter__(self):
            return "v%d" % self.k

        def __exit__(self, *a):
            return False

    def e(k):
        events.append("e%d" % k)
        return "e%d" % k

    def reset():
        state.clear()
        ev = list(events)
        del events[:]
        return ev

    return dict(c=c, r=r, g=g, s=s_, w=w, boom=boom, cm=CM, e=e, Boom=Boom, sh=lambda n: "L%d" % n), reset, flags


def h_grammar(depth):
    def h(p):
        g = Gen(p, depth)
        tmpl, py = g.compound(depth, "")
        if p.choose(2, "second_statement"):
            # a following loop that uses `loop`: the state left behind by the first statement must not leak into it
            k = g.fresh()
            if g.loop_mode == "disabled":
                tmpl += g.ctl("for j%d in r(%d):" % (k, k)) + "${loop}\n" + g.ctl("endfor")
                py += ["for m%d, j%d in enumerate(r(%d)):" % (k, k, k), "    out.append('ordinary-loop')"]
            else:
                tmpl += g.ctl("for j%d in r(%d):" % (k, k)) + "${loop.index}\n" + g.ctl("endfor")
                py += ["for m%d, j%d in enumerate(r(%d)):" % (k, k, k), "    out.append(str(m%d))" % k]
        if g.loop_mode == "disabled-then-page-enables":
            tmpl = '<%page enable_loop="True"/>\n' + tmpl
        fns, reset, flags = helpers(p)
        out = exc = None
        try:
            if g.loop_mode == "enabled":
                out = TP.Template(tmpl).render(**fns)
            else:
                out = TP.Template(tmpl, enable_loop=False).render(**dict(fns, **({"loop": "ordinary-loop"} if g.loop_mode == "disabled" else {})))
        except Exception as ex:
            exc = ex
        ev = reset()
        ns = dict(fns)
        ns["out"] = []
        ref_exc = None
        try:
            exec(compile("\n".join(py) + "\n", "<reference>", "exec"), ns)
        except Exception as ex:
            ref_exc = ex
        return dict(style=g.continued if isinstance(g.continued, str) else ("continued" if g.continued else ""), loop_mode=g.loop_mode, tmpl=tmpl, py=py, out=out, exc=exc, ref="".join(ns["out"]), ref_exc=ref_exc, ev=ev, ref_ev=reset(),
                    flags={k: bool(v) for k, v in flags.items()})
    return h


def on_grammar(p, r, exc, acc):
    if exc is not None:
        acc.candidate(kind="harness-exception", input=None, detail="%s: %s" % (type(exc).__name__, str(exc)[:200]))
        return
    acc.tags["asserted"] += 1
    acc.vcs += 1
    got = None if r["out"] is None else "".join(r["out"].split())
    desc = dict(template=r["tmpl"], python="\n".join(r["py"]), decisions=r["flags"], loop_mode=r["loop_mode"])
    # the kind names the constructs involved, so that the replay budget is spread over different constructs and styles
    import re as _re
    kws = sorted(set(_re.findall(r"^\s*% *(if|for|while|try|with|else|finally)\b", r["tmpl"], _re.M)))
    feature = "control-flow-" + "-".join(kws) + ("-" + r["style"] if r.get("style") else "")
    if r["ref_exc"] is not None:
        acc.counts["reference raised (%s)" % type(r["ref_exc"]).__name__] += 1
        if r["exc"] is None or type(r["exc"]) is not type(r["ref_exc"]):
            acc.candidate(kind=feature, input=desc, detail="python raises %r, template gave %r / %r" % (r["ref_exc"], got, r["exc"]))
        return
    if r["exc"] is not None or got != r["ref"]:
        acc.candidate(kind=feature, input=desc, detail="rendered %r (exception %r), python semantics give %r" % (got, r["exc"], r["ref"]))
    elif r["ev"] != r["ref_ev"]:
        acc.candidate(kind="evaluation-order", input=desc, detail="events %r, python semantics give %r" % (r["ev"], r["ref_ev"]))
    elif len(r["tmpl"]) > 60:
        acc.good("control-flow", desc)
    if len(acc.samples) < 6:
        acc.sample(dict(template=r["tmpl"], output=got))


def make_replay(c):
    i = c["input"] or {"template": "", "python": "pass", "decisions": {}}
    body = """
from mako.template import Template
CASE = __CASE__
print(CASE["template"]); print("--- equivalent python"); print(CASE["python"]); print("--- decisions", CASE["decisions"])
class Boom(Exception): pass
sh = lambda n: "L%d" % n
D = CASE["decisions"]
state = {}
def flag(n): return D.get(n, False)
def w(k):
    state[k] = state.get(k, 0) + 1
    return state[k] == 1 and flag("while%d" % k)
def boom(k):
    if flag("raise%d" % k): raise (KeyError("k") if flag("raise_keyerror%d" % k) else Boom())
    return ""
class CM:
    def __init__(self, k): self.k = k
    def __enter__(self): return "v%d" % self.k
    def __exit__(self, *a): return False
events = []
def g(k):
    for i in range(2 if flag("nonempty%d" % k) else 0):
        events.append("gen%d.%d" % (k, i)); yield i
def e(k):
    events.append("e%d" % k); return "e%d" % k
fns = dict(c=lambda k: flag("cond%d" % k), r=lambda k: [0, 1] if flag("nonempty%d" % k) else [], g=g, s=lambda k: "ab" if flag("nonempty%d" % k) else "",
           w=w, boom=boom, cm=CM, e=e, Boom=Boom)
try:
    mode = CASE.get("loop_mode", "enabled")
    print("enable_loop:", mode)
    if mode == "enabled": got = "".join(Template(CASE["template"]).render(**fns).split())
    else: got = "".join(Template(CASE["template"], enable_loop=False).render(**dict(fns, **({"loop": "ordinary-loop"} if mode == "disabled" else {}))).split())
except Exception as e_:
    got = "raised %s: %s" % (type(e_).__name__, str(e_)[:100])
got_ev = list(events); del events[:]
state.clear()
ns = dict(fns); ns["out"] = []
try:
    exec(compile(CASE["python"] + "\\n", "<reference>", "exec"), ns); want = "".join(ns["out"])
except Exception as e:
    want = "raised %s" % type(e).__name__
print("template:", got, got_ev); print("python  :", want, events)
bad = None if got == want or (want.startswith("raised") and got.startswith(want)) else "control structure does not behave as the equivalent Python statements"
if bad is None and not want.startswith("raised") and got_ev != events: bad = "evaluation is not in document order (the iterable is not consumed lazily)"
print("VIOLATED: " + bad if bad else "HOLDS")
sys.exit(1 if bad else 0)
""".replace("__CASE__", repr(i))
    return (c["kind"], body, (i["template"], i.get("loop_mode"), repr(sorted(i["decisions"].items()))))


def run(check, tier):
    global TP
    TP = common.mako("template")
    check.assume(
        "control-structure grammar (exploration): if/elif/else, for with optional else (over a list, a lazy generator whose production of each element is an observable event, or a string; body using nothing, loop.index, loop.index only inside a tag attribute (a call tag), or loop.parent.index under directly nested loops), while with optional else, try/except with optional second except clause / else / finally, with - header styles: indentation, trailing comment, backslash continuation, no blank after the keyword, string literal containing ':#' - nested to depth "
        "%d (nested compounds in their simple form), bodies empty / comment-only / text / expression / nested compound, %% lines indented by a solver-chosen run of blanks and carrying "
        "a solver-chosen trailing comment; conditions, iterable lengths and raising bodies are symbolic flags; the reference is the same "
        "program written in Python and executed natively" % {"quick": 0, "thorough": 1}[tier])
    name = "C03-grammar"
    driver.register(name, h_grammar({"quick": 0, "thorough": 1}[tier]), on_grammar)
    st, acc = driver.explore(name, time_limit={"quick": 600, "thorough": 2400}[tier])
    check.section("templates generated from the control-structure grammar vs native Python", st, acc,
                  dict(depth={"quick": 0, "thorough": 1}[tier], indents=INDENTS, comments=COMMENTS), tags_required=("asserted",))
    cands = sorted(acc.candidates, key=lambda c: len(c["input"]["template"]) if c.get("input") else 0)
    check.confirm(cands, make_replay, lambda c: None, max_confirm=12, goods=acc.goods)
