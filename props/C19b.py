"""C19, second half (exploration, not solver-decided): re-emission of parsed expressions by mako's AST printer.

Argument defaults of defs / blocks / <%page> and the arguments of filter calls are re-emitted from their parsed form
(mako._ast_util.SourceGenerator via pyparser.ExpressionGenerator).  The explorer enumerates expression shapes from a
grammar (every form applied to every pair of operands from a pool of leaves and one-level expressions) and the re-emitted
text must parse to the same AST as the original."""
import ast

from symx import core, driver
from . import common

AST = None

LEAVES = ["a", "b", "1", "'s'", "None", "a.b", "a[0]", "f(a)"]
FORMS = {
    "neg": "-{0}", "not": "not {0}", "invert": "~{0}", "pos": "+{0}",
    "add": "{0} + {1}", "sub": "{0} - {1}", "mul": "{0} * {1}", "div": "{0} / {1}", "floordiv": "{0} // {1}", "mod": "{0} % {1}",
    "pow": "{0} ** {1}", "matmul": "{0} @ {1}", "lshift": "{0} << {1}", "rshift": "{0} >> {1}", "bitor": "{0} | {1}", "bitand": "{0} & {1}",
    "bitxor": "{0} ^ {1}", "and": "{0} and {1}", "or": "{0} or {1}",
    "lt": "{0} < {1}", "eq": "{0} == {1}", "in": "{0} in {1}", "not-in": "{0} not in {1}", "is": "{0} is {1}", "is-not": "{0} is not {1}",
    "chain": "{0} < {1} < a",
    "ifexp": "{0} if {1} else a", "ifexp-cond": "a if {0} else {1}",
    "lambda": "lambda: {0}", "lambda-args": "lambda x, y=1: {0}", "lambda-kwonly": "lambda *, k=1: {0}", "lambda-star": "lambda *p, **q: {0}",
    "call": "f({0}, {1})", "call-kw": "f({0}, k={1})", "call-star": "f(*{0})", "call-starstar": "f(**{0})", "call-result": "{0}({1})",
    "attribute": "{0}.x", "subscript": "{0}[{1}]", "slice": "a[{0}:{1}]", "slice-step": "a[{0}:{1}:2]", "index-tuple": "a[{0}, {1}]",
    "tuple": "({0}, {1})", "tuple1": "({0},)", "list": "[{0}, {1}]", "set": "{{{0}, {1}}}", "dict": "{{{0}: {1}}}", "dict-unpack": "{{**{0}}}",
    "list-star": "[*{0}]",
    "listcomp": "[{0} for x in {1}]", "listcomp-if": "[{0} for x in {1} if x]", "generator": "list({0} for x in {1})",
    "dictcomp": "{{x: {0} for x in {1}}}", "setcomp": "{{{0} for x in {1}}}",
    "fstring": "f'{{{0}}}'", "walrus": "(w := {0})",
}
ONE_LEVEL = ["neg", "not", "add", "pow", "lt", "and", "ifexp", "lambda"]
EXTRA = ["a[...]", "1e400", "b'x'", "1j", "'a' 'b'", "-1", "(-1) ** 2", "-1 ** 2", "not a == b", "a if b else (c if d else e)",
         "(a, b)[0]", "[a, b][0]", "{a: b}[a]", "(yield_ := 1)", "1 .real", "1.5.real", "(1).real", "a.b.c(d)(e)", "f(a)(b)[c].d"]


def wrap(e):
    """operand text: parenthesise unless it is a simple leaf, so that the ORIGINAL means what the grammar intends"""
    return e if e in LEAVES else "(" + e + ")"


def pool(full):
    out = list(LEAVES)
    for name in (FORMS if full else ONE_LEVEL):
        out.append(FORMS[name].format("a", "b"))
    return out


def setup():
    global AST
    if AST is None:
        AST = common.mako("ast")


def norm(tree):
    """AST dump with the Name('Ellipsis') / Constant(Ellipsis) spelling unified"""
    for n in ast.walk(tree):
        for f, v in ast.iter_fields(n):
            pass
    return ast.dump(tree).replace("Name(id='Ellipsis', ctx=Load())", "Constant(value=Ellipsis)")


def reemit(position, src):
    if position == "filter-argument":
        out = AST.ArgumentList("g(" + src + ")").args
        return out[0][2:-1] if out and out[0].startswith("g(") else out
    fd = AST.FunctionDecl("def d(p=" + src + "):pass")
    ex = fd.get_argument_expressions()
    return ex[0][2:] if ex and ex[0].startswith("p=") else ex


def h_enum(full):
    P = pool(full)
    names = list(FORMS)

    def h(p):
        which = p.choose(len(names) + 1, "form")
        if which == len(names):
            src = EXTRA[p.choose(len(EXTRA), "extra")]
        else:
            form = FORMS[names[which]]
            x = P[p.choose(len(P), "left")]
            y = P[p.choose(len(P), "right")] if "{1}" in form else "b"
            src = form.format(wrap(x), wrap(y))
        try:
            want = norm(ast.parse(src, mode="eval"))
        except SyntaxError:
            raise core.Abort("not a Python expression")
        res = []
        for position in ("filter-argument", "argument-default"):
            got = err = None
            try:
                out = reemit(position, src)
                got = norm(ast.parse(out, mode="eval")) if isinstance(out, str) else repr(out)
            except Exception as e:
                err = "%s: %s" % (type(e).__name__, str(e)[:80])
                out = None
            res.append(dict(position=position, got=got, err=err, out=out))
        return dict(src=src, want=want, res=res)
    return h


def on_enum(p, r, exc, acc):
    if exc is not None:
        acc.candidate(kind="harness-exception", input=None, detail="%s: %s" % (type(exc).__name__, str(exc)[:200]))
        return
    acc.tags["asserted"] += 1
    for x in r["res"]:
        acc.vcs += 1
        if x["err"] is not None:
            acc.candidate(kind="reemit-raises", input=dict(expr=r["src"], position=x["position"]), detail=x["err"])
        elif x["got"] != r["want"]:
            acc.candidate(kind="reemit-changes-meaning", input=dict(expr=r["src"], position=x["position"]), detail="re-emitted as %r" % (x["out"],))
    if len(acc.samples) < 6:
        acc.sample(dict(expr=r["src"], reemitted=[x["out"] for x in r["res"]]))


def make_replay(c):
    i = c["input"] or {"expr": "a", "position": "argument-default"}
    body = """
# the expression, written as a def argument default / filter argument of a real template, must evaluate as Python evaluates it
from mako.template import Template
CASE = __CASE__
EXPR, POS = CASE["expr"], CASE["position"]
print("expression:", EXPR, " position:", POS)
ns = {}
exec("a = 3\\nb = 2\\nclass _O:\\n    x = 7\\n    b = 5\\n    real = 1\\n    def __call__(self, *p, **k): return (p, sorted(k.items()))\\nf = _O()\\nc = d = e = 1\\n", ns)
def show(v):
    if callable(v):
        try: return "call:" + repr(v())
        except TypeError: return "callable"
    return repr(v)
try:
    want = show(eval(EXPR, dict(ns)))
except Exception as e:
    want = "raises " + type(e).__name__
pre = "<%!\\n    a = 3\\n    b = 2\\n    class _O:\\n        x = 7\\n        b = 5\\n        real = 1\\n        def __call__(self, *p, **k): return (p, sorted(k.items()))\\n    f = _O()\\n    c = d = e = 1\\n%>"
if POS == "argument-default":
    tmpl = pre + '<%def name="d(p=' + EXPR.replace('"', "'") + ')">${show(p)}</%def>${d()}'
else:
    tmpl = pre + "<%! g = lambda v: (lambda s: show(v)) %>${'' | g(" + EXPR + ")}"
try:
    got = Template(tmpl).render(show=show).strip()
except Exception as e:
    got = "raises " + type(e).__name__ + ": " + str(e)[:80]
print("python:", want); print("mako  :", got)
bad = None if got == want or (want.startswith("raises") and got.startswith(want)) else "re-emitted expression does not evaluate to the value written"
print("VIOLATED: " + bad if bad else "HOLDS")
sys.exit(1 if bad else 0)
""".replace("__CASE__", repr(i))
    return (c["kind"], body, (i["expr"], i["position"]))


def _lambda_as_operand(t):
    """a lambda that is an operand / callee / base of another expression (where it needs parentheses)"""
    for n in ast.walk(t):
        kids = []
        if isinstance(n, (ast.UnaryOp,)):
            kids = [n.operand]
        elif isinstance(n, ast.BinOp):
            kids = [n.left, n.right]
        elif isinstance(n, ast.BoolOp):
            kids = n.values
        elif isinstance(n, ast.Compare):
            kids = [n.left] + n.comparators
        elif isinstance(n, ast.Call):
            kids = [n.func]
        elif isinstance(n, (ast.Attribute, ast.Subscript, ast.Starred)):
            kids = [n.value]
        elif isinstance(n, ast.IfExp):
            kids = [n.test, n.body]
        elif isinstance(n, ast.comprehension):
            kids = [n.iter] + n.ifs
        if any(isinstance(k, ast.Lambda) for k in kids):
            return True
    return False


KINDS = {
    "C19-reemit-lambda-not-parenthesised": lambda t: _lambda_as_operand(t),
    "C19-reemit-kwonly-lambda-parameters": lambda t: any(isinstance(n, ast.Lambda) and (n.args.kwonlyargs or n.args.posonlyargs) for n in ast.walk(t)),
    "C19-reemit-dict-unpacking": lambda t: any(isinstance(n, ast.Dict) and any(k is None for k in n.keys) for n in ast.walk(t)),
    "C19-reemit-fstring": lambda t: any(isinstance(n, ast.JoinedStr) for n in ast.walk(t)),
    "C19-reemit-walrus": lambda t: any(isinstance(n, ast.NamedExpr) for n in ast.walk(t)),
    "C19-reemit-numeric-literal-attribute": lambda t: any(isinstance(n, ast.Attribute) and isinstance(n.value, ast.Constant) and isinstance(n.value.value, (int, float)) for n in ast.walk(t)),
    "C19-reemit-infinite-float-literal": lambda t: any(isinstance(n, ast.Constant) and isinstance(n.value, float) and n.value in (float("inf"), -float("inf")) for n in ast.walk(t)),
}


def classify(c):
    i = c.get("input") or {}
    if c["kind"] not in ("reemit-raises", "reemit-changes-meaning"):
        return None
    try:
        t = ast.parse(i["expr"], mode="eval")
    except SyntaxError:
        return None
    for fid, pred in KINDS.items():
        if pred(t):
            return fid
    return None


def run(check, tier):
    setup()
    check.encode(AST.ArgumentList.__init__, AST.FunctionDecl.get_argument_expressions)
    check.assume(
        "AST re-emission (exploration): every form of a %d-form expression grammar applied to every pair of operands from a pool of %d "
        "leaves and %s one-level expressions, plus %d hand-picked spellings, in filter-argument and argument-default position; the "
        "re-emitted text must parse to the same AST (ast.dump) as the original; counterexamples are replayed by evaluating the expression "
        "in a real template and natively" % (len(FORMS), len(LEAVES), "all" if tier == "thorough" else len(ONE_LEVEL), len(EXTRA)))
    name = "C19-reemit"
    driver.register(name, h_enum(tier == "thorough"), on_enum)
    st, acc = driver.explore(name, time_limit=1500)
    check.section("AST re-emission of argument defaults and filter arguments (enumeration of expression shapes)", st, acc,
                  dict(forms=len(FORMS), pool=len(pool(tier == "thorough"))), tags_required=("asserted",))
    # smallest expressions first, so that each defect class is represented by its simplest witness
    cands = sorted(acc.candidates, key=lambda c: (len(c["input"]["expr"]) if c.get("input") else 0))
    check.confirm(cands, make_replay, classify, max_confirm=40, per_finding=2)
