"""C07 - namespaces and includes reach other templates with the right context and URI."""
import z3

from symx import core, values, driver, realproc, env
from symx.values import SymStr, sym_string, str_eq_term, conc, ch_eq, lift
from . import common

LK = RT = EXC = PP = None
URI = None
CALLERS = [None, "/t.html", "/d/t.html", "/d/e/t.html"]


def setup():
    global LK, RT, EXC, PP, URI
    if LK is not None:
        return
    LK, RT, EXC = common.mako("lookup", "runtime", "exceptions")
    PP = env.sym_posixpath()
    LK.posixpath = PP
    URI = values.Domain([ord(c) for c in "/.ab"])
    values.set_domain(URI)


def kernel():
    return [LK.TemplateLookup.adjust_uri, RT._lookup_template, RT._kwargs_for_include, RT._include_file, RT.Context._clean_inheritance_tokens,
            RT.Namespace.__getattr__, RT.TemplateNamespace.__getattr__, RT.TemplateNamespace._get_star, RT._populate_self_namespace]


# ------------------------------------------------------------------ relative URI resolution (symbolic URI, two calls on one lookup)
def ref_adjust(uri, rel):
    """the statement: an absolute URI is itself; a relative one is joined to the directory of the template it is written in;
    without a calling template it is taken from the root"""
    if ch_eq(uri.items[0], "/"):
        return uri
    if rel is None:
        return SymStr(["/"] + uri.items)
    d = rel.rsplit("/", 1)[0]
    return SymStr(list(d + "/") + uri.items)


def h_adjust(n):
    def h(p):
        uri = sym_string(n, "u", URI)
        lk = LK.TemplateLookup(["/srv"])
        a = CALLERS[p.choose(len(CALLERS), "first_caller")]
        b = CALLERS[p.choose(len(CALLERS), "second_caller")]
        r1 = lk.adjust_uri(uri, a)
        r2 = lk.adjust_uri(uri, b)
        r3 = lk.adjust_uri(uri, a)
        return dict(uri=uri, a=a, b=b, r=[r1, r2, r3])
    return h


def on_adjust(p, r, exc, acc):
    if exc is not None:
        acc.candidate(kind="adjust-exception", input=None, detail="%s: %s" % (type(exc).__name__, str(exc)[:200]))
        return
    acc.tags["asserted"] += 1
    uri = r["uri"]
    m = p.witness()
    for res, rel, which in ((r["r"][0], r["a"], "first"), (r["r"][1], r["b"], "second"), (r["r"][2], r["a"], "repeated")):
        want = ref_adjust(uri, rel)
        acc.vcs += 1
        st, mod = p.vc(str_eq_term(lift(res), want))
        if st == "fails":
            acc.candidate(kind="relative-uri", input=dict(uri=uri.concretize(mod), callers=[r["a"], r["b"]], which=which),
                          detail="resolved to %r, expected %r" % (conc(res, mod), want.concretize(mod)))
    acc.sample(dict(uri=uri.concretize(m), callers=[r["a"], r["b"]], resolved=[conc(x, m) for x in r["r"]]))


# ------------------------------------------------------------------ include arguments and context isolation
def include_sources(f):
    yn = f.get("yname", "y")       # the second page argument may be called like a parameter of the runtime's own include helpers
    inc = "<%page args=\"x='dx', YN='dy'\"/>x=${x} y=${YN} self=${self.uri} parent=${context.get('parent', 'noparent') if True else ''} " \
          "local=${local.uri}"
    inc = inc.replace("YN", yn)
    args = ", ".join("%s='a%s'" % (yn if k == "y" else k, k) for k in ("x", "y") if f["arg_" + k])
    tag = '<%include file="' + f["uri"] + '"' + (' args="%s"' % args if args else "") + "/>"
    assign = "<% x = 'bx' %>" if f.get("body_assigns_x") else ""
    if f.get("include_in_def"):
        # the include is written in a def that the body calls: its context carries the body's assignments
        main = '<%inherit file="/base"/><%def name="part()">' + tag + "</%def>" + assign + "[${part()}]"
    else:
        main = '<%inherit file="/base"/>' + assign + "[" + tag + "]"
    return {"/sub/inc": inc, "/sub/main": main, "/base": "B(${next.body()})"}


def h_include(p):
    f = {"arg_x": bool(p.choose(2, "x_in_args")), "arg_y": bool(p.choose(2, "y_in_args")), "ctx_x": bool(p.choose(2, "x_in_context")),
         "ctx_y": bool(p.choose(2, "y_in_context")), "uri": ["inc", "/sub/inc"][p.choose(2, "uri_form")],
         "include_in_def": bool(p.choose(2, "include_written_in_a_def")), "body_assigns_x": bool(p.choose(2, "body_assigns_x")),
         "yname": ["y", "data", "uri", "callable_"][p.choose(4, "second_argument_name")]}
    lk = LK.TemplateLookup()
    for k, v in include_sources(f).items():
        lk.put_string(k, v)
    data = {}
    if f["ctx_x"]:
        data["x"] = "cx"
    if f["ctx_y"]:
        data[f["yname"]] = "cy"
    out = exc = None
    try:
        out = lk.get_template("/sub/main").render(**data)
    except Exception as e:
        exc = e
    return dict(f=f, out=out, exc=exc)


def ref_include(f):
    def val(k):
        if f["arg_" + k]:
            return "a" + k
        # "from the context second": inside a def called from the body the context holds the body's current assignments
        if k == "x" and f.get("body_assigns_x") and f.get("include_in_def"):
            return "bx"
        return ("c" + k) if f["ctx_" + k] else "d" + k
    return "B([x=%s y=%s self=/sub/inc parent=noparent local=/sub/inc])" % (val("x"), val("y"))


def on_include(p, r, exc, acc):
    if exc is not None:
        acc.candidate(kind="harness-exception", input=None, detail="%s: %s" % (type(exc).__name__, str(exc)[:200]))
        return
    acc.tags["asserted"] += 1
    want = ref_include(r["f"])
    acc.vcs += 1
    if r["exc"] is None and r["out"] == want:
        acc.good("include-arguments", dict(flags=r["f"]))
    if r["exc"] is not None or r["out"] != want:
        acc.candidate(kind="include-arguments", input=dict(flags=r["f"]), detail="rendered %r (%r), documented %r" % (r["out"], r["exc"], want))
    acc.sample(dict(flags=r["f"], output=r["out"]))


# ------------------------------------------------------------------ namespace member precedence and import=
def ns_sources(f):
    imp = {"none": "", "name": ' import="f"', "star": ' import="*"'}[f["import"]]
    inline = '<%def name="f()">inline</%def>' if f["inline"] else ""
    main = '<%namespace name="ns" file="lib"' + imp + ">" + inline + "</%namespace>" \
           "ns.f=${safe(lambda: ns.f())} f=${safe(lambda: f())} g=${safe(lambda: ns.g())}"
    lib = '<%inherit file="libbase"/>' + ('<%def name="f()">file</%def>' if f["file"] else "") + '<%def name="g()">g-file</%def>'
    base = ('<%def name="f()">inherited</%def>' if f["inherited"] else "") + "${next.body()}"
    return {"/n/main": main, "/n/lib": lib, "/n/libbase": base}


def h_ns(p):
    f = {"inline": bool(p.choose(2, "inline_def")), "file": bool(p.choose(2, "file_def")), "inherited": bool(p.choose(2, "inherited_def")),
         "import": ["none", "name", "star"][p.choose(3, "import")], "ctx_f": bool(p.choose(2, "f_in_context")),
         "strict": bool(p.choose(2, "strict_undefined"))}
    lk = LK.TemplateLookup(strict_undefined=f["strict"])
    for k, v in ns_sources(f).items():
        lk.put_string(k, v)

    def safe(fn):
        try:
            r = fn()
            return r if isinstance(r, str) else str(r)
        except (AttributeError, NameError, TypeError) as e:
            return "MISSING"

    data = {"safe": safe}
    if f["ctx_f"]:
        data["f"] = lambda: "ctx"
    out = exc = None
    try:
        out = lk.get_template("/n/main").render(**data)
    except Exception as e:
        exc = e
    return dict(f=f, out=out, exc=exc)


def ref_ns(f):
    member = "inline" if f["inline"] else ("file" if f["file"] else ("inherited" if f["inherited"] else None))
    nsf = member or "MISSING"
    if f["import"] != "none" and member is not None:
        unq = member
    elif f["ctx_f"]:
        unq = "ctx"
    else:
        unq = "MISSING"
        if f.get("strict"):
            return "raised NameError"       # strict_undefined: the unresolvable name is an immediate NameError
    return "ns.f=%s f=%s g=g-file" % (nsf, unq)


def on_ns(p, r, exc, acc):
    if exc is not None:
        acc.candidate(kind="harness-exception", input=None, detail="%s: %s" % (type(exc).__name__, str(exc)[:200]))
        return
    f = r["f"]
    if f["import"] == "name" and not (f["inline"] or f["file"] or f["inherited"]):
        acc.counts["import of a name nobody defines: not asserted"] += 1
        return
    if f["import"] == "star" and f["inherited"] and not (f["inline"] or f["file"]):
        # import="*" covers the defs the namespace's template exports itself; whether defs it merely inherits are
        # "exported" too is not fixed by the statement (the implementation leaves them out): not asserted
        acc.counts["import=* of a def the namespace only inherits: not asserted"] += 1
        return
    acc.tags["asserted"] += 1
    want = ref_ns(f)
    acc.vcs += 1
    got = r["out"]
    if want == "raised NameError" and isinstance(r["exc"], NameError):
        acc.sample(dict(flags=f, output=want))
        return
    if r["exc"] is not None or got != want:
        acc.candidate(kind="namespace-precedence", input=dict(flags=f), detail="rendered %r (%r), documented %r" % (got, r["exc"], want))
    acc.sample(dict(flags=f, output=got))


# ------------------------------------------------------------------ every way of reaching a template by URI, from two templates in one render
API = ["get_namespace", "get_template", "include_file", "include-tag", "namespace-tag", "namespace-import", "namespace-then-relative", "namespace-def-uses-local"]
SECOND = ["/b/two", "/a/x/two", "/two"]
FORMS = ["lib", "/lib", "x/lib", "nolib", "/a/lib", ""]
LIBS = ["/lib", "/a/lib", "/b/lib", "/a/x/lib"]


def api_text(api, u):
    return {
        "get_namespace": "${local.get_namespace('%s').who()}" % u,
        "get_template": "T:${local.get_template('%s').uri}" % u,
        "include_file": "<% local.include_file('" + u + "') %>",
        "include-tag": '<%include file="' + u + '"/>',
        "namespace-tag": '<%namespace name="n" file="' + u + '"/>${n.who()}',
        "namespace-import": '<%namespace file="' + u + '" import="who"/>${who()}',
        # the namespace object resolves further relative URIs against ITS template, wherever it was loaded from
        "namespace-then-relative": '<%namespace name="n" file="' + u + '"/>${n.get_namespace("sib").who()}',
        "namespace-def-uses-local": '<%namespace name="n" file="' + u + '"/>${n.sibling()}',
    }[api]


def api_sources(f):
    src = {}
    for l in LIBS:
        src[l] = '<%def name="who()">LIB:' + l + '</%def><%def name="sibling()">${local.get_namespace("sib").who()}</%def>I:' + l
        sib = l.rsplit("/", 1)[0] + "/sib"
        src[sib] = '<%def name="who()">SIB:' + sib + "</%def>"
    src["/a/one"] = "one(" + api_text(f["api1"], f["uri"]) + ")"
    src[f["second"]] = "two(" + api_text(f["api2"], f["uri"]) + ")"
    src["/main"] = '<%include file="/a/one"/>|<%include file="' + f["second"] + '"/>|<%include file="/a/one"/>'
    return src


def ref_api(f):
    def one(caller, api):
        u = f["uri"]
        resolved = u if u.startswith("/") else caller.rsplit("/", 1)[0] + "/" + u
        if resolved not in LIBS:
            return None
        if api in ("namespace-then-relative", "namespace-def-uses-local"):
            return "SIB:" + resolved.rsplit("/", 1)[0] + "/sib"
        return {"get_namespace": "LIB:", "get_template": "T:", "include_file": "I:", "include-tag": "I:", "namespace-tag": "LIB:", "namespace-import": "LIB:"}[api] + resolved
    a, b = one("/a/one", f["api1"]), one(f["second"], f["api2"])
    if a is None or b is None:
        return "raised TemplateLookupException"
    return "one(%s)|two(%s)|one(%s)" % (a, b, a)


def h_api(p):
    f = {"api1": API[p.choose(len(API), "first_api")], "api2": API[p.choose(len(API), "second_api")],
         "second": SECOND[p.choose(len(SECOND), "second_caller")], "uri": FORMS[p.choose(len(FORMS), "uri_form")]}
    lk = LK.TemplateLookup()
    for k, v in api_sources(f).items():
        lk.put_string(k, v)
    out = exc = None
    try:
        out = lk.get_template("/main").render()
    except Exception as e:
        exc = e
    return dict(f=f, out=out, exc=exc)


def on_api(p, r, exc, acc):
    if exc is not None:
        acc.candidate(kind="harness-exception", input=None, detail="%s: %s" % (type(exc).__name__, str(exc)[:200]))
        return
    acc.tags["asserted"] += 1
    acc.vcs += 1
    want = ref_api(r["f"])
    if want.startswith("raised"):
        acc.tags["unresolvable"] += 1
        ok = isinstance(r["exc"], EXC.TemplateLookupException)
    else:
        ok = r["exc"] is None and r["out"] == want
    if ok:
        acc.good("uri-reaches-wrong-template", dict(flags=r["f"], api=True))
    if not ok:
        acc.candidate(kind="uri-reaches-wrong-template", input=dict(flags=r["f"], api=True), detail="rendered %r (%r), documented %r" % (r["out"], r["exc"], want))
    acc.sample(dict(flags=r["f"], output=r["out"] if r["exc"] is None else type(r["exc"]).__name__))


# ------------------------------------------------------------------ several anonymous <%namespace import=...> tags
def anon_sources(f):
    sep = {"same-line": "", "blank": " ", "next-line": "\n"}[f["layout"]]
    tags = ['<%%namespace file="/n/lib%s" import="%s"/>' % (k, "*" if f["import_" + k] == "star" else "f" + k) for k in ("a", "b")]
    if f.get("named_between"):
        tags.insert(1, '<%namespace name="mid" file="/n/libb"/>')
    main = sep.join(tags) + "\n[${fa()}|${fb()}]"
    return {"/n/main": main, "/n/liba": '<%def name="fa()">A</%def>', "/n/libb": '<%def name="fb()">B</%def>'}


def anon_case(LKm, f):
    lk = LKm.TemplateLookup(strict_undefined=f["strict"])
    for k, v in anon_sources(f).items():
        lk.put_string(k, v)
    data = {}
    if f["ctx"]:
        data = {"fa": lambda: "ctx-a", "fb": lambda: "ctx-b"}       # imported defs come ahead of context variables
    try:
        return lk.get_template("/n/main").render(**data).strip()
    except Exception as e:
        return "raised %s: %s" % (type(e).__name__, str(e)[:80])


def h_anon(p):
    f = {"layout": ["same-line", "blank", "next-line"][p.choose(3, "layout")], "import_a": ["star", "name"][p.choose(2, "import_a")],
         "import_b": ["star", "name"][p.choose(2, "import_b")], "named_between": bool(p.choose(2, "named_namespace_between")),
         "ctx": bool(p.choose(2, "names_also_in_context")), "strict": bool(p.choose(2, "strict_undefined"))}
    return dict(f=f, out=anon_case(LK, f))


def on_anon(p, r, exc, acc):
    if exc is not None:
        acc.candidate(kind="harness-exception", input=None, detail="%s: %s" % (type(exc).__name__, str(exc)[:200]))
        return
    acc.tags["asserted"] += 1
    acc.vcs += 1
    if r["out"] != "[A|B]":
        acc.candidate(kind="anonymous-imports", input=dict(flags=r["f"]), detail="rendered %r, both imported defs are callable unqualified: '[A|B]'" % (r["out"],))
    else:
        acc.good("anonymous-imports", dict(flags=r["f"]))
    acc.sample(dict(flags=r["f"], output=r["out"]))



def make_replay(c):
    i = c["input"] or {}
    body = """
sys.path.insert(0, "/verif")
CASE = __CASE__
KIND = __KIND__
from mako.lookup import TemplateLookup
bad = None
if "uri" in CASE:
    # two templates in different directories use the same relative URI on one lookup
    uri, callers = CASE["uri"], CASE["callers"]
    print("uri", repr(uri), "written in", callers)
    lk = TemplateLookup(["/srv"])
    for rel in callers + [callers[0]]:
        got = lk.adjust_uri(uri, rel)
        want = uri if uri.startswith("/") else ("/" + uri if rel is None else rel.rsplit("/", 1)[0] + "/" + uri)
        print("  from", rel, "->", repr(got), "expected", repr(want))
        if got != want: bad = "relative URI resolved against the wrong template"
else:
    from props import C07
    f = CASE["flags"]
    if "layout" in f:
        src, want, top = C07.anon_sources(f), "[A|B]", "/n/main"
        data = {"fa": lambda: "ctx-a", "fb": lambda: "ctx-b"} if f["ctx"] else {}
    elif "api1" in f:
        src, want, top, data = C07.api_sources(f), C07.ref_api(f), "/main", {}
    elif "arg_x" in f:
        src, want, top, data = C07.include_sources(f), C07.ref_include(f), "/sub/main", {}
        if f["ctx_x"]: data["x"] = "cx"
        if f["ctx_y"]: data[f.get("yname", "y")] = "cy"
    else:
        src, want, top = C07.ns_sources(f), C07.ref_ns(f), "/n/main"
        STRICT = f.get("strict", False)
        def safe(fn):
            try:
                r = fn(); return r if isinstance(r, str) else str(r)
            except (AttributeError, NameError, TypeError): return "MISSING"
        data = {"safe": safe}
        if f["ctx_f"]: data["f"] = lambda: "ctx"
    lk = TemplateLookup(strict_undefined=f.get("strict", False))
    for k, v in src.items(): lk.put_string(k, v); print("---", k); print(v)
    try:
        got = lk.get_template(top).render(**data)
        if "layout" in f: got = got.strip()
    except Exception as e:
        got = "raised %s: %s" % (type(e).__name__, e)
    print("rendered  :", got); print("documented:", want)
    if got != want and not (want.startswith("raised") and got.startswith(want)): bad = "differs from the documented behaviour"
print("VIOLATED: " + bad if bad else "HOLDS")
sys.exit(1 if bad else 0)
""".replace("__CASE__", repr(i)).replace("__KIND__", repr(c["kind"]))
    return (c["kind"], body, repr(i))


def classify(c):
    return None


def run(check, tier):
    setup()
    check.encode(*kernel())
    check.assume(
        "relative URIs: TemplateLookup.adjust_uri runs on a fully symbolic URI (characters over {/ . a b}) for two solver-chosen calling "
        "templates on ONE lookup (so that the URI cache is exercised across callers), then once more for the first; posixpath from stdlib source",
        "include arguments: presence of each <%page> argument in args= and in the context, and the spelling of the include URI, are "
        "solver-chosen; namespaces: inline def / file def / inherited def / import= (none, name, *) / a context variable of the same name "
        "are solver-chosen; expected texts follow the statement (args first, context second, default last; inline > file > inherited; "
        "imported defs ahead of context variables; an unresolvable name under strict_undefined is a NameError)",
        "URI-taking APIs (exploration over a grammar of template sets): two templates in different directories, included by one main template "
        "in one render (first, second, first again), each reach another template through a solver-chosen API with the same solver-chosen URI "
        "(relative, absolute, relative into a sub-directory, unresolvable); every target prints its own URI; the expected target is the URI "
        "joined to the directory of the template the call is written in")
    check.not_claimed("directory trees deeper than 2", "module= namespaces (import machinery)", "'..' in put_string-backed lookups (exact keys)")
    jobs = []
    for n in range(1, {"quick": 4, "thorough": 6}[tier] + 1):
        jobs.append(("C07-adjust-%d" % n, h_adjust(n), on_adjust, "adjust_uri for a symbolic URI of %d characters from two callers" % n, dict(chars=n), ("asserted",)))
    jobs.append(("C07-include", h_include, on_include, "include arguments and context isolation", dict(flags=5), ("asserted",)))
    jobs.append(("C07-ns", h_ns, on_ns, "namespace member precedence and import=, strict_undefined on/off", dict(flags=6), ("asserted",)))
    jobs.append(("C07-anon", h_anon, on_anon, "two anonymous <%namespace import=> tags: layout on the line(s), import forms, a named namespace between, "
                 "names also in the context, strict_undefined", dict(flags=6), ("asserted",)))
    jobs.append(("C07-api", h_api, on_api, "get_namespace / get_template / include_file / <%include> / <%namespace file> with one URI from two templates in one render",
                 dict(apis=len(API), second_callers=SECOND, uri_forms=FORMS), ("asserted", "unresolvable")))
    for j in jobs:
        driver.register(j[0], j[1], j[2])
    cands = []
    goods = []
    for name, _h, _o, title, bounds, req in jobs:
        st, acc = driver.explore(name, time_limit=900)
        check.section(title, st, acc, bounds, tags_required=req)
        cands.extend(acc.candidates)
        goods.extend(acc.goods)
    check.confirm(cands, make_replay, classify, max_confirm=16, goods=goods)
    driver.close_pool()
