"""entry point:  python -m props.main <Cxx> quick|thorough"""
import importlib
import os
import sys
import traceback

sys.setrecursionlimit(20000)


def main():
    pid = sys.argv[1]
    tier = sys.argv[2] if len(sys.argv) > 2 else os.environ.get("VERIF_TIER", "quick")
    from symx import report, driver
    check = report.Check(pid, tier)
    try:
        mod = importlib.import_module("props." + pid)
        check.known_lines()
        mod.run(check, tier)
    except driver.HarnessError as e:
        check.harness_error(str(e)[:3000])
    except BaseException as e:
        if isinstance(e, (KeyboardInterrupt, SystemExit)):
            raise
        check.harness_error("%s: %s\n%s" % (type(e).__name__, e, traceback.format_exc()[-3000:]))
    code = check.finish(level=getattr(sys.modules.get("props." + pid), "LEVEL", "model_checking"))
    sys.exit(code)


if __name__ == "__main__":
    main()
