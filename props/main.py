"""entry point:  python -m props.main <Cxx> quick|thorough"""
import importlib
import os
import sys
import traceback

sys.setrecursionlimit(20000)


def main():
    pid = sys.argv[1]
    tier = sys.argv[2] if len(sys.argv) > 2 else os.environ.get("VERIF_TIER", "quick")
    from symx import report, driver
    check = report.Check(pid, tier)
    try:
        mod = importlib.import_module("props." + pid)
        check.known_lines()
        mod.run(check, tier)
    except driver.HarnessError as e:
        check.harness_error(str(e)[:3000])
    except BaseException as e:
        if isinstance(e, (KeyboardInterrupt, SystemExit)):
            raise
        check.harness_error("%s: %s\n%s" % (type(e).__name__, e, traceback.format_exc()[-3000:]))
    code = check.finish(level=getattr(sys.modules.get("props." + pid), "LEVEL", "model_checking"))
    # leave without tearing the interpreter down: scheduler threads of the concurrency harnesses are daemon threads parked
    # on events, and z3 objects are still referenced from them; finalising both at exit crashed the process (twice in several
    # hundred runs) after the verdict had been written
    sys.stdout.flush()
    sys.stderr.flush()
    for closer in ("realproc.shutdown", "driver.close_pool"):
        try:
            m_, f_ = closer.split(".")
            getattr(importlib.import_module("symx." + m_), f_)()
        except Exception:
            pass
    os._exit(code)


if __name__ == "__main__":
    main()
