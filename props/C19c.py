"""C19, third part (exploration): (a) signatures of defs / blocks / <%page> are re-emitted with every parameter kind and default in
place; (b) the names a code block demands from the template's namespace are exactly the names Python resolves outside the block.

(a) every signature of a grammar (0-2 plain positionals, 0-2 positionals with defaults, none / *args / bare *, keyword-only
    with and without default, **kw) goes through FunctionDecl.get_argument_expressions; the re-emitted signature must parse to
    the same ast.arguments.
(b) programs of one or two statements from a grammar of binding forms (assignments, loops, with/except targets, imports, defs
    and lambdas with every parameter kind, comprehensions of every kind with one or two clauses, at block level and inside
    functions / lambdas) go through mako.ast.PythonCode; the reference is CPython's own symbol table of the same code placed in
    a function body: names it resolves as globals must be demanded (undeclared_identifiers), and nothing else may be demanded
    except names the block itself assigns at its top level (which Mako deliberately pre-loads, e.g. for x = x + 1)."""
import ast
import symtable

from symx import core, driver
from . import common

AST = None


def setup():
    global AST
    if AST is None:
        AST = common.mako("ast")


# ------------------------------------------------------------------ (a) signatures
def signature(p):
    parts = []
    nposonly = p.choose(2, "positional_only")
    npos = p.choose(3, "plain_positionals")
    ndef = p.choose(3, "positionals_with_default")
    star = ["none", "*args", "*"][p.choose(3, "star")]
    kwo = p.choose(2, "keyword_only_without_default")
    kwd = p.choose(2, "keyword_only_with_default")
    kws = p.choose(2, "double_star")
    if nposonly:
        parts += ["o0", "/"]
    parts += ["p%d" % i for i in range(npos)]
    parts += ["d%d=%s" % (i, ["'td'", "1 + 1", "(1, 2)"][i]) for i in range(ndef)]
    if star == "*args":
        parts.append("*rest")
    elif star == "*" and (kwo or kwd):
        parts.append("*")
    if star != "none":
        kwparts = (["k0"] if kwo else []) + (["k1='kd'"] if kwd else [])
        if kwo and kwd and p.choose(2, "keyword_only_with_default_first"):
            kwparts.reverse()          # def f(*a, k1='kd', k0): legal, the default belongs to k1
        parts += kwparts
    if kws:
        parts.append("**extra")
    return ", ".join(parts)


def h_sig(p):
    sig = signature(p)
    fd = AST.FunctionDecl("def f(%s):pass" % sig, source="", lineno=1, pos=1, filename="t")
    out = err = None
    try:
        out = ", ".join(fd.get_argument_expressions())
    except Exception as e:
        err = "%s: %s" % (type(e).__name__, e)
    return dict(sig=sig, out=out, err=err)


def args_dump(sig):
    return ast.dump(ast.parse("def f(%s): pass" % sig).body[0].args)


def on_sig(p, r, exc, acc):
    if exc is not None:
        acc.candidate(kind="harness-exception", input=None, detail="%s: %s" % (type(exc).__name__, str(exc)[:200]))
        return
    acc.tags["asserted"] += 1
    acc.vcs += 1
    ok = False
    if r["err"] is None:
        try:
            ok = args_dump(r["out"]) == args_dump(r["sig"])
        except SyntaxError:
            ok = False
    if not ok:
        acc.candidate(kind="signature-reemission", input=dict(signature=r["sig"]), detail="re-emitted as %r (%s)" % (r["out"], r["err"]))
    if len(acc.samples) < 6:
        acc.sample(dict(signature=r["sig"], reemitted=r["out"]))


# ------------------------------------------------------------------ (b) names demanded from the namespace
STATEMENTS = [
    "b = g1", "b = b2 = g1", "b += g1", "b, c = g1", "b, *c = g1", "o.attr = g1", "o[g2] = g1", "(b := g1)", "del o.attr",
    "for b in g1: c = b", "for b, c in g1: pass", "while g1: b = g2",
    "with g1() as b: c = b", "with g1() as (b, c): pass",
    "try:\n    b = g1\nexcept g2 as ex:\n    c = ex\nfinally:\n    d = g3",
    "import m1", "import m1.sub", "import m1.sub as b", "from m1 import n1", "from m1 import n1 as b",
    "def fn(p1, p2=g1, *pa, k1, k2=g2, **pk):\n    loc = p1 + p2 + k1 + k2 + g3\n    return loc + len(pa) + len(pk)",
    "def fn(p1):\n    def inner(q1=p1):\n        return q1 + p1 + g1\n    return inner",
    "def fn():\n    return [e1 for e1 in g1 if e1 > g2]",
    "def fn():\n    return {k: v for r1, line in enumerate(g1) for k, v in enumerate(line)}",
    "def fn():\n    return {e1 for r1 in g1 for e1 in r1}",
    "def fn():\n    return list(e1 + r1 for r1 in g1 for e1 in r1 if r1 and e1)",
    "def fn():\n    return [[e2 for e2 in e1] for e1 in g1]",
    "lam = lambda p1, p2=g1, *pa, k1=g2, **pk: p1 + p2 + k1 + g3",
    "lam = lambda g1=g1: g1", "def fn(v, *, g2=g2):\n    return v + g2", "def fn(g1=g1 + g2):\n    g2 = 1\n    return g1 + g2",
    "def fn(p1):\n    lam = lambda p1=p1, g1=g1: p1 + g1\n    return lam",
    "lam = lambda: {k: v for r1, line in enumerate(g1) for k, v in enumerate(line)}",
    "lam = lambda: [e1 for r1 in g1 for e1 in r1]",
    "b = [e1 for e1 in g1]", "b = {k: v for k, v in g1}", "b = {k: v for r1, line in enumerate(g1) for k, v in enumerate(line)}",
    "b = [e1 for r1 in g1 for e1 in r1 if e1 != g2]", "b = (e1 for e1 in g1)", "b = {e1 for e1 in g1}",
    "b = f'{g1} {g2!r:>{g3}}'", "b = g1 if g2 else g3", "b = g1(*g2, **g3)", "b = g1[g2:g3]",
    "class K(g1):\n    attr = g2\n    def meth(self, p1=g3):\n        return self.attr + p1",
    "def fn():\n    global gl\n    gl = g1",
    "def fn(p1):\n    try:\n        pass\n    except g1 as ex:\n        return ex\n    with p1 as w1:\n        return w1",
    "def fn():\n    import m1.sub as alias\n    from m2 import n2\n    return alias, n2",
    "b = lambda p1: (lambda p2: p1 + p2 + g1)",
    "async def co(p1):\n    async with g1 as w1:\n        pass\n    async for e1 in g2:\n        pass\n    return [e2 async for e2 in p1]",
    "match g1:\n    case [b, c]:\n        d = b\n    case {'k': e}:\n        pass\n    case K(attr=f1):\n        pass",
]


def reference(code):
    """(names CPython resolves outside the code when it is a function body, names the code binds at its own top level)"""
    src = "def __blk__():\n" + "".join("    " + ln + "\n" for ln in code.split("\n"))
    top = symtable.symtable(src, "<block>", "exec")
    fn = [c for c in top.get_children() if c.get_name() == "__blk__"][0]
    glob = set()

    def walk(tb):
        for s in tb.get_symbols():
            if s.is_global() and not s.is_declared_global():
                glob.add(s.get_name())
        for c in tb.get_children():
            walk(c)
    walk(fn)
    local_top = {s.get_name() for s in fn.get_symbols() if s.is_local()}
    return glob, local_top


def h_idents(nstmts):
    def h(p):
        stmts = [STATEMENTS[p.choose(len(STATEMENTS), "statement%d" % i)] for i in range(nstmts)]
        code = "\n".join(stmts)
        pc = err = None
        try:
            pc = AST.PythonCode(code, source="", lineno=1, pos=1, filename="t")
        except Exception as e:
            err = "%s: %s" % (type(e).__name__, e)
        return dict(code=code, undeclared=None if pc is None else set(pc.undeclared_identifiers), declared=None if pc is None else set(pc.declared_identifiers), err=err)
    return h


def on_idents(p, r, exc, acc):
    if exc is not None:
        acc.candidate(kind="harness-exception", input=None, detail="%s: %s" % (type(exc).__name__, str(exc)[:200]))
        return
    try:
        glob, local_top = reference(r["code"])
    except SyntaxError as e:
        acc.counts["not valid in a function body: %s" % e.msg] += 1
        return
    acc.tags["asserted"] += 1
    acc.vcs += 2
    if r["err"] is not None:
        acc.candidate(kind="identifier-analysis-raises", input=dict(code=r["code"]), detail=r["err"])
        return
    missing = glob - r["undeclared"]
    # `global gl` + assignment: the name lives in the module, it is not read from the template's namespace
    # names the block itself declares at its top level are not fetched from the context by the code generator
    extra = r["undeclared"] - glob - local_top - r["declared"]
    if missing:
        acc.candidate(kind="free-name-not-demanded", input=dict(code=r["code"], names=sorted(missing)),
                      detail="read without being bound, yet not in undeclared_identifiers: %s" % sorted(missing))
    if extra:
        acc.candidate(kind="bound-name-demanded", input=dict(code=r["code"], names=sorted(extra)),
                      detail="bound by the code itself (parameter / comprehension variable / nested local), yet demanded from the context: %s" % sorted(extra))
    if len(acc.samples) < 8:
        acc.sample(dict(code=r["code"], demanded=sorted(r["undeclared"]), python_globals=sorted(glob)))


# ------------------------------------------------------------------ (c) defaults of a def read names of the template's namespace
PLACEMENTS = {
    "nested-def": '<%def name="outer()"><%def name="f(SIG)">${repr((SHOW))}</%def>${f(CALL)}</%def>${outer()}',
    "nested-def-in-block": '<%block name="blk"><%def name="f(SIG)">${repr((SHOW))}</%def>${f(CALL)}</%block>',
    "def-in-call-body": '<%def name="wrap()">${caller.body()}</%def><%call expr="wrap()"><%def name="f(SIG)">${repr((SHOW))}</%def>${f(CALL)}</%call>',
    "call-body-args": '<%def name="wrap()">${caller.body(CALL)}</%def><%call expr="wrap()" args="SIG">${repr((SHOW))}</%call>',
    "top-level-def": '<%def name="f(SIG)">${repr((SHOW))}</%def>${f(CALL)}',
}
DEFAULT_SITES = {
    # signature, names to show, call arguments
    "positional-default": ("a=zz", "a,", ""),
    "second-positional-default": ("p, a=zz + 1", "p, a", "5"),
    "keyword-only-default": ("*, k=zz", "k,", ""),
    "keyword-only-after-args": ("*rest, k=zz * 2", "rest, k", "1, 2"),
    "positional-and-keyword-only": ("a=zz, *, k=yy", "a, k", ""),
    "default-in-lambda": ("a=lambda: zz", "a(),", ""),
    "default-comprehension": ("a=[e + zz for e in yy2]", "a,", ""),
    "default-named-like-the-parameter": ("zz=zz, yy=yy + 1", "zz, yy", ""),      # the closure idiom: def f(x=x)
}


def tagsig_template(placement, site):
    sig, show, call = DEFAULT_SITES[site]
    return PLACEMENTS[placement].replace("SIG", sig).replace("SHOW", show).replace("CALL", call)


def tagsig_expected(site):
    sig, show, call = DEFAULT_SITES[site]
    ns = dict(zz=3, yy=4, yy2=[1, 2])
    exec("def f(%s): return repr((%s))" % (sig, show), ns)
    return eval("f(%s)" % call, ns)


def h_tagsig(p):
    TPm = common.mako("template")
    placement = list(PLACEMENTS)[p.choose(len(PLACEMENTS), "placement")]
    site = list(DEFAULT_SITES)[p.choose(len(DEFAULT_SITES), "default")]
    strict = bool(p.choose(2, "strict_undefined"))
    src = tagsig_template(placement, site)
    try:
        got = TPm.Template(src, strict_undefined=strict).render(zz=3, yy=4, yy2=[1, 2]).strip()
    except Exception as e:
        got = "raised %s: %s" % (type(e).__name__, e)
    return dict(placement=placement, site=site, strict=strict, src=src, got=got, want=tagsig_expected(site))


def on_tagsig(p, r, exc, acc):
    if exc is not None:
        acc.candidate(kind="harness-exception", input=None, detail="%s: %s" % (type(exc).__name__, str(exc)[:200]))
        return
    acc.tags["asserted"] += 1
    acc.vcs += 1
    desc = dict(placement=r["placement"], default=r["site"], strict_undefined=r["strict"])
    if r["got"] != r["want"]:
        acc.candidate(kind="default-reads-namespace", input=desc, detail="%s rendered %r, Python gives %r" % (r["src"], r["got"], r["want"]))
    else:
        acc.good("default-reads-namespace", desc)
    if len(acc.samples) < 6:
        acc.sample(dict(desc, template=r["src"], rendered=r["got"]))



def make_replay(c):
    i = c["input"] or {"signature": "a"}
    body = """
import ast, symtable
sys.path.insert(0, "/verif")
from mako.template import Template
CASE = __CASE__
bad = None
if "placement" in CASE:
    from props import C19c
    src = C19c.tagsig_template(CASE["placement"], CASE["default"])
    want = C19c.tagsig_expected(CASE["default"])
    print(src)
    try:
        got = Template(src, strict_undefined=CASE["strict_undefined"]).render(zz=3, yy=4, yy2=[1, 2]).strip()
    except Exception as e:
        got = "raised %s: %s" % (type(e).__name__, e)
    print("rendered:", got, "  python:", want)
    if got != want: bad = "a name read by an argument default is not supplied by the template's namespace"
elif "signature" in CASE:
    # the def is called with some but not all optional arguments; its parameters must hold what Python binds for that signature
    sig = CASE["signature"]
    print("signature:", sig)
    ns = {"x": 10}
    exec("def f(" + sig + "): return dict(locals())", ns)
    a = ast.parse("def f(" + sig + "): pass").body[0].args
    npos = len(a.posonlyargs) + len(a.args)
    calls = []
    for n in range(npos - len(a.defaults), npos + 1):
        kw = ", ".join("%s=%d" % (k.arg, 70 + j) for j, k in enumerate(a.kwonlyargs) if a.kw_defaults[j] is None)
        calls.append(", ".join([str(50 + j) for j in range(n)] + ([kw] if kw else [])))
    for call in calls:
        want = repr(sorted(eval("f(" + call + ")", ns).items()))
        # compare through explicit parameter names
        names = [x.arg for x in a.posonlyargs + a.args + a.kwonlyargs] + ([a.vararg.arg] if a.vararg else []) + ([a.kwarg.arg] if a.kwarg else [])
        body_ = "[" + ", ".join("('%s', %s)" % (n_, n_) for n_ in sorted(names)) + "]"
        try:
            t = Template('<%def name="f(' + sig.replace('"', "'") + ')">${repr(' + body_ + ')}</%def>${f(' + call + ')}')
            got = t.render(x=10)
        except Exception as e:
            got = "raised %s: %s" % (type(e).__name__, e)
        print("f(%s): template %s   python %s" % (call, got, want))
        if got != want: bad = "parameters of the def are not what Python binds for the signature as written"
else:
    code = CASE["code"]
    print(code)
    src = "def __blk__():\\n" + "".join("    " + ln + "\\n" for ln in code.split("\\n"))
    fn = [c for c in symtable.symtable(src, "<b>", "exec").get_children() if c.get_name() == "__blk__"][0]
    glob = set()
    def walk(tb):
        for s in tb.get_symbols():
            if s.is_global(): glob.add(s.get_name())
        for c in tb.get_children(): walk(c)
    walk(fn)
    class Any:
        def __call__(self, *a, **k): return Any()
        def __iter__(self): return iter((Any(),))
        def __getattr__(self, n):
            if n.startswith("__"): raise AttributeError(n)
            return Any()
        def __enter__(self): return Any()
        def __exit__(self, *a): return False
        def __getitem__(self, k): return Any()
        def __bool__(self): return True
        def __gt__(self, o): return True
        def __add__(self, o): return self
        __radd__ = __add__
    import builtins
    data = {g: Any() for g in glob if not hasattr(builtins, g)}
    print("names Python resolves outside the block:", sorted(glob))
    try:
        Template("<%\\n" + code + "\\n%>ok", strict_undefined=True).render(**data)
        print("rendered under strict_undefined with exactly those names supplied")
    except NameError as e:
        print("NameError:", e)
        bad = "strict_undefined raised for a name the code binds itself: %s" % e
    except Exception as e:
        print("(executing the block raised %s: %s - irrelevant here)" % (type(e).__name__, e))
    if not bad and CASE.get("names") and "not demanded" in KIND_TEXT:
        # run the block, then call whatever it defined: a free name that was not fetched from the namespace is a NameError
        def exercise(d):
            for name in ("fn", "lam", "b", "K"):
                v = d.get(name)
                if callable(v):
                    for nargs in (0, 1, 2):
                        try:
                            r_ = v(*([Any()] * nargs))
                            if callable(r_): r_()
                            break
                        except TypeError:
                            continue
            return ""
        try:
            Template("<%\\n" + code + "\\n%>${exercise(locals())}").render(exercise=exercise, **data)
        except NameError as e:
            if any(repr(n) in str(e) for n in CASE["names"]): bad = "a free name is not fetched from the template's namespace: %s" % e
        except Exception as e:
            print("(running the block raised %s: %s - irrelevant here)" % (type(e).__name__, e))
print("VIOLATED: " + bad if bad else "HOLDS")
sys.exit(1 if bad else 0)
""".replace("__CASE__", repr(i)).replace("KIND_TEXT", repr("not demanded" if c["kind"] == "free-name-not-demanded" else ""))
    return (c["kind"], body, repr(sorted(i.items(), key=str)))


def classify(c):
    i = c.get("input") or {}
    if c["kind"] == "default-reads-namespace" and i.get("placement") in ("top-level-def", "def-in-call-body"):
        return "C19-def-default-evaluated-without-context"
    if c["kind"] == "signature-reemission" and "*," in i.get("signature", "").replace(" ", "") + ",":
        import re
        if re.search(r"(^|,)\s*\*\s*(,|$)", i["signature"]):
            return "C19-signature-bare-star-dropped"
    if c["kind"] == "signature-reemission" and "/" in i.get("signature", ""):
        # the names are kept (fixed), the marker itself is not carried through: same class as the bare star
        return "C19-signature-bare-star-dropped"
    return None


def run(check, tier, cands):
    setup()
    check.encode(AST.FunctionDecl.get_argument_expressions, AST.PythonCode.__init__)
    check.assume(
        "signatures (exploration): 0-2 plain positionals, 0-2 positionals with defaults, none / *args / bare *, keyword-only with and "
        "without default, **kw - every combination through FunctionDecl.get_argument_expressions; the re-emitted signature must parse to "
        "the same ast.arguments; counterexamples are replayed by calling the def of a real template with some of the optional arguments",
        "argument defaults of real defs (exploration): %d placements of a def (nested in a def / block / call body, top level) x %d "
        "default forms (positional, keyword-only, after *args, lambda, comprehension) x strict_undefined, each default reading context "
        "variables; reference = the same signature as a Python function" % (len(PLACEMENTS), len(DEFAULT_SITES)),
        "names demanded from the namespace (exploration): programs of %d statement(s) from %d binding / reading forms through "
        "mako.ast.PythonCode; reference = CPython's symtable for the same code as a function body: its implicit globals must all be in "
        "undeclared_identifiers, and undeclared_identifiers may add only names the block assigns at its own top level; counterexamples "
        "are replayed by rendering the block under strict_undefined with exactly the reference's names supplied" % ({"quick": 1, "thorough": 2}[tier], len(STATEMENTS)))
    jobs = [("C19-signatures", h_sig, on_sig, "signature re-emission over the parameter-kind grammar", dict(forms="3x3x3x2x2x2"), ("asserted",)),
            ("C19-names-1", h_idents(1), on_idents, "names demanded by one statement of the grammar", dict(statements=len(STATEMENTS)), ("asserted",))]
    jobs.append(("C19-tag-defaults", h_tagsig, on_tagsig, "argument defaults of real defs reading names of the template's namespace",
                 dict(placements=list(PLACEMENTS), defaults=list(DEFAULT_SITES)), ("asserted",)))
    if tier == "thorough":
        jobs.append(("C19-names-2", h_idents(2), on_idents, "names demanded by two statements of the grammar", dict(statements=len(STATEMENTS)), ("asserted",)))
    for j in jobs:
        driver.register(j[0], j[1], j[2])
    for name, _h, _o, title, bounds, req in jobs:
        st, acc = driver.explore(name, time_limit=900)
        check.section(title, st, acc, bounds, tags_required=req)
        cands.extend(acc.candidates)
