"""C20 - message extraction finds every translatable string at its template line."""
import io
import types
import z3

from symx import core, values, driver, realproc
from symx.values import SymInt, conc
from . import common

PT = EX = BP = LP = None


def setup():
    global PT, EX, BP, LP
    if PT is not None:
        return
    PT, EX, BP = common.mako("parsetree", "ext.extract", "ext.babelplugin")
    try:
        LP = common.mako("ext.linguaplugin")
    except Exception:
        LP = None


def kernel():
    k = [EX.MessageExtractor.extract_nodes, EX.MessageExtractor._split_comment, BP.BabelMakoExtractor.process_python]
    if LP is not None:
        k.append(LP.LinguaMakoExtractor.process_python)
    return k


# ------------------------------------------------------------------ parse-tree nodes with symbolic line numbers
class Code:
    def __init__(self, code):
        self.code = code


def mk(cls, lineno, **attrs):
    n = cls.__new__(cls)
    n.lineno = lineno
    n.pos = 1
    n.nodes = []
    n.source = ""
    n.filename = None
    for k, v in attrs.items():
        setattr(n, k, v)
    return n


# kind -> builder(lineno, python text) ; the python text is what the construct hands to the tokenizer
KINDS = {
    "expression": lambda ln, py: mk(PT.Expression, ln, code=Code(py), text=py, escapes="", escapes_code=Code("")),
    "block": lambda ln, py: mk(PT.Code, ln, code=Code(py), text=py, ismodule=False),
    "control-if": lambda ln, py: mk(PT.ControlLine, ln, text="if " + py + ":", keyword="if", isend=False, is_primary=True),
    "control-elif": lambda ln, py: mk(PT.ControlLine, ln, text="elif " + py + ":", keyword="elif", isend=False, is_primary=False),
    "control-for": lambda ln, py: mk(PT.ControlLine, ln, text="for x in " + py + ":", keyword="for", isend=False, is_primary=True),
    "def": lambda ln, py: mk(PT.DefTag, ln, function_decl=Code("def d(a=" + py + "):pass"), keyword="def", attributes={}),
    "block-tag": lambda ln, py: mk(PT.BlockTag, ln, body_decl=Code("a=" + py), keyword="block", attributes={}),
    "call": lambda ln, py: mk(PT.CallTag, ln, code=Code("d(" + py + ")"), keyword="call", attributes={}),
    "page": lambda ln, py: mk(PT.PageTag, ln, body_decl=Code("a=" + py), keyword="page", attributes={}),
    "ns-call": lambda ln, py: mk(PT.CallNamespaceTag, ln, expression="ns.d(a=" + py + ")", keyword="ns:d", attributes={}),
}
# python text variants: (text, 1-based line of the call inside it)
PYS = [("_('MSG')", 1), ("\n_('MSG')", 2), ("\n\n  _('MSG')", 3), ("x,\n _('MSG')", 2)]


def babel_stub(record):
    """Babel's contract: lines of the buffer are numbered from 1; comments found inside the python are returned too"""
    def extract_python(fileobj, keywords, comment_tags, options):
        data = fileobj.read()
        text = data.decode("utf-8") if isinstance(data, bytes) else data
        record.append(text)
        out = []
        for i, ln in enumerate(text.split("\n"), 1):
            if "_('MSG" in ln:
                out.append((i, "_", ln.split("_('")[1].split("')")[0], []))
        return out
    return extract_python


def lingua_stub(record):
    """Lingua's contract: Message.location = (filename, firstline + 1-based line in the buffer)"""
    def python_extractor(filename, options, fileobj, lineno=0):
        text = fileobj.getvalue()
        record.append(text)
        out = []
        for i, ln in enumerate(text.split("\n"), 1):
            if "_('MSG" in ln:
                out.append(types.SimpleNamespace(msgctxt=None, msgid=ln.split("_('")[1].split("')")[0], msgid_plural=None, flags=[], comment="",
                                                 tcomment="", location=(filename, lineno + i)))
        return out
    return python_extractor


def h_lines(which):
    def h(p):
        kind = list(KINDS)[p.choose(len(KINDS), "kind")]
        py, j = PYS[p.choose(len(PYS), "python")]
        if kind.startswith("control") and "\n" in py:
            raise core.Abort("control lines are single-line")
        ln = values.new_int("node_line", 1, None)
        # translator comment block: tagged comment of k lines at lc, optional untagged continuation line, optionally an
        # unrelated message-free expression in between
        has_c = bool(p.choose(2, "tagged_comment"))
        k = 1 + p.choose(2, "comment_lines")
        lc = values.new_int("comment_line", 1, None)
        between = bool(p.choose(2, "expression_between")) if has_c else False
        cont = bool(p.choose(2, "untagged_continuation")) if has_c else False
        lb = values.new_int("between_line", 1, None)
        nodes = []
        last_comment = None
        if has_c:
            nodes.append(mk(PT.Comment, lc, text="TRANSLATORS: c1" + ("\nmore" if k == 2 else "")))
            last_comment = lc.e + (k - 1)
            if between:
                p.assume(z3.And(lb.e > last_comment, lb.e < ln.e))
                nodes.append(mk(PT.Text, lb, content="  \n"))
                nodes.append(mk(PT.Expression, lb, code=Code("nomsg"), text="nomsg", escapes="", escapes_code=Code("")))
                if cont:
                    l2 = values.new_int("second_comment_line", 1, None)
                    p.assume(z3.And(l2.e > lb.e, l2.e < ln.e))
                    nodes.append(mk(PT.Comment, l2, text="an ordinary comment"))
            elif cont:
                nodes.append(mk(PT.Comment, SymInt(last_comment + 1), text="continued"))
                last_comment = last_comment + 1
            p.assume(last_comment < ln.e)
            nodes.append(mk(PT.Text, SymInt(last_comment), content="\n"))
        node = KINDS[kind](ln, py)
        nodes.append(node)
        # a second construct with a message right after: it must not inherit the comments
        l3 = values.new_int("next_line", 1, None)
        p.assume(l3.e > ln.e + 3)
        nodes.append(mk(PT.Expression, l3, code=Code("_('MSG2')"), text="_('MSG2')", escapes="", escapes_code=Code("")))
        # the same sequence may sit inside a def / call with content: child nodes are extracted recursively
        nesting = ["top-level", "inside-def", "inside-call", "inside-inline-namespace"][p.choose(4, "nesting")]
        if nesting != "top-level":
            ld = values.new_int("outer_line", 1, None)
            first = nodes[0].lineno
            p.assume(ld.e < (first.e if isinstance(first, SymInt) else first))
            if nesting == "inside-def":
                outer = mk(PT.DefTag, ld, function_decl=Code("def outer():pass"), keyword="def", attributes={})
            elif nesting == "inside-call":
                outer = mk(PT.CallTag, ld, code=Code("outer()"), keyword="call", attributes={})
            else:
                # <%namespace name="x"> <%def name="inner()"> ... </%def> </%namespace>
                inner = mk(PT.DefTag, ld, function_decl=Code("def inner():pass"), keyword="def", attributes={})
                inner.nodes = nodes
                nodes = [inner]
                outer = mk(PT.NamespaceTag, ld, keyword="namespace", attributes={"name": "x"}, name="x")
            outer.nodes = nodes
            nodes = [outer]
        record = []
        if which == "babel":
            BP.extract_python = babel_stub(record)
            ex = BP.BabelMakoExtractor(["_"], ["TRANSLATORS:"], {})
            got = list(ex.extract_nodes(nodes))
            got = [(g[0], g[2], list(g[3])) for g in got]
        else:
            ex = LP.LinguaMakoExtractor({"comment-tags": "TRANSLATORS:"})
            ex.filename, ex.options = "t.mako", types.SimpleNamespace(keywords=[], domain=None, comment_tag=True)
            ex.python_extractor = lingua_stub(record)
            got = [(g.location[1], g.msgid, g.comment) for g in ex.extract_nodes(nodes)]
        return dict(kind=kind, py=py, j=j, ln=ln, lc=lc, k=k, has_c=has_c, between=between, cont=cont, last_comment=last_comment, l3=l3, got=got,
                    which=which, nesting=nesting)
    return h


def on_lines(p, r, exc, acc):
    if exc is not None:
        acc.candidate(kind="harness-exception", input=None, detail="%s: %s" % (type(exc).__name__, str(exc)[:200]))
        return
    acc.tags["asserted"] += 1
    m = p.witness()
    ev = lambda t, mod: mod.eval(t, model_completion=True).as_long() if not isinstance(t, int) else t
    desc = lambda mod: dict(extractor=r["which"], construct=r["kind"], python=r["py"], node_line=ev(r["ln"].e, mod), tagged_comment=r["has_c"],
                            comment_line=ev(r["lc"].e, mod) if r["has_c"] else None, comment_lines=r["k"], expression_between=r["between"], nesting=r["nesting"],
                            untagged_comment=r["cont"], last_comment_line=ev(r["last_comment"], mod) if r["has_c"] else None)
    got = r["got"]
    acc.vcs += 1
    msgs = [g for g in got if g[1] == "MSG"]
    if len(msgs) != 1:
        acc.candidate(kind="message-count", input=desc(m), detail="the construct's message was reported %d times" % len(msgs))
        return
    line = msgs[0][0]
    le = line.e if isinstance(line, SymInt) else line
    acc.vcs += 1
    st, mod = p.vc(le == r["ln"].e + (r["j"] - 1))
    if st == "fails":
        acc.candidate(kind="message-line", input=desc(mod), detail="reported line %s, the call is written on line %s" % (
            ev(le, mod), ev(r["ln"].e + (r["j"] - 1), mod)))
    # translator comments: attached iff a tagged block ends on the line before the construct and nothing intervenes
    acc.vcs += 1
    comments = msgs[0][2]
    has = bool(comments) and (comments != "" if isinstance(comments, str) else True)
    should = z3.BoolVal(False)
    if r["has_c"] and not r["between"]:
        should = r["last_comment"] == r["ln"].e - 1
    st, mod = p.vc(should == z3.BoolVal(has))
    if st == "fails":
        acc.candidate(kind="translator-comments", input=desc(mod), detail="comments %r" % (comments,))
    # the following construct never inherits them
    nxt = [g for g in got if g[1] == "MSG2"]
    acc.vcs += 1
    if len(nxt) != 1 or (nxt[0][2] not in ([], "", None)):
        acc.candidate(kind="comments-leak-to-next-construct", input=desc(m), detail="next construct reported as %r" % (nxt,))
    acc.sample(desc(m))


# ------------------------------------------------------------------ real extractors on a corpus: every marker once, at its line
def h_corpus(p):
    return dict(layout=p.choose(3, "leading_blank_lines"), which=["babel", "lingua"][p.choose(2, "extractor")])


def on_corpus(p, r, exc, acc):
    acc.tags["asserted"] += 1
    res = realproc.call("extract_corpus", r["which"], r["layout"])
    acc.replayed += 1
    if res is None:
        acc.counts["extractor not installed"] += 1
        return
    for marker, want, got in res:
        acc.vcs += 1
        if got != [want]:
            acc.candidate(kind="marker-extraction", input=dict(extractor=r["which"], marker=marker, leading_blank_lines=r["layout"]),
                          detail="written on line %s, reported at %r" % (want, got))
    acc.sample(dict(extractor=r["which"], layout=r["layout"], markers=len(res)))
    if r["which"] == "babel" and r["layout"] == 0:
        # a template in another encoding than the extractor's default, declared by its magic comment (the Lingua plugin opens
        # files in text mode itself, before Mako sees them: not asserted)
        from props.realops import ENCODED_VARIANTS
        for variant in ENCODED_VARIANTS:
            enc = realproc.call("extract_encoded", "babel", variant)
            acc.vcs += 1
            if enc is not None and list(enc[0]) != list(enc[1]):
                acc.candidate(kind="message-encoding", input=dict(extractor="babel", encoded=variant),
                              detail="extracted %r, the template says %r" % (enc[0], enc[1]))


def make_replay(c):
    i = c["input"] or {}
    body = """
sys.path.insert(0, "/verif")
CASE = __CASE__
KIND = __KIND__
from props.realops import extract_corpus, extract_template
bad = None
print("case:", CASE)
if "encoded" in CASE:
    from props.realops import extract_encoded
    got, want = extract_encoded(CASE["extractor"], CASE["encoded"] if isinstance(CASE["encoded"], str) else "comment-vs-option")
    print("extracted:", got, " written in the template:", want)
    if list(got) != list(want): bad = "messages of a template whose encoding is named by its magic comment / the extractor's options are not extracted as written"
elif "marker" in CASE:
    for marker, want, got in extract_corpus(CASE["extractor"], CASE["leading_blank_lines"]):
        if marker == CASE["marker"]:
            print("marker", marker, "written on line", want, "reported at", got)
            if got != [want]: bad = "message %r is reported at %r, it is written on line %s" % (marker, got, want)
else:
    # realise the scenario as a template: comment block, optional message-free expression, the construct, a following message
    ln = CASE["node_line"]
    py = CASE["python"]
    forms = {"expression": "${%s}", "block": "<%%%s%%>", "control-if": "%% if %s:\\n%% endif", "control-elif": "%% if x:\\n%% elif %s:\\n%% endif",
             "control-for": "%% for x in %s:\\n%% endfor", "def": '<%%def name="d(a=%s)"></%%def>', "block-tag": '<%%block args="a=%s"></%%block>',
             "call": '<%%call expr="d(%s)"></%%call>', "page": '<%%page args="a=%s"/>', "ns-call": '<%%ns:d a="${%s}"></%%ns:d>'}
    lines = {}
    if CASE["tagged_comment"]:
        lines[CASE["comment_line"]] = "## TRANSLATORS: c1"
        if CASE["comment_lines"] == 2: lines[CASE["comment_line"] + 1] = "## more"
    text_node = forms[CASE["construct"]] % py.replace("MSG", "MSG")
    start = ln - (1 if CASE["construct"] == "control-elif" else 0)
    for k, part in enumerate(text_node.split("\\n")): lines[start + k] = lines.get(start + k, "") + part
    if CASE.get("expression_between"):
        mid = CASE["last_comment_line"] + 1
        if mid < start: lines[mid] = "${nomsg}"
    if CASE.get("untagged_comment"):
        lines[ln - 1 if CASE.get("expression_between") else CASE["last_comment_line"]] = "## continued" if not CASE.get("expression_between") else "## an ordinary comment"
    last = max(lines)
    lines[last + 5] = "${_('MSG2')}"
    tmpl = "\\n".join(lines.get(i, "") for i in range(1, last + 6)) + "\\n"
    if CASE.get("nesting") == "inside-inline-namespace":
        # the same lines inside <%namespace name="x"><%def name="inner()"> ... </%def></%namespace> (tags share lines with their neighbours)
        tmpl = '<%namespace name="x"><%def name="inner()">' + tmpl + '</%def></%namespace>\\n'
    print(tmpl)
    res = extract_template(CASE["extractor"], tmpl)
    print("extracted:", res)
    want_line = [i for i, l in enumerate(tmpl.split("\\n"), 1) if "_('MSG')" in l]
    got = [r for r in res if r[1] == "MSG"]
    if len(got) != 1: bad = "message extracted %d times" % len(got)
    elif want_line and got[0][0] != want_line[0]: bad = "reported line %s, written on line %s" % (got[0][0], want_line[0])
    elif KIND in ("translator-comments", "comments-leak-to-next-construct"):
        nxt = [r for r in res if r[1] == "MSG2"]
        if nxt and nxt[0][2]: bad = "a later construct inherited the translator comments: %r" % (nxt[0][2],)
        tagged_adjacent = CASE["tagged_comment"] and not CASE.get("expression_between") and CASE["last_comment_line"] == start - 1
        if bool(got[0][2]) != bool(tagged_adjacent): bad = bad or "translator comments %r, expected them %s" % (got[0][2], "attached" if tagged_adjacent else "absent")
print("VIOLATED: " + bad if bad else "HOLDS")
sys.exit(1 if bad else 0)
""".replace("__CASE__", repr(i)).replace("__KIND__", repr(c["kind"]))
    return (c["kind"], body, repr(i))


def classify(c):
    i = c.get("input") or {}
    if c["kind"] == "marker-extraction":
        mk_ = i.get("marker", "")
        if mk_ == "filter-list-after-pipe-newline":
            return "C20-filter-list-after-pipe-newline-line"
        if mk_.startswith("multiline-tag"):
            return "C20-multiline-tag-attribute-line"
        if mk_ in ("except-clause",) and i.get("extractor") == "lingua":
            return "C20-lingua-except-skipped"
    return None


def run(check, tier):
    setup()
    check.encode(*kernel())
    check.assume(
        "line arithmetic: parse-tree nodes of every Python-bearing kind are built directly with SYMBOLIC line numbers (z3 Ints) for the construct, "
        "the translator comment block, an optional message-free expression in between and a following construct; the third-party tokenizers are "
        "replaced by stubs that follow their contracts on the concrete buffer they are handed (Babel: 1-based line of the buffer; Lingua: "
        "firstline + 1-based line) - the contracts are checked against the installed packages in the corpus harness",
        "corpus: the real lexer + real Babel / Lingua run on a template with one marker call in every Python-bearing part (expression text and "
        "filter list, control lines incl. elif/except, <% %> and <%! %> blocks, def / block / page signatures, <%call> and <%ns:def> arguments, "
        "multi-line tags) plus decoys in text, <%text>, <%doc> and ## comments, under 0-2 leading blank lines")
    check.not_claimed("Babel's and Lingua's own tokenisation", "message encodings")
    jobs = [("C20-babel", h_lines("babel"), on_lines, "Babel line arithmetic and translator comments with symbolic line numbers", dict(kinds=list(KINDS)), ("asserted",))]
    if LP is not None:
        jobs.append(("C20-lingua", h_lines("lingua"), on_lines, "Lingua line arithmetic with symbolic line numbers", dict(kinds=list(KINDS)), ("asserted",)))
    jobs.append(("C20-corpus", h_corpus, on_corpus, "real Babel / Lingua on the marker corpus (concrete)", dict(layouts=3), ("asserted",)))
    for j in jobs:
        driver.register(j[0], j[1], j[2])
    cands = []
    for name, _h, _o, title, bounds, req in jobs:
        st, acc = driver.explore(name, time_limit=900)
        check.section(title, st, acc, bounds, tags_required=req)
        cands.extend(acc.candidates)
    check.confirm(cands, make_replay, classify, max_confirm=30)
    driver.close_pool()
    realproc.shutdown()
