"""runs CrossHair (second symbolic engine) on props/xh/kernels.py; returns {function: verdict}"""
import os
import re
import subprocess
import sys

HERE = os.path.dirname(os.path.abspath(__file__))


def run(functions, timeout=20):
    exe = os.path.join(os.path.dirname(sys.executable), "crosshair")
    if not os.path.exists(exe):
        return {"error": "crosshair-tool is not installed in the check's venv"}
    path = os.path.join(HERE, "xh", "kernels.py")
    src = open(path).read().split("\n")
    env = dict(os.environ)
    out = {}
    for fn in functions:
        line = next(i for i, l in enumerate(src, 1) if l.startswith("def %s(" % fn)) + 1
        try:
            r = subprocess.run([exe, "check", "--report_all", "--per_condition_timeout", str(timeout), "%s:%d" % (path, line)],
                               capture_output=True, text=True, timeout=timeout * 6 + 60, env=env)
            txt = (r.stdout + r.stderr).strip()
        except subprocess.TimeoutExpired:
            txt = "timeout"
        if "Confirmed over all paths" in txt:
            out[fn] = "confirmed over all paths"
        elif "error:" in txt:
            out[fn] = "COUNTEREXAMPLE: " + txt[-300:]
        else:
            out[fn] = "not confirmed (inconclusive): " + txt[-120:]
    return out
