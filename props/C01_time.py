"""C01 time clause: bounded search for exponentially ambiguous regex loops (filled in below)."""


def run(check, tier, cands):
    return
