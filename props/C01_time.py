"""C01 time clause: bounded solver search for exponentially ambiguous loops in the live lexer regexes.

For every unbounded repeat node of every regex the lexer can apply, a symbolic string w of length 1..p is matched against
the loop BODY in all possible ways; if on some feasible path [0, |w|] splits into body matches in two different ways, the
loop has two accepting decompositions of w (=> exponentially many of w^n => exponential backtracking once the overall
match fails).  `unsat` for all loops = no exponentially ambiguous loop with a pump of <= p characters."""
import re as _re
import re._parser as _parser
import re._constants as C
import time

from symx import core, values, driver, symre
from symx.values import SymStr, sym_string
from . import common

PATTERNS = None
CALLERS = {}       # (pattern, flags) -> name of the mako function that applies it
# how a subject string reaches the pattern when it is not the template itself
EMBED = {"__init__": "% {}\n", "_strip_comment": "% {}\n", "_parse_attributes": "<%include file=\"{}\"/>", "adjust_whitespace": "<%\n{}\n%>", "in_multi_line": "<%\n{}\n%>", "_in_multi_line": "<%\n{}\n%>"}


def live_patterns(L):
    """(source, flags) of every regex the lexer applies, taken from the lexer's own pattern cache after the real lexer has
    run over a corpus that reaches every matcher (so run-time formatted patterns and their flags are the real ones)"""
    import re as real_re
    import types
    from .C12_corpus import CORPUS
    from . import realops
    corpus = list(CORPUS.values()) + [realops._C20_CORPUS, "% if x: # c\n% elif y:\n% else:\n% endif\n% for a in b:\n% endfor\n% try:\n% except E:\n% endtry\n% with a as b:\n% endwith\n% while x:\n% endwhile\n", "<%text>x</%text>${a | h}\n%% x\n## c\n<%doc>d</%doc>\\\n</%a>", "<%a b='c'/>", "% if x:\n% endif\n",
                                      "<%include file=\"a${b}c${d}\"/>", "<%\n    x = 'a' # c\n    y = \"\"\"t\"\"\"\n%>"]
    # every regex any mako module applies while these templates are lexed (node constructors and re-margining included), with
    # the function that applied it: recorded in the real-code child (the mako of this process is instrumented and partly stubbed)
    from symx import realproc
    pats = dict(realproc.call("regex_census", corpus))
    CALLERS.update(pats)
    return sorted(pats)


def loops_of(tree, path=()):
    """(path, node) for every repeat node with an unbounded maximum"""
    out = []
    for i, (op, av) in enumerate(tree):
        here = path + (i,)
        if op in (C.MAX_REPEAT, C.MIN_REPEAT):
            lo, hi, sub = av
            if hi is C.MAXREPEAT:
                out.append((here, (op, av)))
            out.extend(loops_of(sub, here))
        elif op is C.SUBPATTERN:
            out.extend(loops_of(av[3], here))
        elif op is C.BRANCH:
            for k, alt in enumerate(av[1]):
                out.extend(loops_of(alt, here + (k,)))
        elif op in (C.ASSERT, C.ASSERT_NOT):
            out.extend(loops_of(av[1], here))
    return out


def h_loop(src, flags, lp, n):
    def h(p):
        pat = symre.Pattern(src, flags)
        node = lp
        lo, hi, body = node[1]
        body = list(body)
        w = sym_string(n, "w")
        done = lambda pos, g: iter([(pos, g)])
        ends = {}
        for j in range(n):
            es = set()
            for e, _g in symre.m_seq(body, 0, w, j, {}, pat, done):
                if e > j:
                    es.add(e)
            ends[j] = es
        ways = [0] * (n + 1)
        ways[0] = 1
        for i in range(1, n + 1):
            ways[i] = sum(ways[j] for j in range(i) if i in ends[j])
        return dict(w=w, ways=ways[n], src=src, flags=flags)
    return h


def on_loop(p, r, exc, acc):
    if exc is not None:
        if isinstance(exc, NotImplementedError):
            acc.counts["regex feature not modelled: %s" % exc] += 1
            return
        acc.candidate(kind="ambiguity-harness-exception", input=None, detail="%s: %s" % (type(exc).__name__, str(exc)[:200]))
        return
    acc.tags["asserted"] += 1
    acc.vcs += 1
    if r["ways"] >= 2:
        w = r["w"].concretize(p.witness())
        acc.candidate(kind="exponentially-ambiguous-loop", input=dict(pattern=r["src"], flags=int(r["flags"]), pump=w), detail="%d decompositions of %r" % (r["ways"], w))


def pump_time(src, flags, pump):
    """try to make the REAL regex engine backtrack exponentially: prefix + pump*k + failing suffix"""
    pat = _re.compile(src, flags)
    def literals(tree):
        """the literal characters the pattern starts with (looking into leading groups); second value: went through everything"""
        out = ""
        for op, av in tree:
            if op is C.LITERAL:
                out += chr(av)
            elif op is C.SUBPATTERN:
                sub, whole = literals(av[3])
                out += sub
                if not whole:
                    return out, False
            else:
                return out, False
        return out, True
    try:
        lead = literals(_parser.parse(src, flags))[0]
    except Exception:
        lead = ""
    for prefix in (lead + "a", lead, lead + "a ", ""):
        for suffix in ("X", "\x00", "!", ""):
            times = growth_times(lambda s_: pat.match(s_), prefix, pump, suffix)
            if exponential(times):
                return dict(prefix=prefix, suffix=suffix, times=[round(x, 4) for x in times])
    return None


def growth_times(run, prefix, pump, suffix, embed="{}"):
    """running times for 2, 3, 4, ... repetitions of the pump, until one run takes more than 1.5 s (or 60 repetitions)"""
    times = []
    for k in range(2, 61):
        s_ = embed.replace("{}", prefix + pump * k + suffix)
        t = time.perf_counter()
        run(s_)
        times.append(time.perf_counter() - t)
        if times[-1] > 1.5:
            break
    return times


def exponential(times):
    """between the first run above 20 ms and the last one, every further repetition multiplies the time by more than 1.4 on
    average, over at least four measurements (a polynomial's step factor tends to 1)"""
    big = [(k, t) for k, t in enumerate(times) if t > 0.02]
    if len(big) < 4:
        return False
    (k0, t0), (k1, t1) = big[0], big[-1]
    return (t1 / t0) ** (1.0 / (k1 - k0)) > 1.4


def make_replay(c):
    i = c["input"]
    body = """
import re, time
from mako.lexer import Lexer
from mako import exceptions
CASE = __CASE__
print("pattern:", CASE["pattern"][:120].replace("\\\\n", " "))
print("pump:", repr(CASE["pump"]), "prefix:", repr(CASE.get("prefix")), "suffix:", repr(CASE.get("suffix")))
if CASE.get("prefix") is None:
    print("no exponential growth measured on the real engine"); print("HOLDS"); sys.exit(0)
def run(s_):
    try: Lexer(s_).parse()
    except exceptions.MakoException: pass
times = []
for k in range(2, 61):
    s_ = CASE.get("embed", "{}").replace("{}", CASE["prefix"] + CASE["pump"] * k + CASE["suffix"])
    t = time.perf_counter(); run(s_); times.append(time.perf_counter() - t)
    if times[-1] > 1.5: break
print("lexing times for 2, 3, 4, .. repetitions of the pump:", [round(x, 4) for x in times])
big = [(k, t) for k, t in enumerate(times) if t > 0.02]
bad = None
if len(big) >= 4:
    per_step = (big[-1][1] / big[0][1]) ** (1.0 / (big[-1][0] - big[0][0]))
    print("average factor per extra repetition of the pump: %.2f" % per_step)
    if per_step > 1.4: bad = "lexing time grows exponentially with the input length (x%.1f per repetition)" % per_step
print("VIOLATED: " + bad if bad else "HOLDS")
sys.exit(1 if bad else 0)
""".replace("__CASE__", repr(i))
    return (c["kind"], body, (i["pattern"], i.get("prefix"), i.get("suffix")))


def classify(c):
    i = c.get("input") or {}
    if c["kind"] == "exponentially-ambiguous-loop" and "# opening tag" in i.get("pattern", ""):
        return "C01-tag-attribute-exponential"
    return None


def run(check, tier, cands_out):
    from . import C01
    pats = live_patterns(C01.L)
    P = {"quick": 3, "thorough": 5}[tier]
    jobs = []
    nloops = 0
    for src, flags in pats:
        try:
            tree = _parser.parse(src, flags)
        except Exception:
            continue
        for path_, node in loops_of(tree):
            nloops += 1
            for n in range(1, P + 1):
                jobs.append(("C01-amb-%d-%d" % (nloops, n), h_loop(src, flags, node, n), on_loop, src, flags, n))
    for j in jobs:
        driver.register(j[0], j[1], j[2])
    total = dict(paths=0, forks2=0, checks=0, solver_s=0.0, aborted=0, inconclusive=0, cpu_s=0.0, wall_s=0.0, exhausted=True)
    acc_all = driver.Acc()
    for name, _h, _o, src, flags, n in jobs:
        st, acc = driver.explore(name, time_limit=600, workers=1 if n <= 3 else None)
        for k in ("paths", "forks2", "checks", "solver_s", "aborted", "inconclusive", "cpu_s", "wall_s"):
            total[k] += st[k]
        total["exhausted"] = total["exhausted"] and st["exhausted"]
        acc_all.merge(acc)
        acc_all.candidates = acc_all.candidates
    # one candidate per pattern is enough; try to realise it on the real engine
    seen = set()
    mine = []
    for c in acc_all.candidates:
        if c["kind"] != "exponentially-ambiguous-loop" or c["input"]["pattern"] in seen:
            continue
        seen.add(c["input"]["pattern"])
        pt = pump_time(c["input"]["pattern"], c["input"]["flags"], c["input"]["pump"])
        c["input"].update(pt or {"prefix": None, "suffix": None})
        c["input"]["embed"] = EMBED.get(CALLERS.get((c["input"]["pattern"], c["input"]["flags"])), "{}")
        mine.append(c)
    acc_all.candidates = []
    acc_all.sample(dict(patterns=len(pats), unbounded_loops=nloops, pump_bound=P, ambiguous=[c["input"]["pattern"][:60] for c in mine]))
    check.section("ambiguity search over %d unbounded loops of %d live lexer patterns, pump <= %d" % (nloops, len(pats), P), total, acc_all,
                  dict(patterns=len(pats), loops=nloops, pump=P), tags_required=("asserted",))
    check.confirm(mine, make_replay, classify, max_confirm=10)
