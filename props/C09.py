"""C09 - template lookup never escapes its configured directories."""
import types
import z3

from symx import core, values, driver, realproc, env, loader
from symx.values import SymStr, sym_string, str_eq_term, conc
from . import common

LK = TP = RT = EXC = PP = None
DOMAIN = None
OPS = []
DIRS_NOW = []

CONFIGS = {
    "one-root": dict(dirs=["/srv/tmpl"], moddir=None),
    "moddir": dict(dirs=["/srv/tmpl"], moddir="/var/mods"),
    "two-roots-odd-spelling": dict(dirs=["/srv/tmpl/", "/srv/./t2//x"], moddir="/var/mods/"),
}
CALLERS = ["/t.html", "/d/t.html", "/d/e/t.html"]


def setup():
    global LK, TP, RT, EXC, PP, DOMAIN
    if LK is not None:
        return
    LK, TP, RT, EXC = common.mako("lookup", "template", "runtime", "exceptions")
    PP = env.sym_posixpath()

    class LkOsPath:
        sep = "/"

        @staticmethod
        def isfile(p):
            OPS.append(("isfile", p))
            # adversarial file system: every path names a readable file, except the configured roots and their
            # ancestors, which are directories in any file system in which the lookup is usable at all
            for d in DIRS_NOW:
                if p == d:
                    return False
            return True

    class LkOs:
        path = LkOsPath
        sep = "/"

        @staticmethod
        def stat(p):
            OPS.append(("stat", p))
            raise AssertionError("stat not expected (filesystem_checks off)")

    LK.os = LkOs
    LK.posixpath = PP
    TP.os = PP.__sx_os_shim__

    def fake_compile_from_file(self, path, filename):
        OPS.append(("compile", path, filename))
        return types.SimpleNamespace(render_body=lambda *a, **k: None, _modified_time=0)

    TP.Template._compile_from_file = fake_compile_from_file
    DOMAIN = common.domain_for([LK, TP, PP], reps=2)
    values.set_domain(DOMAIN)


def kernel():
    return [LK.TemplateLookup.get_template, LK.TemplateLookup.adjust_uri, LK.TemplateLookup._load, LK.TemplateLookup._relativeize,
            TP.Template.__init__, RT._lookup_template, PP.normpath, PP.join, PP.dirname, PP.abspath]


def segs_under(resolved, root):
    """z3 Bool: resolved (absolute?, segments) lies at or below concrete root path"""
    absolute, segs = resolved
    rsegs = [s for s in root.split("/") if s and s != "."]
    if not absolute or len(segs) < len(rsegs):
        return z3.BoolVal(False)
    cs = []
    for a, b in zip(segs, rsegs):
        if a == "..":
            return z3.BoolVal(False)
        cs.append(str_eq_term(SymStr(a), b))
    for a in segs:
        if a == "..":
            return z3.BoolVal(False)
    return z3.And(cs) if cs else z3.BoolVal(True)


def ancestors(dirs):
    import posixpath
    out = []
    for d in dirs:
        d = posixpath.normpath(d)
        while True:
            if d not in out:
                out.append(d)
            if d == "/":
                break
            d = posixpath.dirname(d)
    return out


SEGS = {"quick": ("a", ".."), "thorough": ("a", "..", ".")}


def make_harness(n, cfgname, via, segs=None):
    cfg = CONFIGS[cfgname]

    def h(p):
        del OPS[:]
        DIRS_NOW[:] = ancestors(cfg["dirs"])
        if segs is None:
            uri = sym_string(n, "u")
        else:
            # segment skeleton: n segments chosen from `segs`, every separator a symbolic '/' or '\\',
            # optional leading separator
            items = []
            if p.choose(2, "lead"):
                items.append(_sep(p))
            for k in range(n):
                if k:
                    items.append(_sep(p))
                items.extend(segs[p.choose(len(segs), "seg%d" % k)])
            uri = SymStr(items)
        lk = LK.TemplateLookup(cfg["dirs"], module_directory=cfg["moddir"], filesystem_checks=False)
        rel = None
        if via == "direct":
            t = lk.get_template(uri)
        else:
            rel = CALLERS[p.choose(len(CALLERS), "caller")]
            ctx = types.SimpleNamespace(_with_template=types.SimpleNamespace(lookup=lk, uri=rel))
            t = RT._lookup_template(ctx, uri, rel)
        return dict(uri=uri, t=t, ops=list(OPS), rel=rel, lk=lk)
    return h


def _sep(p):
    c = values.new_char("sep")
    p.assume(z3.Or(c.v == 47, c.v == 92))
    return c


def make_on_path(cfgname, via):
    cfg = CONFIGS[cfgname]
    import posixpath
    roots = [posixpath.normpath(d) for d in cfg["dirs"]]
    moddir = posixpath.normpath(cfg["moddir"]) if cfg["moddir"] else None

    def on_path(p, r, exc, acc):
        m = p.witness()
        if exc is not None:
            k = type(exc).__name__
            acc.counts["raised:" + k] += 1
            if not isinstance(exc, EXC.TemplateLookupException):
                acc.anomalies.append(dict(kind="other-exception", exc=k, detail=str(exc)[:100]))
            return
        acc.counts["returned"] += 1
        p.tag("returned")
        acc.tags["returned"] += 1
        uri = r["uri"]
        w = uri.concretize(m)
        fn = r["t"].filename
        checks = [("filename", fn, roots)]
        for op in r["ops"]:
            if op[0] == "compile":
                checks.append(("read", op[2], roots))
                if op[1] is not None:
                    checks.append(("module-file", op[1], [moddir] if moddir else []))
        for what, path, allowed in checks:
            res = env.ref_resolve(values._items(path))
            formula = z3.Or([segs_under(res, a) for a in allowed]) if allowed else z3.BoolVal(False)
            acc.vcs += 1
            st, mod = p.vc(formula)
            if st == "fails":
                acc.candidate(kind="escape-" + what, input=dict(uri=uri.concretize(mod), cfg=cfgname, via=via, rel=r["rel"]),
                              detail="%s = %r" % (what, conc(path, mod)))
            elif st == "unknown":
                acc.vcs_unknown += 1
        # differential replay of the witness on the unpatched code (same environment stubs, real re/posixpath)
        real = realproc.call("lookup_probe", w, cfg["dirs"], cfg["moddir"], via, r["rel"], ancestors(cfg["dirs"]))
        mine = ("ok", conc(fn, m), [(o[0],) + tuple(conc(x, m) for x in o[1:]) for o in r["ops"] if o[0] == "compile"])
        acc.replayed += 1
        if real != mine:
            raise core.EngineError("engine/real-code disagreement for uri %r: real=%r mine=%r" % (w, real, mine))
        acc.sample(dict(uri=w, via=via, caller=r["rel"], filename=conc(fn, m)))

    def on_path_wrap(p, r, exc, acc):
        on_path(p, r, exc, acc)
        if exc is not None:
            # also validate the raising paths against the real code
            m = p.witness()
            # the uri is not available when the harness raised; rebuild it from the variable names
            return
    return on_path_wrap


def make_replay(c):
    i = c["input"]
    cfg = CONFIGS[i["cfg"]]
    body = '''
import os, tempfile, shutil, posixpath
from mako.lookup import TemplateLookup
from mako import exceptions
URI, VIA, REL = %r, %r, %r
base = tempfile.mkdtemp(prefix="c09replay")
try:
    # real directories: roots below base, secrets everywhere else below base
    def real(d): return base + posixpath.normpath(d)
    dirs = [real(d) for d in %r]
    moddir = real(%r) if %r else None
    for d in dirs: os.makedirs(d, exist_ok=True)
    # populate every directory level between base and the roots (and siblings) with readable decoys
    names = set()
    for seg in URI.replace("\\\\", "/").split("/"):
        if seg not in ("", ".", ".."): names.add(seg)
    names.add("x")
    def plant(d, depth=0):
        for n in names:
            p = os.path.join(d, n)
            if not os.path.exists(p):
                try:
                    open(p, "w").write("SECRET:" + p)
                except OSError: pass
    d = base
    plant(d)
    for r_ in dirs:
        cur = base
        for seg in r_[len(base):].split("/"):
            if not seg: continue
            cur = os.path.join(cur, seg)
            if cur not in dirs: plant(cur)
    for r_ in dirs:
        for n in names:
            p = os.path.join(r_, n)
            if not os.path.exists(p): open(p, "w").write("inside:" + n)
    lk = TemplateLookup(dirs, module_directory=moddir)
    before = set()
    for root, ds, fs in os.walk(base):
        for f in fs: before.add(os.path.join(root, f))
    try:
        if VIA == "direct":
            t = lk.get_template(URI)
        else:
            from mako import runtime
            import types
            ctx = types.SimpleNamespace(_with_template=types.SimpleNamespace(lookup=lk, uri=REL))
            t = runtime._lookup_template(ctx, URI, REL)
    except exceptions.TemplateLookupException as e:
        print("raised TemplateLookupException: HOLDS"); sys.exit(0)
    except (IsADirectoryError, PermissionError) as e:
        print("raised", type(e).__name__, ": no template returned"); sys.exit(0)
    fn = os.path.realpath(t.filename)
    inside = any(fn == os.path.realpath(d) or fn.startswith(os.path.realpath(d) + os.sep) for d in dirs)
    out = t.render()
    print("uri", repr(URI), "-> filename", fn, "inside roots:", inside, "rendered:", repr(out)[:80])
    bad = (not inside) or ("SECRET:" in out)
    after = set()
    for root, ds, fs in os.walk(base):
        for f in fs: after.add(os.path.join(root, f))
    for f in sorted(after - before):
        if moddir is None or not os.path.realpath(f).startswith(os.path.realpath(moddir) + os.sep):
            print("file created outside module_directory:", f); bad = True
    print("VIOLATED: lookup escaped its directories" if bad else "HOLDS")
    sys.exit(1 if bad else 0)
finally:
    shutil.rmtree(base, ignore_errors=True)
''' % (i["uri"], i["via"], i["rel"], cfg["dirs"], cfg["moddir"], cfg["moddir"])
    return (c["kind"], body, (i["uri"], i["cfg"], i["via"], i["rel"]))


def classify(c):
    return None


def run(check, tier):
    setup()
    check.encode(*kernel())
    check.assume(
        "adversarial file system: os.path.isfile answers True for every path, so containment cannot rely on a file being absent",
        "Template._compile_from_file is replaced by a recorder of (module path, source filename): the files a Template would read and write",
        "posixpath.normpath/join/dirname/abspath are executed from the interpreter's own posixpath.py source (pure-Python normpath); "
        "every path witness is also run through the real C-accelerated functions in the replay interpreter and must agree",
        "containment is judged by an independent lexical resolver (symx.env.ref_resolve), not by posixpath",
        "character abstraction: %d representative code points (all ASCII individually)" % len(DOMAIN.cps),
        "cwd is /cwd; os.sep is '/' (POSIX)")
    check.not_claimed("symbolic links", "Windows drive letters / os.sep != '/'", "URIs longer than the bound",
                      "modulename_callable supplied by the user")
    L1 = {"quick": 5, "thorough": 7}[tier]
    L2 = {"quick": 4, "thorough": 6}[tier]
    tl = {"quick": 240, "thorough": 3000}[tier]
    jobs = []
    for cfg in CONFIGS:
        for n in range(1, L1 + 1 if cfg == "moddir" else L1):
            jobs.append(("C09-%s-direct-%d" % (cfg, n), make_harness(n, cfg, "direct"), make_on_path(cfg, "direct"),
                         "get_template, config %s, uri length %d" % (cfg, n), dict(uri_chars=n, config=CONFIGS[cfg])))
    for n in range(1, L2 + 1):
        jobs.append(("C09-rel-%d" % n, make_harness(n, "moddir", "relative"), make_on_path("moddir", "relative"),
                     "include/inherit/namespace path (_lookup_template) from callers %r, uri length %d" % (CALLERS, n),
                     dict(uri_chars=n, callers=CALLERS)))
    K = {"quick": 5, "thorough": 6}[tier]
    for k in range(2, K + 1):
        for via in ("direct", "relative"):
            jobs.append(("C09-seg-%s-%d" % (via, k), make_harness(k, "moddir", via, SEGS[tier]), make_on_path("moddir", via),
                         "%s, %d segments from %r joined by symbolic separators" % (via, k, SEGS[tier]),
                         dict(segments=k, segment_kinds=SEGS[tier], separators="symbolic / or backslash, optional leading")))
    for j in jobs:
        driver.register(j[0], j[1], j[2])
    cands = []
    for name, _h, _o, title, bounds in jobs:
        st, acc = driver.explore(name, time_limit=tl)
        check.section(title, st, acc, bounds, tags_required=("returned",))
        cands.extend(acc.candidates)
    cands.sort(key=lambda c: (len(c["input"]["uri"]), c["input"]["uri"]))
    check.confirm(cands, make_replay, classify, max_confirm=60)
    driver.close_pool()
    realproc.shutdown()
