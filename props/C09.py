"""C09 - template lookup never escapes its configured directories."""
import types
import z3

from symx import core, values, driver, realproc, env, loader
from symx.values import SymStr, sym_string, str_eq_term, conc
from . import common

LK = TP = RT = EXC = PP = None
DOMAIN = None
OPS = []
DIRS_NOW = []

CONFIGS = {
    "one-root": dict(dirs=["/srv/tmpl"], moddir=None),
    "moddir": dict(dirs=["/srv/tmpl"], moddir="/var/mods"),
    "two-roots-odd-spelling": dict(dirs=["/srv/tmpl/", "/srv/./t2//x"], moddir="/var/mods/"),
}
CALLERS = ["/t.html", "/d/t.html", "/d/e/t.html"]


def setup():
    global LK, TP, RT, EXC, PP, DOMAIN
    if LK is not None:
        return
    LK, TP, RT, EXC = common.mako("lookup", "template", "runtime", "exceptions")
    PP = env.sym_posixpath()

    class LkOsPath:
        sep = "/"

        @staticmethod
        def isfile(p):
            OPS.append(("isfile", p))
            # adversarial file system: every path names a readable file, except the configured roots and their
            # ancestors, which are directories in any file system in which the lookup is usable at all
            for d in DIRS_NOW:
                if p == d:
                    return False
            return True

    class LkOs:
        path = LkOsPath
        sep = "/"

        @staticmethod
        def stat(p):
            OPS.append(("stat", p))
            raise AssertionError("stat not expected (filesystem_checks off)")

    LK.os = LkOs
    LK.posixpath = PP
    TP.os = PP.__sx_os_shim__

    def fake_compile_from_file(self, path, filename):
        OPS.append(("compile", path, filename))
        if path is not None:
            # the real module writer runs on the (symbolic) module path with recording stubs for its file-system calls
            TP._compile_module_file(self, "text", filename, path, None)
        return types.SimpleNamespace(render_body=lambda *a, **k: None, _modified_time=0)

    def rec_mkstemp(suffix=None, prefix=None, dir=None, text=False):
        d = dir if dir is not None else "/tmp"          # tempfile's default: the system temporary directory
        name = d + "/" + (prefix or "tmp") + "k3x9" + (suffix or "")
        OPS.append(("create", name))
        return 7, name

    shim = TP.os

    class TemplateOs:
        path = shim.path
        write = staticmethod(lambda fd, data: len(data))
        close = staticmethod(lambda fd: None)

        def __getattr__(self, k):
            return getattr(shim, k)

    TP.os = TemplateOs()
    TP.tempfile = types.SimpleNamespace(mkstemp=rec_mkstemp)
    TP.shutil = types.SimpleNamespace(move=lambda a, b: OPS.append(("move", a, b)))
    TP._compile = lambda template, text, filename, generate_magic_comment: (b"module source", types.SimpleNamespace(encoding="utf-8"))

    TP.Template._compile_from_file = fake_compile_from_file
    DOMAIN = common.domain_for([LK, TP, PP], reps=2)
    values.set_domain(DOMAIN)


def kernel():
    return [LK.TemplateLookup.get_template, LK.TemplateLookup.adjust_uri, LK.TemplateLookup._load, LK.TemplateLookup._relativeize,
            TP.Template.__init__, RT._lookup_template, PP.normpath, PP.join, PP.dirname, PP.abspath]


def segs_under(resolved, root):
    """z3 Bool: resolved (absolute?, segments) lies at or below concrete root path"""
    absolute, segs = resolved
    rsegs = [s for s in root.split("/") if s and s != "."]
    if not absolute or len(segs) < len(rsegs):
        return z3.BoolVal(False)
    cs = []
    for a, b in zip(segs, rsegs):
        if a == "..":
            return z3.BoolVal(False)
        cs.append(str_eq_term(SymStr(a), b))
    for a in segs:
        if a == "..":
            return z3.BoolVal(False)
    return z3.And(cs) if cs else z3.BoolVal(True)


def ancestors(dirs):
    import posixpath
    out = []
    for d in dirs:
        d = posixpath.normpath(d)
        while True:
            if d not in out:
                out.append(d)
            if d == "/":
                break
            d = posixpath.dirname(d)
    return out


SEGS = {"quick": ("a", ".."), "thorough": ("a", "..", ".")}


def make_harness(n, cfgname, via, segs=None):
    cfg = CONFIGS[cfgname]

    def h(p):
        del OPS[:]
        DIRS_NOW[:] = ancestors(cfg["dirs"])
        if segs is None:
            uri = sym_string(n, "u")
        else:
            # segment skeleton: n segments chosen from `segs`, every separator a symbolic '/' or '\\',
            # optional leading separator
            items = []
            if p.choose(2, "lead"):
                items.append(_sep(p))
            for k in range(n):
                if k:
                    items.append(_sep(p))
                items.extend(segs[p.choose(len(segs), "seg%d" % k)])
            uri = SymStr(items)
        lk = LK.TemplateLookup(cfg["dirs"], module_directory=cfg["moddir"], filesystem_checks=False)
        rel = None
        if via == "has_template":
            return dict(uri=uri, has=lk.has_template(uri), ops=list(OPS), rel=None, lk=lk, t=None)
        if via == "direct":
            t = lk.get_template(uri)
        else:
            rel = CALLERS[p.choose(len(CALLERS), "caller")]
            ctx = types.SimpleNamespace(_with_template=types.SimpleNamespace(lookup=lk, uri=rel))
            t = RT._lookup_template(ctx, uri, rel)
        return dict(uri=uri, t=t, ops=list(OPS), rel=rel, lk=lk)
    return h


def _sep(p):
    c = values.new_char("sep")
    p.assume(z3.Or(c.v == 47, c.v == 92))
    return c


def make_on_path(cfgname, via):
    cfg = CONFIGS[cfgname]
    import posixpath
    roots = [posixpath.normpath(d) for d in cfg["dirs"]]
    moddir = posixpath.normpath(cfg["moddir"]) if cfg["moddir"] else None

    def on_path(p, r, exc, acc):
        m = p.witness()
        if exc is not None:
            k = type(exc).__name__
            acc.counts["raised:" + k] += 1
            if not isinstance(exc, EXC.TemplateLookupException):
                acc.anomalies.append(dict(kind="other-exception", exc=k, detail=str(exc)[:100]))
            return
        acc.counts["returned"] += 1
        p.tag("returned")
        acc.tags["returned"] += 1
        uri = r["uri"]
        w = uri.concretize(m)
        if via == "has_template":
            # (every path names a readable file here) True is only right when the URI, taken relative to some configured
            # directory, resolves inside that directory
            acc.counts["has_template %s" % r["has"]] += 1
            if r["has"] is True:
                items = values._items(uri)
                k = 0
                while k < len(items) and (values.ch_eq(items[k], "/") or values.ch_eq(items[k], "\\")):
                    k += 1
                rest = [("/" if values.ch_eq(c, "\\") else c) for c in items[k:]]
                alts = []
                for root in roots:
                    res = env.ref_resolve(list(root + "/") + rest)
                    alts.append(segs_under(res, root))
                acc.vcs += 1
                st, mod = p.vc(z3.Or(alts))
                if st == "fails":
                    acc.candidate(kind="escape-has_template", input=dict(uri=uri.concretize(mod), cfg=cfgname, via=via, rel=None),
                                  detail="has_template answered True for a URI that resolves outside the configured directories")
                elif st == "unknown":
                    acc.vcs_unknown += 1
            elif r["has"] is not False:
                acc.candidate(kind="escape-has_template", input=dict(uri=w, cfg=cfgname, via=via, rel=None), detail="has_template returned %r" % (r["has"],))
            real = realproc.call("has_template_probe", w, cfg["dirs"], cfg["moddir"], ancestors(cfg["dirs"]))
            acc.replayed += 1
            if real != r["has"]:
                raise core.EngineError("engine/real-code disagreement for has_template(%r): real=%r mine=%r" % (w, real, r["has"]))
            acc.sample(dict(uri=w, via=via, has_template=r["has"]))
            return
        fn = r["t"].filename
        checks = [("filename", fn, roots)]
        for op in r["ops"]:
            if op[0] == "compile":
                checks.append(("read", op[2], roots))
                if op[1] is not None:
                    checks.append(("module-file", op[1], [moddir] if moddir else []))
            elif op[0] == "create":
                checks.append(("created-file", op[1], [moddir] if moddir else []))
            elif op[0] == "move":
                checks.append(("moved-to", op[2], [moddir] if moddir else []))
        for what, path, allowed in checks:
            res = env.ref_resolve(values._items(path))
            formula = z3.Or([segs_under(res, a) for a in allowed]) if allowed else z3.BoolVal(False)
            acc.vcs += 1
            st, mod = p.vc(formula)
            if st == "fails":
                acc.candidate(kind="escape-" + what, input=dict(uri=uri.concretize(mod), cfg=cfgname, via=via, rel=r["rel"]),
                              detail="%s = %r" % (what, conc(path, mod)))
            elif st == "unknown":
                acc.vcs_unknown += 1
        # differential replay of the witness on the unpatched code (same environment stubs, real re/posixpath)
        real = realproc.call("lookup_probe", w, cfg["dirs"], cfg["moddir"], via, r["rel"], ancestors(cfg["dirs"]))
        mine = ("ok", conc(fn, m), [(o[0],) + tuple(conc(x, m) for x in o[1:]) for o in r["ops"] if o[0] == "compile"])
        acc.replayed += 1
        if real != mine:
            raise core.EngineError("engine/real-code disagreement for uri %r: real=%r mine=%r" % (w, real, mine))
        acc.sample(dict(uri=w, via=via, caller=r["rel"], filename=conc(fn, m)))

    def on_path_wrap(p, r, exc, acc):
        on_path(p, r, exc, acc)
        if exc is not None:
            # also validate the raising paths against the real code
            m = p.witness()
            # the uri is not available when the harness raised; rebuild it from the variable names
            return
    return on_path_wrap


# ------------------------------------------------------------------ two lookups in one process serving the same URI
def h_two(p):
    cfg = dict(order=[["A", "B"], ["B", "A"], ["A", "B", "A"], ["A", "A", "B", "B"]][p.choose(4, "request_order")],
               module_directory=["none", "own", "shared"][p.choose(3, "module_directory")],
               mtimes=["same", "A-newer", "B-newer"][p.choose(3, "source_mtimes")], age_modules=bool(p.choose(2, "module_files_aged")),
               fresh_lookup_per_request=bool(p.choose(2, "fresh_lookup_per_request")))
    return dict(cfg=cfg)


def on_two(p, r, exc, acc):
    if exc is not None:
        acc.candidate(kind="harness-exception", input=None, detail=repr(exc)[:200])
        return
    res = realproc.call("two_lookups", r["cfg"])
    acc.replayed += 1
    acc.tags["returned"] += 1
    acc.vcs += 1
    for name, got, want, inside in res:
        if got != want or not inside:
            acc.candidate(kind="escape-other-lookups-content", input=dict(two_lookups=r["cfg"]),
                          detail="lookup %s rendered %r, its own files give %r" % (name, got, want))
            break
    acc.sample(dict(r["cfg"], outputs=[x[1] for x in res]))


def make_replay(c):
    i = c["input"]
    if i and "two_lookups" in i:
        body_ = """
sys.path.insert(0, "/verif")
from props.realops import two_lookups
CASE = __CASE__
bad = None
for name, got, want, inside in two_lookups(CASE["two_lookups"]):
    print("lookup", name, "rendered", repr(got), "- its own files give", repr(want))
    if got != want or not inside: bad = "a lookup served content that does not come from its own directories"
print("VIOLATED: " + bad if bad else "HOLDS")
sys.exit(1 if bad else 0)
""".replace("__CASE__", repr(i))
        return (c["kind"], body_, repr(sorted(i["two_lookups"].items(), key=str)))
    cfg = CONFIGS[i["cfg"]]
    body = '''
import os, tempfile, shutil, posixpath
from mako.lookup import TemplateLookup
from mako import exceptions
URI, VIA, REL = %r, %r, %r
class _NoTemplate(Exception): pass
base = tempfile.mkdtemp(prefix="c09replay")
try:
    # real directories: roots below base, secrets everywhere else below base
    def real(d): return base + posixpath.normpath(d)
    dirs = [real(d) for d in %r]
    moddir = real(%r) if %r else None
    for d in dirs: os.makedirs(d, exist_ok=True)
    # populate every directory level between base and the roots (and siblings) with readable decoys
    names = set()
    for seg in URI.replace("\\\\", "/").split("/"):
        if seg not in ("", ".", ".."): names.add(seg)
    names.add("x")
    def plant(d, depth=0):
        for n in names:
            p = os.path.join(d, n)
            if not os.path.exists(p):
                try:
                    open(p, "w").write("SECRET:" + p.encode("utf-8", "replace").hex())
                except (OSError, ValueError): pass
    d = base
    plant(d)
    for r_ in dirs:
        cur = base
        for seg in r_[len(base):].split("/"):
            if not seg: continue
            cur = os.path.join(cur, seg)
            if cur not in dirs: plant(cur)
    for r_ in dirs:
        for n in names:
            p = os.path.join(r_, n)
            try:
                if not os.path.exists(p): open(p, "w").write("inside:" + n.encode("utf-8", "replace").hex())
            except (OSError, ValueError): pass
    lk = TemplateLookup(dirs, module_directory=moddir)
    import tempfile as _tf
    created = []
    _orig_mkstemp = _tf.mkstemp
    def _rec(*a, **k):
        r_ = _orig_mkstemp(*a, **k); created.append(r_[1]); return r_
    _tf.mkstemp = _rec
    before = set()
    for root, ds, fs in os.walk(base):
        for f in fs: before.add(os.path.join(root, f))
    if VIA == "has_template":
        # a decoy next to the configured directory, under the path the URI resolves to
        for d in dirs:
            target = posixpath.normpath(posixpath.join(d, URI.replace("\\\\", "/").lstrip("/")))
            inside_ = any(target == d or target.startswith(d.rstrip("/") + "/") for d in dirs)
            if not inside_:
                os.makedirs(posixpath.dirname(target), exist_ok=True)
                if not os.path.exists(target): open(target, "w").write("SECRET")
                ans = lk.has_template(URI)
                print("file outside the directories at", target, "-> has_template(%%r) =" %% URI, ans)
                if ans:
                    print("VIOLATED: has_template reveals a file outside the configured directories"); sys.exit(1)
        print("HOLDS"); sys.exit(0)
    try:
        if VIA == "direct":
            t = lk.get_template(URI)
        else:
            from mako import runtime
            import types
            ctx = types.SimpleNamespace(_with_template=types.SimpleNamespace(lookup=lk, uri=REL))
            t = runtime._lookup_template(ctx, URI, REL)
    except exceptions.TemplateLookupException as e:
        print("real files: raised TemplateLookupException"); raise _NoTemplate()
    except (IsADirectoryError, PermissionError, ValueError) as e:
        print("real files: raised", type(e).__name__, ": no template returned"); raise _NoTemplate()
    fn = os.path.realpath(t.filename)
    inside = any(fn == os.path.realpath(d) or fn.startswith(os.path.realpath(d) + os.sep) for d in dirs)
    out = t.render()
    print("uri", repr(URI), "-> filename", fn, "inside roots:", inside, "rendered:", repr(out)[:80])
    bad = (not inside) or ("SECRET:" in out)
    after = set(created)
    for root, ds, fs in os.walk(base):
        for f in fs: after.add(os.path.join(root, f))
    for f in sorted(after - before):
        if moddir is None or not os.path.realpath(f).startswith(os.path.realpath(moddir) + os.sep):
            print("file created outside module_directory:", f); bad = True
    if bad:
        print("VIOLATED: lookup escaped its directories"); sys.exit(1)
except _NoTemplate:
    pass
finally:
    shutil.rmtree(base, ignore_errors=True)
# second stage: the escape may point at an absolute path outside the scratch area (which only exists on a machine that has
# such a file): ask the real lookup which file it would read when every path names a readable file
sys.path.insert(0, "/verif")
from props.realops import lookup_probe
DIRS, MODDIR = %r, %r
def ancestors(dirs):
    out = []
    for d in dirs:
        d = posixpath.normpath(d)
        while True:
            if d not in out: out.append(d)
            if d == "/": break
            d = posixpath.dirname(d)
    return out
res = lookup_probe(URI, DIRS, MODDIR, VIA, REL, ancestors(DIRS))
print("with every path naming a readable file:", res)
bad = False
if res[0] == "ok":
    def under(path, roots):
        q = posixpath.normpath(path)
        return any(q == posixpath.normpath(r) or q.startswith(posixpath.normpath(r).rstrip("/") + "/") for r in roots)
    if not under(res[1], DIRS): bad = True; print("template file read:", res[1], "- outside", DIRS)
    for op in res[2]:
        if not under(op[2], DIRS): bad = True; print("source read:", op[2])
        if op[1] is not None and not (MODDIR and under(op[1], [MODDIR])): bad = True; print("module file written:", op[1])
print("VIOLATED: lookup escaped its directories" if bad else "HOLDS")
sys.exit(1 if bad else 0)
''' % (i["uri"], i["via"], i["rel"], cfg["dirs"], cfg["moddir"], cfg["moddir"], cfg["dirs"], cfg["moddir"])
    return (c["kind"], body, (i["uri"], i["cfg"], i["via"], i["rel"]))


def classify(c):
    i = c.get("input") or {}
    if (i.get("two_lookups") or {}).get("module_directory") == "shared":
        return "C09-shared-module-directory"
    return None


def run(check, tier):
    setup()
    check.encode(*kernel())
    check.assume(
        "adversarial file system: os.path.isfile answers True for every path, so containment cannot rely on a file being absent",
        "Template._compile_from_file is replaced by a recorder of (module path, source filename): the files a Template would read and write; "
        "for a module path the real _compile_module_file runs with recording stubs for tempfile.mkstemp / os.write / os.close / shutil.move "
        "(a mkstemp without dir= creates its file in /tmp, as tempfile does): every file it creates or moves into place must lie beneath module_directory",
        "posixpath.normpath/join/dirname/abspath are executed from the interpreter's own posixpath.py source (pure-Python normpath); "
        "every path witness is also run through the real C-accelerated functions in the replay interpreter and must agree",
        "containment is judged by an independent lexical resolver (symx.env.ref_resolve), not by posixpath",
        "character abstraction: %d representative code points (all ASCII individually)" % len(DOMAIN.cps),
        "cwd is /cwd; os.sep is '/' (POSIX)")
    check.not_claimed("symbolic links", "Windows drive letters / os.sep != '/'", "URIs longer than the bound",
                      "modulename_callable supplied by the user")
    L1 = {"quick": 5, "thorough": 7}[tier]
    L2 = {"quick": 4, "thorough": 6}[tier]
    tl = {"quick": 240, "thorough": 3000}[tier]
    jobs = []
    for cfg in CONFIGS:
        for n in range(1, L1 + 1 if cfg == "moddir" else L1):
            jobs.append(("C09-%s-direct-%d" % (cfg, n), make_harness(n, cfg, "direct"), make_on_path(cfg, "direct"),
                         "get_template, config %s, uri length %d" % (cfg, n), dict(uri_chars=n, config=CONFIGS[cfg])))
    for n in range(1, L2 + 1):
        jobs.append(("C09-rel-%d" % n, make_harness(n, "moddir", "relative"), make_on_path("moddir", "relative"),
                     "include/inherit/namespace path (_lookup_template) from callers %r, uri length %d" % (CALLERS, n),
                     dict(uri_chars=n, callers=CALLERS)))
    for n in range(1, {"quick": 4, "thorough": 6}[tier] + 1):
        jobs.append(("C09-has-%d" % n, make_harness(n, "one-root", "has_template"), make_on_path("one-root", "has_template"),
                     "has_template, uri length %d" % n, dict(uri_chars=n, config=CONFIGS["one-root"])))
    for k in range(2, {"quick": 3, "thorough": 4}[tier] + 1):
        jobs.append(("C09-has-seg-%d" % k, make_harness(k, "one-root", "has_template", ("a", "..", "tmplx")), make_on_path("one-root", "has_template"),
                     "has_template, %d segments from ('a', '..', 'tmplx' - a sibling whose name extends the root's) joined by symbolic separators" % k,
                     dict(segments=k, segment_kinds=("a", "..", "tmplx"))))
    jobs.append(("C09-two-lookups", h_two, on_two, "two lookups in one process with separate directories and module directories serving one URI",
                 dict(orders=4, module_directory=["none", "own"], mtimes=3)))
    K = {"quick": 5, "thorough": 6}[tier]
    for k in range(2, K + 1):
        for via in ("direct", "relative"):
            jobs.append(("C09-seg-%s-%d" % (via, k), make_harness(k, "moddir", via, SEGS[tier]), make_on_path("moddir", via),
                         "%s, %d segments from %r joined by symbolic separators" % (via, k, SEGS[tier]),
                         dict(segments=k, segment_kinds=SEGS[tier], separators="symbolic / or backslash, optional leading")))
    import os
    if os.environ.get("C09_ONLY"):          # development aid: run one part only
        jobs = [j for j in jobs if j[0].startswith(os.environ["C09_ONLY"])]
    for j in jobs:
        driver.register(j[0], j[1], j[2])
    cands = []
    for name, _h, _o, title, bounds in jobs:
        st, acc = driver.explore(name, time_limit=tl)
        check.section(title, st, acc, bounds, tags_required=("returned",))
        cands.extend(acc.candidates)
    cands.sort(key=lambda c: (len((c["input"] or {}).get("uri", "")), (c["input"] or {}).get("uri", "")))
    check.confirm(cands, make_replay, classify, max_confirm=60)
    driver.close_pool()
    realproc.shutdown()
