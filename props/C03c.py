"""C03, `return` clause (exploration): `return STOP_RENDERING` ends the current body or def keeping the output so far.

One early return is planted in a construct of a solver-chosen kind (template body, plain / buffered / filtered / cached /
decorated def, captured def, anonymous / filtered / named block, <%call> body, inside % for and % if in a def, an included
template, the body of an inheriting template), directly or inside a nested % if; the real template is rendered and compared
with the text the statement gives: what was written before the return stays (through the construct's filter, if any), the
rest of that body is skipped, the caller continues."""
from symx import core, driver
from . import common

LK = None
R = "<% return STOP_RENDERING %>"
DEC = ('<%! \ndef dec(fn):\n    def w(context, *a, **k):\n        context.write("<"); fn(*a, **k); context.write(">"); return ""\n    return w\n%>')
SITES = {
    "body": ("before {R} lost", "before "),
    "plain-def": ('<%def name="d()">kept {R} lost</%def>[${d()}]after', "[kept ]after"),
    "buffered-def": ('<%def name="d()" buffered="True">kept {R} lost</%def>[${d()}]after', "[kept ]after"),
    "filtered-def": ('<%def name="d()" filter="up">kept {R} lost</%def>[${d()}]after', "[KEPT ]after"),
    "cached-def": ('<%def name="d()" cached="True">kept {R} lost</%def>[${d()}]after', "[kept ]after"),
    "captured-def": ('<%def name="d()">kept {R} lost</%def>[${capture(d)}]after', "[kept ]after"),
    "decorated-def": (DEC + '<%def name="d()" decorator="dec">kept {R} lost</%def>[${d()}]after', "[<kept >]after"),
    "anonymous-block": ("<%block>kept {R} lost</%block>after", "kept after"),
    "filtered-block": ('<%block filter="up">kept {R} lost</%block>after', "KEPT after"),
    "buffered-block": ('<%block buffered="True">kept {R} lost</%block>after', "kept after"),
    "named-block": ('<%block name="b">kept {R} lost</%block>after', "kept after"),
    "call-body": ('<%def name="w()">W[${caller.body()}]</%def><%call expr="w()">kept {R} lost</%call>after', "W[kept ]after"),
    "loop-in-def": ('<%def name="d()">\\\n% for i in (1, 2):\n${i}{R}\\\n% endfor\nlost</%def>[${d()}]after', "[1]after"),
    "included": ('[<%include file="inc"/>]after', "[kept ]after"),
    "inherited-body": ('<%inherit file="base"/>kept {R} lost', "B(kept )after"),
}
WRAP = {"direct": "{R}", "inside-if": "\\\n% if True:\n{R}\\\n% endif\n", "inside-try": "\\\n% try:\n{R}\\\n% except KeyError:\nno\\\n% endtry\n"}
KNOWN_LOSS = ("buffered-def", "filtered-def", "cached-def", "filtered-block", "buffered-block")


def case(LKm, site, wrap):
    src, want = SITES[site]
    r = WRAP[wrap].replace("{R}", R)
    lk = LKm.TemplateLookup()
    lk.put_string("inc", "kept " + r + " lost")
    lk.put_string("base", "B(${next.body()})after")
    lk.put_string("main", src.replace("{R}", r))
    try:
        got = lk.get_template("main").render(up=lambda s: s.upper())
    except Exception as e:
        got = "raised %s: %s" % (type(e).__name__, e)
    return got, want


def h_return(p):
    site = list(SITES)[p.choose(len(SITES), "construct")]
    wrap = list(WRAP)[p.choose(len(WRAP), "placement")]
    got, want = case(LK, site, wrap)
    return dict(site=site, wrap=wrap, got=got, want=want)


def on_return(p, r, exc, acc):
    if exc is not None:
        acc.candidate(kind="harness-exception", input=None, detail="%s: %s" % (type(exc).__name__, str(exc)[:200]))
        return
    acc.tags["asserted"] += 1
    acc.vcs += 1
    if r["got"] != r["want"]:
        acc.candidate(kind="early-return", input=dict(construct=r["site"], placement=r["wrap"]), detail="rendered %r, documented %r" % (r["got"], r["want"]))
    else:
        acc.good("early-return", dict(construct=r["site"], placement=r["wrap"]))
    acc.sample(dict(construct=r["site"], placement=r["wrap"], output=r["got"]))


def make_replay(c):
    i = c["input"] or {"construct": "body", "placement": "direct"}
    body = """
sys.path.insert(0, "/verif")
CASE = __CASE__
import mako.lookup as LK
from props import C03c
src = C03c.SITES[CASE["construct"]][0].replace("{R}", C03c.WRAP[CASE["placement"]].replace("{R}", C03c.R))
print(src)
got, want = C03c.case(LK, CASE["construct"], CASE["placement"])
print("rendered  :", repr(got)); print("documented:", repr(want))
bad = None if got == want else "`return STOP_RENDERING` does not keep the output written so far / does not end just this body"
print("VIOLATED: " + bad if bad else "HOLDS")
sys.exit(1 if bad else 0)
""".replace("__CASE__", repr(i))
    return (c["kind"], body, (i["construct"], i["placement"]))


def classify(c):
    i = c.get("input") or {}
    if c["kind"] == "early-return" and i.get("construct") in KNOWN_LOSS:
        return "C03-early-return-in-buffering-construct-loses-output"
    return None


def run(check, tier):
    global LK
    LK = common.mako("lookup")
    check.assume("early return (exploration): `return STOP_RENDERING` in %d kinds of construct x 3 placements (direct, inside %% if, inside %% try) "
                 "rendered by the real pipeline; expected: the text written before it stays (through the construct's filter), the rest of that "
                 "body is skipped, the caller continues" % len(SITES))
    name = "C03-early-return"
    driver.register(name, h_return, on_return)
    st, acc = driver.explore(name, time_limit=300)
    check.section("`return STOP_RENDERING` in every kind of construct", st, acc, dict(constructs=list(SITES), placements=list(WRAP)), tags_required=("asserted",))
    check.confirm(acc.candidates, make_replay, classify, max_confirm=20, per_finding=3, goods=acc.goods)
