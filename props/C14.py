"""C14 - lookup serves fresh, stable, correctly prioritised templates over time (inductive step)."""
import types
import z3

from symx import core, values, driver
from symx.values import SymInt, SymBool
from . import common

LK = UT = EXC = None


def setup():
    global LK, UT, EXC
    if LK is not None:
        return
    LK, UT, EXC = common.mako("lookup", "util", "exceptions")


def kernel():
    T = LK.TemplateLookup
    return [T.get_template, T._check, T._load, T.put_string, T.put_template, LK.TemplateCollection.has_template,
            UT.LRUCache.__getitem__, UT.LRUCache.__setitem__, UT.LRUCache.setdefault, UT.LRUCache._manage_size]


NDIRS = 2


def h_step(p):
    """one get_template from an arbitrary valid lookup state for one URI over NDIRS directories"""
    S = p
    B, I, R = p.new_bool, p.new_int, p.new_real
    cached, fs_checks, compiles, sized = B("cached"), B("fs_checks"), B("compiles"), B("sized")
    t_c = R("t_c")                      # instant the cached version was compiled (module._modified_time)
    v_c = I("v_c")                      # content version it was compiled from
    exists = [B("exists%d" % i) for i in range(NDIRS)]
    m = [I("mtime%d" % i) for i in range(NDIRS)]      # whole-second mtimes of the current content
    ver = [I("ver%d" % i) for i in range(NDIRS)]
    w = [R("written%d" % i) for i in range(NDIRS)]    # instant the current content was written
    link = [B("symlink%d" % i) for i in range(NDIRS)]  # the path is a symbolic link ...
    lm = [I("linkmtime%d" % i) for i in range(NDIRS)]  # ... whose own mtime is unrelated (older or newer)
    now = R("now")
    cdir_v = I("cdir")
    for i in range(NDIRS):
        S.assume(z3.And(m[i] <= w[i], w[i] < m[i] + 1, w[i] <= now, w[i] >= 0, ver[i] >= 1, lm[i] >= 0))
    S.assume(z3.And(t_c >= 0, t_c <= now, cdir_v >= 0, cdir_v < NDIRS))
    cd = lambda arr: arr[0] if NDIRS == 1 else z3.If(cdir_v == 0, arr[0], arr[1])
    # representation invariant I: the cached entry was compiled from the content current at t_c
    S.assume(z3.Implies(cached, z3.Or(z3.And(v_c == cd(ver), cd(w) <= t_c), z3.And(v_c != cd(ver), cd(w) > t_c))))
    is_cached = p.fork(cached)
    checks = p.fork(fs_checks)
    use_lru = p.fork(sized)
    cdir = 0
    if is_cached:
        cdir = 0 if p.fork(cdir_v == 0) else 1
    constructed = []
    clock = [now]

    class FakeTemplate:
        """stands for Template(...): reads the file through the FS model and stamps the compile instant"""

        def __init__(self, text=None, filename=None, uri=None, lookup=None, module_filename=None, **kw):
            d = int(filename[2])
            if not p.fork(exists[d]):
                raise OSError("file vanished: %s" % filename)
            if not p.fork(compiles):
                raise EXC.CompileException("syntax error", "", 0, 0, filename)
            self.filename, self.uri, self.version, self.dir = filename, uri, ver[d], d
            self.module = types.SimpleNamespace(_modified_time=SymInt(now))
            constructed.append(self)

    def _d(path):
        return int(path[2])

    class OsPath:
        sep = "/"

        @staticmethod
        def isfile(path):
            return p.fork(exists[_d(path)])

    class Os:
        path = OsPath
        sep = "/"

        @staticmethod
        def stat(path):
            d = _d(path)
            if not p.fork(exists[d]):
                raise FileNotFoundError(path)
            return {LK.stat.ST_MTIME: SymInt(m[d])}

        @staticmethod
        def lstat(path):
            d = _d(path)
            if not p.fork(exists[d]):
                raise FileNotFoundError(path)
            return {LK.stat.ST_MTIME: SymInt(z3.If(link[d], lm[d], m[d]))}

    LK.os = Os
    LK.Template = FakeTemplate
    lk = LK.TemplateLookup(["/d0", "/d1"][:NDIRS], filesystem_checks=checks, collection_size=4 if use_lru else -1)
    old = None
    if is_cached:
        old = FakeTemplate.__new__(FakeTemplate)
        old.filename, old.uri, old.version, old.dir = "/d%d/u" % cdir, "u", v_c, cdir
        old.module = types.SimpleNamespace(_modified_time=SymInt(t_c))
        lk._collection["u"] = old
    res = exc = None
    if p.choose(2, "api") == 1:
        # has_template as the operation on the arbitrary state: it answers, it does not raise lookup exceptions
        hv = hexc = None
        try:
            hv = lk.has_template("u")
        except Exception as e:
            hexc = e
        return dict(api="has_template", hv=hv, hexc=hexc, is_cached=is_cached, checks=checks, cdir=cdir, lru=use_lru, lk=lk,
                    sym=dict(exists=exists, m=m, ver=ver, t_c=t_c, v_c=v_c, now=now, w=w, link=link, lm=lm))
    try:
        res = lk.get_template("u")
    except Exception as e:
        exc = e
    try:
        entry_after = lk._collection["u"]
    except KeyError:
        entry_after = None
    # follow-up: after a failed compilation the corrected file must load
    again = None
    if exc is not None and isinstance(exc, EXC.CompileException):
        p.assume(z3.BoolVal(True))
        comp2 = lambda: True
        # flip the fault off: a fresh constructor that always compiles
        class Fixed(FakeTemplate):
            def __init__(self, text=None, filename=None, uri=None, lookup=None, module_filename=None, **kw):
                d = int(filename[2])
                if not p.fork(exists[d]):
                    raise OSError("gone")
                self.filename, self.uri, self.version, self.dir = filename, uri, ver[d], d
                self.module = types.SimpleNamespace(_modified_time=SymInt(now))
        LK.Template = Fixed
        try:
            again = ("ok", lk.get_template("u"))
        except Exception as e2:
            again = ("exc", e2)
    has = None
    if res is None and exc is not None and isinstance(exc, EXC.TopLevelLookupException):
        has = lk.has_template("u")
    return dict(is_cached=is_cached, checks=checks, old=old, res=res, exc=exc, constructed=list(constructed), lk=lk, again=again, has=has, entry_after=entry_after,
                sym=dict(exists=exists, m=m, ver=ver, t_c=t_c, v_c=v_c, now=now, w=w, link=link, lm=lm), cdir=cdir, lru=use_lru)


def on_step(p, r, exc, acc):
    if exc is not None:
        acc.candidate(kind="harness-exception", input=None, detail=repr(exc)[:300])
        return
    y = r["sym"]
    if r.get("api") == "has_template":
        return on_has(p, r, acc)
    res, e, old, cdir = r["res"], r["exc"], r["old"], r["cdir"]
    kind = ("cached" if r["is_cached"] else "uncached", "checks" if r["checks"] else "nochecks",
            type(e).__name__ if e else ("same" if res is old else "new"))
    acc.counts[" ".join(kind)] += 1
    acc.tags[kind[0]] += 1
    acc.tags["reload" if (r["is_cached"] and e is None and res is not old) else "noreload"] += 1
    m = p.witness()

    def desc(mod):
        ev = lambda t: str(mod.eval(t, model_completion=True))
        return dict(cached=r["is_cached"], filesystem_checks=r["checks"], cached_dir=cdir, t_compiled=ev(y["t_c"]), now=ev(y["now"]),
                    dirs=[dict(exists=ev(y["exists"][i]), mtime=ev(y["m"][i]), written=ev(y["w"][i]), version=ev(y["ver"][i]),
                               symlink=ev(y["link"][i]), link_mtime=ev(y["lm"][i])) for i in range(NDIRS)],
                    cached_version=ev(y["v_c"]), outcome=kind[2])

    def vc(name, formula):
        acc.vcs += 1
        st, mod = p.vc(formula)
        if st == "fails":
            acc.candidate(kind=name, input=desc(mod), detail=name)
        elif st == "unknown":
            acc.vcs_unknown += 1

    def req(name, cond):
        acc.vcs += 1
        if not cond:
            acc.candidate(kind=name, input=desc(m), detail=name)

    req("mutex-left-locked", not r["lk"]._mutex.locked())
    if r["is_cached"] and not r["checks"]:
        req("nochecks-not-same-object", res is old and not r["constructed"])
        return
    if r["is_cached"]:
        if e is None:
            vc("stale-template-served", z3.Implies(y["m"][cdir] >= y["t_c"] + 1, res.version == y["ver"][cdir]))
            if res is not old:
                vc("recompiled-although-unchanged", z3.Not(z3.And(y["v_c"] == y["ver"][cdir], y["exists"][cdir])))
                req("constructed-more-than-once", len(r["constructed"]) == 1)
            else:
                req("constructed-although-same", not r["constructed"])
            req("collection-entry-is-result", r["entry_after"] is res)
            # invariant preserved for the entry now cached
            vc("invariant-broken", z3.Or(res.version == y["ver"][res.dir], z3.BoolVal(res is old)))
        else:
            req("entry-kept-after-failure", r["entry_after"] is None)
            req("undocumented-exception", isinstance(e, (EXC.TemplateLookupException, EXC.CompileException)))
            if isinstance(e, EXC.TemplateLookupException):
                vc("lookup-exception-although-file-present", z3.Not(y["exists"][cdir]))
    else:
        if e is None:
            d = res.dir
            vc("not-first-directory", z3.And(y["exists"][d], *[z3.Not(y["exists"][j]) for j in range(d)]))
            req("constructed-more-than-once", len(r["constructed"]) == 1)
            req("collection-entry-is-result", r["entry_after"] is res)
        else:
            req("entry-kept-after-failure", r["entry_after"] is None)
            if isinstance(e, EXC.TopLevelLookupException):
                vc("toplevel-exception-although-file-present", z3.And(*[z3.Not(x) for x in y["exists"]]))
                req("has_template-true-without-file", r["has"] is False)
            else:
                req("undocumented-exception", isinstance(e, (EXC.CompileException,)))
    if r["again"] is not None:
        st, val = r["again"]
        req("lookup-unusable-after-failed-compile", st == "ok" or isinstance(val, EXC.TemplateLookupException))
        if st == "ok":
            vc("corrected-file-not-current", val.version == y["ver"][val.dir])
    acc.sample(desc(m))


def on_has(p, r, acc):
    y, cdir = r["sym"], r["cdir"]
    acc.tags["has_template"] += 1
    m = p.witness()
    ev = lambda mod, t: str(mod.eval(t, model_completion=True))

    def desc(mod):
        return dict(api="has_template", cached=r["is_cached"], filesystem_checks=r["checks"], cached_dir=cdir, t_compiled=ev(mod, y["t_c"]), now=ev(mod, y["now"]),
                    dirs=[dict(exists=ev(mod, y["exists"][i]), mtime=ev(mod, y["m"][i]), written=ev(mod, y["w"][i]), version=ev(mod, y["ver"][i]),
                               symlink=ev(mod, y["link"][i]), link_mtime=ev(mod, y["lm"][i])) for i in range(NDIRS)],
                    cached_version=ev(mod, y["v_c"]), outcome=repr(r["hv"]) if r["hexc"] is None else type(r["hexc"]).__name__)

    acc.vcs += 2
    acc.counts["has_template %s -> %s" % ("cached" if r["is_cached"] else "uncached", desc(m)["outcome"])] += 1
    if r["lk"]._mutex.locked():
        acc.candidate(kind="mutex-left-locked", input=desc(m), detail="after has_template")
    if r["hexc"] is not None:
        if isinstance(r["hexc"], EXC.TemplateLookupException):
            acc.candidate(kind="has_template-raises", input=desc(m), detail="%s: %s" % (type(r["hexc"]).__name__, r["hexc"]))
        elif not isinstance(r["hexc"], (EXC.CompileException, OSError)):
            acc.candidate(kind="undocumented-exception", input=desc(m), detail=repr(r["hexc"])[:200])
        return
    if r["is_cached"] and not r["checks"]:
        want = z3.BoolVal(True)
    elif r["is_cached"]:
        want = y["exists"][cdir]
    else:
        want = z3.Or(*y["exists"])
    st, mod = p.vc(want == z3.BoolVal(bool(r["hv"])))
    if st == "fails":
        acc.candidate(kind="has_template-wrong-answer", input=desc(mod), detail="answered %r" % r["hv"])
    elif st == "unknown":
        acc.vcs_unknown += 1
    if type(r["hv"]) is not bool:
        acc.candidate(kind="has_template-wrong-answer", input=desc(m), detail="not a bool: %r" % (r["hv"],))
    acc.sample(desc(m))


def h_put(p):
    """put_string / put_template entries are served under their URI, whatever the file system says"""
    checks = p.fork(p.new_bool("fs_checks"))
    use_lru = p.fork(p.new_bool("sized"))
    shadowed = p.new_bool("a_file_with_that_uri_exists")

    class T:
        def __init__(self, text=None, filename=None, uri=None, lookup=None, **kw):
            self.text, self.filename, self.uri = text, filename, uri
            self.module = types.SimpleNamespace(_modified_time=SymInt(p.new_real("t")))

    class OsPath:
        sep = "/"

        @staticmethod
        def isfile(path):
            return p.fork(shadowed)

    LK.os = types.SimpleNamespace(path=OsPath, sep="/", stat=lambda path: {LK.stat.ST_MTIME: SymInt(p.new_int("m"))})
    LK.Template = T
    lk = LK.TemplateLookup(["/d0"], filesystem_checks=checks, collection_size=2 if use_lru else -1)
    which = p.choose(2, "api")
    if which == 0:
        lk.put_string("/s", "text")
        mine = None
    else:
        mine = T(text="own", uri="/s")
        lk.put_template("/s", mine)
    got = lk.get_template("/s")
    again = lk.get_template("/s")
    return dict(which=which, mine=mine, got=got, again=again, has=lk.has_template("/s"), checks=checks, lru=use_lru)


def on_put(p, r, exc, acc):
    if exc is not None:
        acc.candidate(kind="put-exception", input=None, detail="%s: %s" % (type(exc).__name__, str(exc)[:200]))
        return
    acc.tags["ran"] += 1
    acc.vcs += 1
    ok = r["got"] is r["again"] and r["has"] is True and r["got"].filename is None and (r["which"] == 0 and r["got"].text == "text" or r["got"] is r["mine"])
    if not ok:
        acc.candidate(kind="put-entry-not-served", input=dict(api=["put_string", "put_template"][r["which"]], filesystem_checks=r["checks"], bounded=r["lru"]),
                      detail="got %r" % (getattr(r["got"], "text", None),))
    acc.sample(dict(api=["put_string", "put_template"][r["which"]], filesystem_checks=r["checks"], bounded=r["lru"]))


# ------------------------------------------------------------------ LRU inductive step
def h_lru(cap, k, ordered=False):
    def h(p):
        ticks = []

        def timer():
            t = p.new_real("tick")
            if ticks:
                p.assume(t > ticks[-1])     # the monotonic clock advances between calls
            ticks.append(t)
            return SymInt(t)

        UT.timeit = types.SimpleNamespace(default_timer=timer)
        c = UT.LRUCache(cap)
        stamps = []
        # arbitrary valid pre-state: k entries with arbitrary distinct earlier timestamps
        for i in range(k):
            it = UT.LRUCache._Item.__new__(UT.LRUCache._Item)
            it.key, it.value = "k%d" % i, "v%d" % i
            t = p.new_real("ts%d" % i)
            if ordered and stamps:
                p.assume(t > stamps[-1])        # entries are interchangeable: name them in stamp order (symmetry reduction)
            else:
                for s in stamps:
                    p.assume(t != s)
            stamps.append(t)
            it.timestamp = SymInt(t)
            dict.__setitem__(c, it.key, it)
        t0 = p.new_real("t0")
        for s in stamps:
            p.assume(s < t0)
        ticks.append(t0)
        op = p.choose(2, "op")
        touched = None
        if op == 1 and k:
            ti = p.choose(k, "which")
            touched = "k%d" % ti
            got = c[touched]        # a fetch refreshes the stamp
            stamps[ti] = dict.__getitem__(c, touched).timestamp.e
        c["new"] = "vnew"
        return dict(c=c, stamps=stamps, cap=cap, k=k, touched=touched)
    return h


def on_lru(p, r, exc, acc):
    if exc is not None:
        acc.candidate(kind="lru-exception", input=None, detail=repr(exc)[:300])
        return
    c, cap, k = r["c"], r["cap"], r["k"]
    acc.tags["ran"] += 1
    acc.vcs += 2
    n = len(c)
    m = p.witness()
    desc = dict(capacity=cap, entries_before=k, touched=r["touched"], size_after=n, kept=sorted(dict.keys(c)))
    if n > cap * 1.5:
        acc.candidate(kind="lru-over-bound", input=desc, detail="size %d > 1.5*%d" % (n, cap))
    if "new" not in c:
        acc.candidate(kind="lru-lost-new-entry", input=desc, detail="")
    evicted = k + 1 - n
    if evicted:
        acc.tags["evicted"] += 1
        # survivors must be the most recently stamped: every evicted stamp < every surviving original stamp
        surv = [i for i in range(k) if ("k%d" % i) in c]
        gone = [i for i in range(k) if ("k%d" % i) not in c]
        conds = [r["stamps"][g] < r["stamps"][s] for g in gone for s in surv]
        acc.vcs += 1
        st, mod = p.vc(z3.And(conds) if conds else z3.BoolVal(True))
        if st == "fails":
            acc.candidate(kind="lru-evicted-not-least-recent", input=desc, detail="")
        if n != cap:
            acc.candidate(kind="lru-eviction-size", input=desc, detail="after an eviction pass %d entries remain, capacity %d" % (n, cap))
    acc.sample(desc)


# ------------------------------------------------------------------ the real lookup under environment variables a deployment may set
ENVS = [{}, {"SOURCE_DATE_EPOCH": "past"}, {"SOURCE_DATE_EPOCH": "nix"}, {"SOURCE_DATE_EPOCH": "future"}, {"TZ": "Pacific/Kiritimati"},
        {"TZ": "Etc/GMT+12"}, {"LC_ALL": "tr_TR.UTF-8", "LANG": "tr_TR.UTF-8"}, {"PYTHONUTF8": "0", "PYTHONIOENCODING": "latin-1"}]


def h_env(p):
    return dict(env=ENVS[p.choose(len(ENVS), "environment")], module_directory=bool(p.choose(2, "module_directory")))


def on_env(p, r, exc, acc):
    from symx import realproc
    same, compiled, after = realproc.call("stamp_probe", r["env"], r["module_directory"])
    acc.replayed += 1
    acc.tags["ran"] += 1
    acc.vcs += 3
    desc = dict(environment=r["env"], module_directory=r["module_directory"])
    if not same or compiled != 1:
        acc.candidate(kind="not-stable-under-environment", input=desc, detail="4 get_template calls with nothing changing: same object %s, %d compilations" % (same, compiled))
    elif after != "version 2":
        acc.candidate(kind="stale-under-environment", input=desc, detail="after an edit stamped 30 s later the lookup serves %r" % (after,))
    acc.sample(dict(desc, same_object=same, compilations=compiled, after_edit=after))


# ------------------------------------------------------------------ directory priority through the mako-render command
def h_cmd(p):
    header_in = {d: bool(p.choose(2, "header_in_" + d)) for d in ("overrides", "base", "elsewhere")}
    page_in = ["base", "overrides", "elsewhere"][p.choose(3, "page_in")]
    template_dirs = [[], ["overrides", "base"], ["base", "overrides"], ["overrides"], ["base"]][p.choose(5, "template_dirs")]
    return dict(cfg=dict(header_in=header_in, page_in=page_in, template_dirs=template_dirs))


def on_cmd(p, r, exc, acc):
    from symx import realproc
    got, want = realproc.call("cmd_priority_probe", r["cfg"])
    acc.replayed += 1
    acc.tags["ran"] += 1
    acc.vcs += 1
    if got != want:
        acc.candidate(kind="command-line-directory-priority", input=dict(cmd=r["cfg"]), detail="mako-render wrote %r, the first configured directory holding the URI gives %r" % (got, want))
    acc.sample(dict(r["cfg"], output=got))



def make_replay(c):
    body = '''
# the counterexample is a pre-state of the inductive step; replay it with real files, a real clock offset and the real lookup
import os, tempfile, shutil, time
CASE = %r
KIND = %r
print("counterexample state:", CASE)
from mako.lookup import TemplateLookup
from mako import util
bad = None
if KIND.endswith("under-environment"):
    sys.path.insert(0, "/verif")
    from props.realops import stamp_probe
    same, compiled, after = stamp_probe(CASE["environment"], CASE["module_directory"])
    print("4 get_template calls, nothing changing: same object:", same, " compilations:", compiled, "; after an edit:", repr(after))
    if not same or compiled != 1: bad = "repeated get_template calls do not return the same Template / recompile although nothing changed"
    elif after != "version 2": bad = "an edit stamped 30 s after the compilation is not served"
elif KIND == "command-line-directory-priority":
    sys.path.insert(0, "/verif")
    from props.realops import cmd_priority_probe
    got, want = cmd_priority_probe(CASE["cmd"])
    print("mako-render wrote", repr(got), " expected", repr(want))
    if got != want: bad = "the URI is not served from the first configured directory that contains it"
elif KIND.startswith("has_template"):
    base = tempfile.mkdtemp(prefix="c14replay")
    try:
        d0, d1 = os.path.join(base, "d0"), os.path.join(base, "d1")
        os.makedirs(d0); os.makedirs(d1)
        lk = TemplateLookup([d0, d1], filesystem_checks=CASE["filesystem_checks"])
        if CASE["cached"]:
            f = os.path.join([d0, d1][CASE["cached_dir"]], "u")
            open(f, "w").write("old"); lk.get_template("u"); os.remove(f)
        for i, dd in enumerate((d0, d1)):
            if CASE["dirs"][i]["exists"] == "True": open(os.path.join(dd, "u"), "w").write("x")
        present = any(os.path.exists(os.path.join(dd, "u")) for dd in ((d0, d1) if not CASE["cached"] else ([d0, d1][CASE["cached_dir"]],)))
        try:
            got = lk.has_template("u")
            print("has_template ->", got, " file present:", present)
            if CASE["filesystem_checks"] and got is not present: bad = "has_template answered %%r" %% got
        except Exception as e:
            print("has_template raised", type(e).__name__, e); bad = "has_template raised %%s" %% type(e).__name__
    finally:
        shutil.rmtree(base, ignore_errors=True)
elif KIND.startswith("put"):
    lk = TemplateLookup(filesystem_checks=CASE["filesystem_checks"], collection_size=2 if CASE["bounded"] else -1)
    from mako.template import Template
    if CASE["api"] == "put_string":
        lk.put_string("/s", "text"); t = lk.get_template("/s")
        if t.render() != "text" or lk.get_template("/s") is not t or not lk.has_template("/s"): bad = "put_string entry not served"
    else:
        mine = Template("own"); lk.put_template("/s", mine)
        if lk.get_template("/s") is not mine: bad = "put_template entry not served"
elif KIND.startswith("lru"):
    cap = CASE["capacity"]; k = CASE["entries_before"]
    c = util.LRUCache(cap)
    for i in range(k): c["k%%d" %% i] = i
    if CASE.get("touched"): c[CASE["touched"]]
    c["new"] = 1
    if len(c) > 1.5 * cap: bad = "size %%d exceeds 1.5 x capacity %%d" %% (len(c), cap)
    elif "new" not in c: bad = "new entry lost"
    elif CASE.get("touched") and cap >= 2 and CASE["touched"] not in c: bad = "most recently fetched entry evicted"
    elif len(c) < k + 1 and len(c) != cap: bad = "eviction left %%d entries" %% len(c)
else:
    base = tempfile.mkdtemp(prefix="c14replay")
    try:
        d0, d1 = os.path.join(base, "d0"), os.path.join(base, "d1")
        os.makedirs(d0); os.makedirs(d1)
        lk = TemplateLookup([d0, d1], filesystem_checks=CASE["filesystem_checks"])
        cd = [d0, d1][CASE["cached_dir"]]
        f = os.path.join(cd, "u")
        t_now = time.time()
        if CASE["cached"]:
            open(f, "w").write("old")
            t1 = lk.get_template("u")
            assert t1.render() == "old"
            # move the compile stamp into the past as the counterexample says, then apply the file state
            delta = float(eval(CASE["now"].replace("?", ""))) - float(eval(CASE["t_compiled"].replace("?", "")))
            t1.module._modified_time = t_now - delta
        for i, dd in enumerate((d0, d1)):
            st = CASE["dirs"][i]
            fp = os.path.join(dd, "u")
            if st["exists"] == "True":
                changed = (not CASE["cached"]) or i != CASE["cached_dir"] or st["version"] != CASE["cached_version"]
                if st["symlink"] == "True":
                    # the template path is a symbolic link to the real file
                    target = fp + ".target"
                    if os.path.exists(fp) and not os.path.islink(fp):
                        os.rename(fp, target)
                        os.symlink(target, fp)
                    elif not os.path.lexists(fp):
                        open(target, "w").write("x"); os.symlink(target, fp)
                    lage = float(eval(CASE["now"].replace("?", ""))) - float(eval(st["link_mtime"]))
                    os.utime(fp, (t_now - lage, t_now - lage), follow_symlinks=False)
                if changed or not os.path.exists(fp):
                    open(fp, "w").write("content-%%d-%%s" %% (i, st["version"]))
                age = float(eval(CASE["now"].replace("?", ""))) - float(eval(st["mtime"]))
                os.utime(fp, (t_now - age, t_now - age))
            elif os.path.exists(fp):
                os.remove(fp)
        try:
            t2 = lk.get_template("u")
            out = t2.render()
            want = None
            for i, dd in enumerate((d0, d1)):
                fp = os.path.join(dd, "u")
                if os.path.exists(fp) and (not CASE["cached"] or i == CASE["cached_dir"]):
                    want = open(fp).read(); break
            print("rendered", repr(out), "current content", repr(want))
            if KIND == "stale-template-served" and out != want: bad = "stale content served although mtime >= compile time + 1s"
            if KIND == "recompiled-although-unchanged" and CASE["cached"] and t2 is not t1: bad = "recompiled although nothing changed"
            if KIND == "nochecks-not-same-object" and t2 is not t1: bad = "filesystem_checks=False but a different object was returned"
            if KIND == "not-first-directory" and out != want: bad = "not served from the first directory containing it"
        except Exception as e:
            print("raised", type(e).__name__, e)
            if KIND in ("lookup-exception-although-file-present", "toplevel-exception-although-file-present", "undocumented-exception"): bad = "raised %%s" %% type(e).__name__
    finally:
        shutil.rmtree(base, ignore_errors=True)
print("VIOLATED: " + bad if bad else "HOLDS (not reproduced through the public API)")
sys.exit(1 if bad else 0)
''' % (c["input"], c["kind"])
    return (c["kind"], body, (c["kind"], repr(c["input"])))


def classify(c):
    return None


def run(check, tier):
    setup()
    check.encode(*kernel())
    check.assume(
        "inductive step: histories are covered by one get_template from an ARBITRARY lookup state satisfying the invariant "
        "I = (a cached entry was compiled from the content that was current at its compile instant t_c, and t_c <= now)",
        "time is symbolic: clock readings are z3 Reals, mtimes are Ints with mtime <= write instant < mtime+1 (whole-second ST_MTIME)",
        "Template is replaced by a constructor stub that reads (exists?, version) from the FS model, may fail to compile, and stamps "
        "module._modified_time with the current instant; os.stat/os.path.isfile answer from the FS model; lstat is modelled too "
        "(a path may be a symlink whose own mtime is unrelated to the content's)",
        "LRU: arbitrary valid cache contents with arbitrary distinct symbolic timestamps; the timer is strictly increasing")
    check.not_claimed("histories are not enumerated (induction on I)", "real file systems, module_directory interaction (C15)",
                      "eviction order when two timestamps are equal")
    jobs = [("C14-step", h_step, on_step, "one get_template from an arbitrary valid state, %d directories" % NDIRS,
             dict(directories=NDIRS, flags="cached, filesystem_checks, exists per dir, compiles, symlink per dir, LRU/plain collection"),
             ("cached", "uncached", "reload"))]
    jobs.append(("C14-env", h_env, on_env, "the real lookup under environment variables a deployment may set (reproducible-build epoch, time zone, "
                 "locale, I/O encoding), with and without module directory", dict(environments=ENVS), ("ran",)))
    jobs.append(("C14-cmd", h_cmd, on_cmd, "directory priority as seen through mako-render --template-dir", dict(), ("ran",)))
    jobs.append(("C14-put", h_put, on_put, "put_string / put_template entries served under their URI", dict(), ("ran",)))
    caps = {"quick": (1, 2, 3), "thorough": (1, 2, 3, 4)}[tier]
    for cap in caps:
        for k in range(0, int(cap * 1.5) + 2):
            jobs.append(("C14-lru-%d-%d" % (cap, k), h_lru(cap, k), on_lru,
                         "LRUCache(capacity %d): insert into an arbitrary state of %d entries (optionally after one fetch)" % (cap, k),
                         dict(capacity=cap, entries=k), ("ran",)))
    # larger capacities with the entries named in stamp order (they are interchangeable, so nothing is lost): the states
    # around the eviction threshold capacity * 1.5, which is not an integer for odd capacities
    for cap in {"quick": (5, 7), "thorough": (5, 6, 7, 8, 9, 11, 12, 15, 16)}[tier]:
        for k in range(cap, int(cap * 1.5) + 2):
            jobs.append(("C14-lruo-%d-%d" % (cap, k), h_lru(cap, k, True), on_lru,
                         "LRUCache(capacity %d): insert into an arbitrary stamp-ordered state of %d entries (optionally after one fetch)" % (cap, k),
                         dict(capacity=cap, entries=k, symmetry="entries named in stamp order"), ("ran",)))
    for j in jobs:
        driver.register(j[0], j[1], j[2])
    cands = []
    for name, _h, _o, title, bounds, req in jobs:
        st, acc = driver.explore(name, time_limit=600)
        check.section(title, st, acc, bounds, tags_required=req)
        cands.extend(acc.candidates)
    check.confirm(cands, make_replay, classify)
    driver.close_pool()
