"""C05 - defs write at the call site; buffering, capture and calls with content (inductive step per construct kind)."""
import types
import z3

from symx import core, values, driver, loader
from symx.values import SymStr, sym_string, str_eq_term, ch_eq, ch_in, lift
from . import common, render_step as RS, C13

RT = LK = UT = PT = REAL_AST = None
ATTR = values.Domain([ord(c) for c in "${}'\"a b"])


from symx.values import SymChar


def setup():
    global RT, LK, UT, PT
    C13.setup()
    RT, LK, UT = C13.RT, C13.LK, C13.UT
    PT = common.mako("parsetree")
    global REAL_AST
    if not isinstance(PT.ast, types.SimpleNamespace):
        REAL_AST = PT.ast           # the attribute harnesses replace it by a stub; the rendering harnesses put it back


def kernel():
    return C13.kernel() + [PT.Tag._parse_attributes]


def h_site(site, hosted):
    def h(p):
        PT.ast = REAL_AST
        return RS.step(p, RT, LK, UT, site, False, hosted)
    return h


def on_site(p, r, exc, acc):
    if exc is not None:
        acc.candidate(kind="harness-exception", input=None, detail="%s: %s" % (type(exc).__name__, str(exc)[:200]))
        return
    site = r["site"]
    desc = dict(site=site, buffers=r["d"], callers=r["c"], nextcaller_pending=r["pending"], hosted=r["hosted"])
    acc.tags["ran"] += 1
    normal = RS.ALL_SITES[site][0]
    if r["hosted"]:
        normal = "h" + normal + "[none]" + ("hb" if r["pending"] else "nocaller") + "e"
    C13.check_state(r, acc, desc, "")
    acc.vcs += 4
    if r["exc"] is not None:
        acc.candidate(kind="construct-raises", input=desc, detail="%s: %s" % (type(r["exc"]).__name__, r["exc"]))
        return
    if r["ret"] != "":
        acc.candidate(kind="non-buffered-def-returns-content", input=desc, detail="returned %r" % (r["ret"],))
    d = r["d"]
    if len(r["contents"]) == d:
        top = r["contents"][-1]
        got = top[len("pre%d|" % (d - 1)):]
        if not top.startswith("pre%d|" % (d - 1)) or got != normal:
            acc.candidate(kind="output-at-call-site", input=desc, detail="the current buffer received %r, expected %r" % (got, normal))
        for i, cnt in enumerate(r["contents"][:-1]):
            if cnt != "pre%d|" % i:
                acc.candidate(kind="wrote-to-outer-buffer", input=desc, detail="buffer %d holds %r" % (i, cnt))
    acc.sample(desc)


# ------------------------------------------------------------------ attribute values of calls with content: literal text, ${}, mixtures
def ref_pieces(items):
    """reference splitting of an attribute value: ${e} (e without braces) is an expression, the rest literal text.
    returns list of ('lit', items) / ('expr', items) or None if an expression contains braces or is empty / unterminated"""
    out = []
    i, n = 0, len(items)
    cur = []
    while i < n:
        if ch_eq(items[i], "$") and i + 1 < n and ch_eq(items[i + 1], "{"):
            j = i + 2
            while j < n and not ch_eq(items[j], "}"):
                if ch_in(items[j], "{$"):
                    return None
                j += 1
            if j >= n or j == i + 2:
                return None
            if cur:
                out.append(("lit", cur))
                cur = []
            out.append(("expr", items[i + 2:j]))
            i = j + 1
            continue
        if ch_in(items[i], "{}"):
            return None        # stray brace: outside the reference's domain
        cur.append(items[i])
        i += 1
    if cur:
        out.append(("lit", cur))
    return out


def h_attr(n):
    def h(p):
        PT.ast = common.stub_ast_namespace()
        v = sym_string(n, "v", ATTR)
        tag = PT.Tag.__new__(PT.IncludeTag)
        PT.Node.__init__(tag, source="", lineno=1, pos=1, filename=None)
        tag.keyword = "x"
        tag.attributes = {"file": v}
        tag._parse_attributes(("file",), ())
        return dict(v=v, parsed=tag.parsed_attributes["file"])
    return h


ATTR_SKELETONS = ["?${?}", "${?}?", "?${?}?", "${?}${?}", "?${?}?${?}"]


def h_attr_skeleton(k):
    """the attribute value is a mixture of text and ${} by construction; every ? is a symbolic character of the domain"""
    def h(p):
        PT.ast = common.stub_ast_namespace()
        items = []
        for j, c in enumerate(ATTR_SKELETONS[k]):
            items.append(values.new_char("v%d" % j, ATTR) if c == "?" else c)
        v = SymStr(items)
        tag = PT.Tag.__new__(PT.IncludeTag)
        PT.Node.__init__(tag, source="", lineno=1, pos=1, filename=None)
        tag.keyword = "x"
        tag.attributes = {"file": v}
        tag._parse_attributes(("file",), ())
        return dict(v=v, parsed=tag.parsed_attributes["file"])
    return h


def on_attr(p, r, exc, acc):
    if exc is not None:
        acc.candidate(kind="attribute-exception", input=None, detail="%s: %s" % (type(exc).__name__, str(exc)[:200]))
        return
    v, parsed = r["v"], lift(r["parsed"])
    pieces = ref_pieces(v.items)
    m = p.witness()
    if pieces is None:
        acc.counts["outside the reference's domain (nested / stray braces)"] += 1
        return
    acc.tags["asserted"] += 1
    exp = []
    for k, (kind, it) in enumerate(pieces):
        if k:
            exp.extend(" + ")
        if kind == "lit":
            exp.extend(values._items(loader.sx_repr(SymStr(it))))
        else:
            # a sole ${} is passed as the value it is; in a mixture every ${} is converted to text before the concatenation
            exp.extend((list("str") if len(pieces) > 1 else []) + ["("] + list(it) + [")"])
    if not pieces:
        exp = list(repr(""))
    acc.vcs += 1
    st, mod = p.vc(str_eq_term(parsed, SymStr(exp)))
    if st == "fails":
        # prefer a counterexample whose expressions are identifiers (a, b) and whose text has no quote: it can be rendered
        nice = [z3.Or(c.v == ord("a"), c.v == ord("b")) for kind, it in pieces for c in it if kind == "expr" and isinstance(c, SymChar)]
        nice += [z3.And(c.v != ord("'"), c.v != ord('"')) for kind, it in pieces for c in it if kind == "lit" and isinstance(c, SymChar)]
        if nice:
            st2, mod2 = p.vc(z3.Or(str_eq_term(parsed, SymStr(exp)), z3.Not(z3.And(nice))))
            if st2 == "fails":
                mod = mod2
        acc.candidate(kind="attribute-pieces", input=dict(attribute=v.concretize(mod)),
                      detail="emitted %r, expected %r" % (parsed.concretize(mod), SymStr(exp).concretize(mod)))
    acc.sample(dict(attribute=v.concretize(m), emitted=parsed.concretize(m)))


# ------------------------------------------------------------------ defs written in the body of a call with content, reached through `caller`
CALLDEF_FLAVOURS = {"plain": ("", "i"), "decorated": (' decorator="dec"', "<i>"), "buffered": (' buffered="True"', "i"), "filtered": (' filter="up"', "I"),
                    "with-argument": ("", "i"), "reads-a-context-variable-named-like-a-body-argument": ("", "iC")}
CALLDEF_HEAD = """<%!
    def dec(fn):
        def decorate(context, *args, **kw):
            context.write("<"); fn(*args, **kw); context.write(">"); return ""
        return decorate
    def up(s):
        return s.upper()
%>"""


def calldef_source(f):
    if f["flavour"] == "reads-a-context-variable-named-like-a-body-argument":
        # the body takes an argument z; the def written beside it reads the CALLING scope's z (the render argument)
        inner = '<%def name="inner()">i${z}</%def>'
        callee = '<%def name="w()">W[' + "".join("${caller.inner()}" for _ in range(f["times"])) + "|${caller.body(z='B')}]</%def>"
        site = ('<%call expr="w()" args="z">' + inner + "body${z}</%call>") if f["form"] == "call-tag" else ('<%self:w args="z">' + inner + "body${z}</%self:w>")
        return CALLDEF_HEAD + callee + "a" + site + "b"
    attrs, _out = CALLDEF_FLAVOURS[f["flavour"]]
    sig, arg = ("x", "'q'") if f["flavour"] == "with-argument" else ("", "")
    inner = '<%def name="inner(' + sig + ')"' + attrs + ">i</%def>"
    callee = '<%def name="w()">W[' + "".join("${caller.inner(" + arg + ")}" for _ in range(f["times"])) + "|${caller.body()}]</%def>"
    if f["form"] == "call-tag":
        site = '<%call expr="w()">' + inner + "body</%call>"
    else:
        site = "<%self:w>" + inner + "body</%self:w>"
    return CALLDEF_HEAD + callee + "a" + site + "b"


def calldef_expected(f):
    if f["flavour"] == "reads-a-context-variable-named-like-a-body-argument":
        return "aW[" + "iC" * f["times"] + "|bodyB]b"
    return "aW[" + CALLDEF_FLAVOURS[f["flavour"]][1] * f["times"] + "|body]b"


def calldef_run(TPm, f):
    try:
        return TPm.Template(calldef_source(f)).render(z="C").strip()
    except Exception as e:
        return "raised %s: %s" % (type(e).__name__, str(e)[:80])


def h_calldef(p):
    TPm = common.mako("template")
    PT.ast = REAL_AST
    f = dict(flavour=list(CALLDEF_FLAVOURS)[p.choose(len(CALLDEF_FLAVOURS), "def_flavour")], times=p.choose(3, "times_called"),
             form=["call-tag", "namespace-call"][p.choose(2, "form")])
    return dict(f=f, got=calldef_run(TPm, f))


def on_calldef(p, r, exc, acc):
    if exc is not None:
        acc.candidate(kind="harness-exception", input=None, detail="%s: %s" % (type(exc).__name__, str(exc)[:200]))
        return
    acc.tags["asserted"] += 1
    acc.vcs += 1
    want = calldef_expected(r["f"])
    if r["got"] != want:
        acc.candidate(kind="def-of-a-call-body", input=dict(calldef=r["f"]), detail="rendered %r, documented %r" % (r["got"], want))
    acc.sample(dict(r["f"], output=r["got"]))



def make_replay(c):
    i = c["input"] or {}
    if "calldef" in i:
        body_ = """
sys.path.insert(0, "/verif")
CASE = __CASE__
import mako.template as TP
from props import C05
f = CASE["calldef"]
print(C05.calldef_source(f))
got, want = C05.calldef_run(TP, f), C05.calldef_expected(f)
print("rendered:", got, "  documented:", want)
bad = None if got == want else "a def written in the body of a call with content is not reached through caller as written"
print("VIOLATED: " + bad if bad else "HOLDS")
sys.exit(1 if bad else 0)
""".replace("__CASE__", repr(i))
        return (c["kind"], body_, repr(sorted(i["calldef"].items(), key=str)))
    body = """
sys.path.insert(0, "/verif")
CASE = __CASE__
KIND = __KIND__
from mako.lookup import TemplateLookup
from mako.template import Template
bad = None
if "attribute" in CASE:
    a = CASE["attribute"]
    print("attribute value:", repr(a))
    import re
    pieces = re.split(r"(\\$\\{[^{}$]+\\})", a)
    want = "".join(("<%s>" % x[2:-1].strip()) if x.startswith("${") else x for x in pieces)
    names = {x[2:-1].strip() for x in pieces if x.startswith("${")}
    try:
        for nm in names: compile(nm, "<e>", "eval")
    except SyntaxError:
        print("expression part is not valid Python: not a meaningful case"); sys.exit(0)
    if '"' in a:
        print("double quote inside a double-quoted attribute: not expressible"); sys.exit(0)
    tmpl = '<%def name="d(x)">[${x}]</%def><%self:d x="' + a + '"></%self:d>'
    class V:
        # a value that is not a string (its text is <name>)
        def __init__(self, nm): self.nm = nm
        def __str__(self): return "<%s>" % self.nm
    ctx = {}
    import ast
    try:
        t = Template(tmpl)
        got = t.render(**{nm: V(nm) for nm in names if nm.isidentifier()})
        print("rendered", repr(got), "expected", repr("[" + want + "]"))
        if all(nm.isidentifier() for nm in names) and got != "[" + want + "]": bad = "attribute pieces not passed in order"
    except Exception as e:
        print("template failed:", type(e).__name__, e)
        if all(nm.isidentifier() for nm in names) and isinstance(e, TypeError) and len([x for x in pieces if x]) > 1:
            bad = "a mixture of text and a ${} whose value is not a string is not concatenated: %s" % e
else:
    from props.render_step import TEMPLATE_FULL as TEMPLATE, INC, ALL_SITES as SITES, Boom
    site = CASE["site"]
    lk = TemplateLookup(); lk.put_string("inc", INC)
    lk.put_string("main", TEMPLATE + "start|${%s()}|<%%call expr=\\"h_%s()\\">hb</%%call>|end" % (site, site))
    def probe(i): return "#%d#" % i
    lk2 = TemplateLookup(); lk2.put_string("foreign", "N[${probe(20)}]")
    data = dict(probe=probe, up=lambda s: s.upper(), tf=lambda s: probe(9) + s.lower(), Boom=Boom, items=lambda m: (7,), other=lk2.get_template("foreign"), q="Q")
    normal = SITES[site][0]
    try:
        got = "".join(lk.get_template("main").render(**data).split())
    except Exception as e:
        got = "raised %s: %s" % (type(e).__name__, e)
    want = "start|" + normal + "|h" + normal + "[none]hbe|end"
    print("rendered:", repr(got)); print("expected:", repr(want))
    if got != want: bad = "construct output / caller restoration differs"
print("VIOLATED: " + bad if bad else "HOLDS")
sys.exit(1 if bad else 0)
""".replace("__CASE__", repr(i)).replace("__KIND__", repr(c["kind"]))
    return (c["kind"], body, (c["kind"], repr(sorted(i.items(), key=str))))


def classify(c):
    if ((c.get("input") or {}).get("calldef") or {}).get("flavour") == "reads-a-context-variable-named-like-a-body-argument":
        return "C05-call-body-sibling-def-cannot-read-name-of-a-body-argument"
    return None


def run(check, tier):
    setup()
    check.encode(*kernel())
    check.assume(
        "inductive step per construct kind (the %d sites of props/render_step.py, each also inlined in a def that uses who()/caller afterwards): "
        "real generated code called from a Context whose buffer-stack depth (1-3), caller-stack depth (0-2) and pending nextcaller are "
        "symbolic choices; post-condition: '' is returned, exactly the documented text reached the CURRENT buffer (filters applied once, "
        "buffered/captured content only through the return value), lower buffers untouched, both stacks and nextcaller restored, and the "
        "enclosing def still sees its own caller" % len(RS.SITES),
        "attribute values: Tag._parse_attributes runs on a symbolic attribute value over {$ { } ' \" a b space}; the reference splits it into "
        "literal runs and ${e} expressions (values with nested or stray braces are outside its domain), a sole ${e} is the value itself, in a mixture every ${e} is converted with str() before the concatenation; besides fully symbolic values of bounded length, skeletons that are mixtures by construction (ATTR_SKELETONS_PLACEHOLDER, ? symbolic); repr() of symbolic text is the engine's model of Python's repr")
    check.not_claimed("Python argument-binding rules of re-emitted signatures (FunctionDecl.get_argument_expressions)",
                      "closure generation for arbitrary nesting shapes")
    jobs = []
    sites = list(RS.SITES) + (list(RS.NESTED) if tier == "thorough" else [n for n in RS.NESTED if n.endswith("_s_call") or n.endswith("_s_buf")])
    for site in sites:
        jobs.append(("C05-" + site, h_site(site, False), on_site, "construct %s from a symbolic pre-state" % site, dict(site=site), ("ran",)))
        jobs.append(("C05-h-" + site, h_site(site, True), on_site, "construct %s inlined in a def that then uses its caller" % site, dict(site=site), ("ran",)))
    for n in range(0, {"quick": 3, "thorough": 5}[tier] + 1):
        jobs.append(("C05-attr-%d" % n, h_attr(n), on_attr, "tag attribute value of %d symbolic characters" % n, dict(chars=n), ("asserted",) if n in (0, 1) else ()))
    jobs.append(("C05-calldef", h_calldef, on_calldef, "defs written in the body of a call with content (plain / decorated / buffered / filtered / with an "
                 "argument), called 0-2 times through caller, <%call> and <%ns:def> forms", dict(flavours=list(CALLDEF_FLAVOURS)), ("asserted",)))
    for k in range(len(ATTR_SKELETONS) if tier == "thorough" else 3):
        jobs.append(("C05-attr-mix-%d" % k, h_attr_skeleton(k), on_attr, "tag attribute value %s (? symbolic)" % ATTR_SKELETONS[k],
                     dict(skeleton=ATTR_SKELETONS[k]), ("asserted",)))
    for j in jobs:
        driver.register(j[0], j[1], j[2])
    cands = []
    for name, _h, _o, title, bounds, req in jobs:
        st, acc = driver.explore(name, time_limit=600)
        check.section(title, st, acc, bounds, tags_required=req)
        cands.extend(acc.candidates)
    check.confirm(cands, make_replay, classify)
    driver.close_pool()
