"""C01, embedded-Python clause: whatever the Python parser does with the code of a directive, lexing ends with a parse tree
or a Mako syntax/compile exception.

The parser is the environment here: mako.pyparser's `_ast_util.parse` is replaced by a stub that, on a solver-chosen call,
raises a solver-chosen exception class out of those CPython's compile() is documented / observed to raise (SyntaxError;
ValueError - e.g. UnicodeEncodeError for a lone surrogate; RecursionError; MemoryError) and otherwise parses for real.  The
real Lexer, parsetree node constructors, mako.ast and mako.pyparser.parse run on top of it."""
import ast as _ast

from symx import core, driver
from . import common

L = PT = EXC = PP = AST = None

SITES = {
    "expression": "a ${CODE} b",
    "expression-filter-argument": "${x | f(CODE)}",
    "control-line": "% if CODE:\nx\n% endif\n",
    "for-line": "% for i in CODE:\nx\n% endfor\n",
    "block": "<% x = CODE %>",
    "module-block": "<%! x = CODE %>",
    "def-signature": "<%def name=\"f(a=CODE)\"></%def>",
    "block-args": "<%block name=\"b\" args=\"a=CODE\"></%block>",
    "tag-attribute-expression": "<%include file=\"${CODE}\"/>",
    "page-args": "<%page args=\"a=CODE\"/>",
    "call-expression": "<%call expr=\"f(CODE)\"></%call>",
    "namespace-call": "<%ns:f a=\"${CODE}\"/>",
}
RAISES = {
    "SyntaxError": (SyntaxError, "1 +"),
    "ValueError": (ValueError, "'\ud800'"),
    "UnicodeEncodeError": (lambda: UnicodeEncodeError("utf-8", "\ud800", 0, 1, "surrogates not allowed"), "'\ud800'"),
    "RecursionError": (RecursionError, "a" + "+a" * 30000),
    "MemoryError": (MemoryError, "-" * 100000 + "1"),
}


def setup():
    global L, PT, EXC, PP, AST
    if PP is None:
        L, PT, EXC, PP, AST = common.mako("lexer", "parsetree", "exceptions", "pyparser", "ast")


def h_parser(p):
    site = list(SITES)[p.choose(len(SITES), "site")]
    cls = list(RAISES)[p.choose(len(RAISES), "parser_raises")]
    nth = p.choose(3, "on_call")
    calls = [0]
    real_util = PP._ast_util

    class Util:
        @staticmethod
        def parse(code, filename="<unknown>", mode="exec"):
            calls[0] += 1
            if calls[0] - 1 == nth:
                mk = RAISES[cls][0]
                raise mk() if not isinstance(mk, type) else mk("raised by the parser stub")
            return _ast.parse(code, filename, mode)

    saved = (PT.ast, L.parsetree, L.adjust_whitespace)
    PP._ast_util = Util
    PT.ast = AST
    L.parsetree = PT
    tree = exc = None
    try:
        tree = L.Lexer(SITES[site].replace("CODE", "v")).parse()
    except Exception as e:
        exc = e
    finally:
        PP._ast_util = real_util
        PT.ast, L.parsetree, L.adjust_whitespace = saved
    if calls[0] <= nth:
        raise core.Abort("the parser is called fewer than %d times for this site" % (nth + 1))
    return dict(site=site, cls=cls, nth=nth, tree=tree, exc=exc)


def on_parser(p, r, exc, acc):
    if exc is not None:
        acc.candidate(kind="harness-exception", input=None, detail="%s: %s" % (type(exc).__name__, str(exc)[:200]))
        return
    acc.tags["asserted"] += 1
    acc.vcs += 1
    e = r["exc"]
    acc.counts["%s -> %s" % (r["cls"], type(e).__name__ if e is not None else "tree")] += 1
    if e is None:
        acc.candidate(kind="parser-error-swallowed", input=dict(site=r["site"], parser_raises=r["cls"], on_call=r["nth"]), detail="a tree was returned although the parser failed")
    elif not isinstance(e, (EXC.SyntaxException, EXC.CompileException)):
        acc.candidate(kind="non-mako-exception", input=dict(site=r["site"], parser_raises=r["cls"], on_call=r["nth"]),
                      detail="%s escapes Lexer.parse" % type(e).__name__)
    elif getattr(e, "lineno", None) in (None, 0):
        acc.candidate(kind="parser-error-without-position", input=dict(site=r["site"], parser_raises=r["cls"], on_call=r["nth"]), detail=repr(e)[:120])
    if len(acc.samples) < 8:
        acc.sample(dict(site=r["site"], parser_raises=r["cls"], on_call=r["nth"], outcome=type(e).__name__ if e is not None else "tree"))


def make_replay(c):
    i = c["input"] or {"site": "expression", "parser_raises": "SyntaxError", "on_call": 0}
    body = """
# the stubbed parser behaviour is realised with code that makes CPython's compile() raise that exception class
from mako.lexer import Lexer
from mako.template import Template
from mako import exceptions
CASE = __CASE__
SITE, CODE = __SITE__, __CODE__
text = SITE.replace("CODE", CODE)
print("site:", CASE["site"], " parser raises:", CASE["parser_raises"], " template (first 80 chars):", repr(text[:80]))
bad = None
for name, fn in (("Lexer.parse", lambda: Lexer(text).parse()), ("Template()", lambda: Template(text))):
    try:
        fn(); out = "no exception"
    except (exceptions.SyntaxException, exceptions.CompileException) as e:
        out = "%s at line %s" % (type(e).__name__, e.lineno)
    except Exception as e:
        out = "raw %s" % type(e).__name__
        bad = "%s lets a raw %s escape instead of a Mako syntax/compile exception" % (name, type(e).__name__)
    print(name, "->", out)
print("VIOLATED: " + bad if bad else "HOLDS")
sys.exit(1 if bad else 0)
""".replace("__CASE__", repr(i)).replace("__SITE__", repr(SITES[i["site"]])).replace("__CODE__", repr(RAISES[i["parser_raises"]][1]))
    return (c["kind"], body, (i["site"], i["parser_raises"], i["on_call"]))


def run(check, tier, cands):
    setup()
    check.encode(PP.parse, AST.PythonCode.__init__, AST.PythonFragment.__init__, AST.FunctionDecl.__init__, AST.ArgumentList.__init__)
    check.assume(
        "embedded Python: the Python parser is a nondeterministic stub - on a solver-chosen call (1st..3rd) during the lexing of a "
        "template with one directive of a solver-chosen kind (%d kinds) it raises a solver-chosen exception class out of "
        "SyntaxError / ValueError / UnicodeEncodeError / RecursionError / MemoryError, otherwise it parses for real; the assertion is "
        "that Lexer.parse ends with a Mako syntax/compile exception carrying a line number; counterexamples are replayed with code "
        "that makes the real compile() raise that class (a lone surrogate, 30000 chained operators, 100000 unary minus signs)" % len(SITES))
    name = "C01-parser-contract"
    driver.register(name, h_parser, on_parser)
    st, acc = driver.explore(name, time_limit=600)
    check.section("embedded-Python parser contract: every exception of the parser becomes a Mako exception", st, acc,
                  dict(sites=len(SITES), exception_classes=list(RAISES), calls=3), tags_required=("asserted",))
    cands.extend(acc.candidates)
