#!/bin/sh
# MANIFEST.setup_cmd: build the check's own interpreter offline.
# /verif/.venv = overlay on /venv (which has mako + its test deps) plus z3-solver / cvc5 / crosshair-tool from the wheelhouse.
set -e
cd "$(dirname "$0")"
if [ -x .venv/bin/python ] && .venv/bin/python -c 'import z3, mako' 2>/dev/null; then
  exit 0
fi
rm -rf .venv
/venv/bin/python -m venv .venv
SP=$(.venv/bin/python -c 'import site; print(site.getsitepackages()[0])')
printf '%s\n%s\n' "/venv/lib/python3.12/site-packages" "/repo" > "$SP/verif_overlay.pth"
PIP_NO_INDEX=1 .venv/bin/pip install -q --no-index --find-links /opt/veriftools/wheels z3-solver cvc5 jsonschema >/dev/null
PIP_NO_INDEX=1 .venv/bin/pip install -q --no-index --find-links /opt/veriftools/wheels crosshair-tool >/dev/null 2>&1 || echo "note: crosshair-tool not installed (secondary engine only)"
.venv/bin/python -c 'import z3, mako; print("verif venv ok: z3", z3.get_version_string(), "mako", mako.__version__)'
