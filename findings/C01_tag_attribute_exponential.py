"""C01 (time clause): lexing time grows exponentially on '<%a' + ' ='*n + 'X': the attribute group of the tag-start
pattern, (?:\\s+\\w+|\\s*=\\s*|"[^"]*?"|'[^']*?'|\\s*,\\s*)*, can split '= =' as '= ' + '=' and as '=' + ' =', so the
number of ways to match n repetitions doubles with n and all of them are tried when the closing '>' is missing."""
import time
from _common import verdict
from mako.lexer import Lexer
from mako import exceptions

times = []
for n in (14, 16, 18, 20):
    s = "<%a" + " =" * n + "X"
    t = time.perf_counter()
    try:
        Lexer(s).parse()
    except exceptions.MakoException:
        pass
    times.append(time.perf_counter() - t)
print("lexing times for n = 14, 16, 18, 20:", [round(x, 4) for x in times])
ratios = [b / a for a, b in zip(times, times[1:]) if a > 2e-3]
verdict("lexing time multiplies by %.1f for every two extra repetitions" % min(ratios[-2:]) if len(ratios) >= 2 and min(ratios[-2:]) > 2.5 else None)
