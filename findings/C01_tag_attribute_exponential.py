"""C01 (time clause): lexing time grows exponentially on '<%a' + ' ='*n + 'X': the attribute group of the tag-start
pattern, (?:\\s+\\w+|\\s*=\\s*|"[^"]*?"|'[^']*?'|\\s*,\\s*)*, can split '= =' as '= ' + '=' and as '=' + ' =', so the
number of ways to match n repetitions doubles with n and all of them are tried when the closing '>' is missing."""
import time
from _common import verdict
from mako.lexer import Lexer
from mako import exceptions


def lex_time(n):
    s = "<%a" + " =" * n + "X"
    best = None
    for _ in range(2):              # the better of two runs: robust against a busy machine
        t = time.perf_counter()
        try:
            Lexer(s).parse()
        except exceptions.MakoException:
            pass
        d = time.perf_counter() - t
        best = d if best is None else min(best, d)
    return best


times = []
for n in range(10, 40):
    times.append((n, lex_time(n)))
    if times[-1][1] > 1.5:
        break
print("lexing times:", [(n, round(x, 4)) for n, x in times])
# between the first run above 20 ms and the last one the time must have at least doubled every two extra repetitions
big = [(n, x) for n, x in times if x > 0.02]
bad = None
if len(big) >= 4:
    (n0, t0), (n1, t1) = big[0], big[-1]
    per_step = (t1 / t0) ** (1.0 / (n1 - n0))
    print("average factor per extra repetition: %.2f" % per_step)
    if per_step > 1.4:
        bad = "lexing time multiplies by %.1f for every extra repetition of ' ='" % per_step
verdict(bad)
