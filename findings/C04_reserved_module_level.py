"""C04: a reserved name assigned in a module-level <%! %> block is not rejected; <%! UNDEFINED = ... %> silently replaces the
module's UNDEFINED, so that a missing variable no longer renders as the undefined object."""
from _common import verdict
from mako.template import Template
from mako import exceptions
bad = None
for name in ("context", "UNDEFINED", "STOP_RENDERING", "loop"):
    try:
        Template("<%! " + name + " = 'replaced' %>x").render()
        print("<%!", name, "= ... %> accepted")
        bad = "module-level assignment of a reserved name raises no NameConflictError"
    except exceptions.NameConflictError:
        print("<%!", name, "= ... %> rejected")
try:
    print("missing variable renders as:", repr(Template("<%! UNDEFINED = 'replaced' %>${missing}").render()))
except Exception as e:
    print(type(e).__name__, e)
verdict(bad)
