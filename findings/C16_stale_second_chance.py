"""C16: a thread that modifies a template file and then calls get_template can be handed a template compiled from the OLDER
content: if another thread is compiling the same uri at that moment, _load()'s second look into the collection (under the
mutex) returns that thread's result without the freshness check that a cache hit in get_template() gets."""
import os
import shutil
import tempfile
import threading
import time
from _common import verdict
from mako.lookup import TemplateLookup

base = tempfile.mkdtemp(prefix="c16finding")
try:
    f = os.path.join(base, "t.html")
    open(f, "w").write("old content")
    old = time.time() - 100
    os.utime(f, (old, old))
    reading = threading.Event()
    go_on = threading.Event()

    def slow(text):
        reading.set()          # the source has been read; hold the compilation open
        go_on.wait(5)
        return text

    lk = TemplateLookup([base], preprocessor=slow)
    res = {}
    a = threading.Thread(target=lambda: res.setdefault("a", lk.get_template("t.html")))
    a.start()
    reading.wait(5)
    # thread B: modify the file (mtime far in the future of any compile instant), then ask for it
    open(f, "w").write("new content")
    new = time.time() + 100
    os.utime(f, (new, new))
    b = threading.Thread(target=lambda: res.setdefault("b", lk.get_template("t.html")))
    b.start()
    time.sleep(0.3)            # B is now waiting for the lookup's mutex
    go_on.set()
    a.join(5)
    b.join(5)
    got = res["b"].render()
    print("B modified the file to 'new content' and then got a template rendering", repr(got))
    verdict(None if got == "new content" else "get_template after the modification returned the template compiled before it")
finally:
    shutil.rmtree(base, ignore_errors=True)
