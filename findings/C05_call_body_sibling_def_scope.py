"""C05: a def written in the body of a call with content, beside a body that takes an argument z, cannot read the calling
scope's variable z: the body's arguments are recorded as declared for all defs of the call, so the sibling def never fetches z
from the context (NameError), although it is not nested in the body and does not receive its arguments."""
from _common import verdict
from mako.template import Template
src = ('<%def name="foo()">${caller.body(z=1)}|${caller.inner()}</%def>'
       '<%call expr="foo()" args="z"><%def name="inner()">inner ${z}</%def>body ${z}</%call>')
try:
    out = Template(src).render(z=5)
except Exception as e:
    out = "raised %s: %s" % (type(e).__name__, e)
print(out)
verdict(None if out == "body 1|inner 5" else "the def beside the body does not see the calling scope's z")
