"""C20: the Lingua plugin drops the code of '% except <expr>:' (and try/else) lines entirely, so a gettext call in an
except clause is never extracted (the Babel plugin extracts it)."""
import io
import sys
from _common import verdict
try:
    from lingua.extractors import register_extractors
    from mako.ext.linguaplugin import LinguaMakoExtractor
except ImportError:
    print("lingua not installed")
    sys.exit(0)
register_extractors()


class Opt:
    keywords = []
    domain = None
    comment_tag = True


tmpl = "% try:\n% except _('in except clause'):\n% endtry\n"
res = [m.msgid for m in LinguaMakoExtractor({"comment-tags": ""})("t.mako", Opt, io.StringIO(tmpl))]
print(res)
verdict(None if "in except clause" in res else "gettext call in '% except ...:' not extracted by the Lingua plugin")
