"""C11: a tag that is never closed is reported at the position where lexing stopped (the end of the template), not at the line
where the unclosed tag begins (Lexer.parse uses its own exception_kwargs; the unterminated-control-keyword branch next to it
uses the node's position)."""
from _common import verdict
from mako.template import Template
from mako import exceptions
src = "a\nb\n<%def name='a()'>\nfoo\n\n\n"
try:
    Template(src, filename="x.mako")
    got = None
except exceptions.SyntaxException as e:
    got = e.lineno
print("unclosed <%def> on line 3 reported at line", got)
verdict(None if got == 3 else "the unclosed tag begins on line 3, reported line %s" % got)
