"""C09: two TemplateLookups with different directories that share one module_directory serve each other's sources: the module
file's path depends on the URI only, and an existing module file is re-used whenever it is not older than the source file that
is being loaded - which source file it was compiled from is never compared."""
import os, shutil, tempfile, time
from _common import verdict
from mako.lookup import TemplateLookup
base = tempfile.mkdtemp(prefix="c09shared")
try:
    now = time.time()
    for name, text in (("pub", "PUBLIC x"), ("priv", "PRIVATE x")):
        os.makedirs(os.path.join(base, name))
        with open(os.path.join(base, name, "x.html"), "w") as f:
            f.write(text)
        os.utime(os.path.join(base, name, "x.html"), (now - 100, now - 100))
    md = os.path.join(base, "modules")
    first = TemplateLookup([os.path.join(base, "priv")], module_directory=md).get_template("/x.html").render()
    t = TemplateLookup([os.path.join(base, "pub")], module_directory=md).get_template("/x.html")
    second = t.render()
    print("lookup over priv/:", first)
    print("lookup over pub/ :", second, "(template.filename =", t.filename + ")")
    verdict(None if second == "PUBLIC x" else "content of a file outside the lookup's directories is served: %r" % second)
finally:
    shutil.rmtree(base, ignore_errors=True)
