"""C19: a ''' or \"\"\" character sequence that is not a Python delimiter (inside a comment, or inside a literal
quoted differently) switches Mako's re-margining into 'inside a multi-line string' mode: following lines keep their margin."""
from _common import verdict
from mako.template import Template

bad = []
for tmpl in ("<%\n    x = 1 # '''\n    y = 2\n%>${x + y}", "<%\n    x = \"'''\"\n    y = 2\n%>${len(x) + y}"):
    try:
        out = Template(tmpl).render_unicode()
        if out not in ("3", "5"):
            bad.append("rendered %r" % out)
    except Exception as e:
        bad.append("%s: %s" % (type(e).__name__, str(e)[:80]))
verdict("; ".join(bad) if bad else None)
