"""shared by the C19 re-emission finding reproducers: an expression written as a def argument default must evaluate in a
real template to what Python evaluates it to."""
from _common import verdict
from mako.template import Template

PRE = ("<%!\n    a = 3\n    b = 2\n    class _O:\n        x = 7\n        real = 1\n        def __call__(self, *p, **k): return (p, sorted(k.items()))\n"
       "        def keys(self): return ['k']\n        def __getitem__(self, k): return 1\n    f = _O()\n%>")


def show(v):
    if callable(v):
        try:
            return "call:" + repr(v())
        except TypeError:
            return "callable"
    return repr(v)


def check(expr):
    ns = {}
    exec("a = 3\nb = 2\nclass _O:\n    x = 7\n    real = 1\n    def __call__(self, *p, **k): return (p, sorted(k.items()))\n"
         "    def keys(self): return ['k']\n    def __getitem__(self, k): return 1\nf = _O()\n", ns)
    try:
        want = show(eval(expr, dict(ns)))
    except Exception as e:
        want = "raises " + type(e).__name__
    tmpl = PRE + '<%def name="d(p=' + expr.replace('"', "'") + ')">${show(p)}</%def>${d()}'
    try:
        got = Template(tmpl).render(show=show).strip()
    except Exception as e:
        got = "raises %s: %s" % (type(e).__name__, str(e)[:80])
    print("expression:", expr, "| python:", want, "| mako:", got)
    verdict(None if got == want else "argument default %s is re-emitted with a different meaning (%s instead of %s)" % (expr, got, want))
