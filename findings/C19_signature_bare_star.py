"""C19: a bare * in a def / block / page signature is dropped when the signature is re-emitted: keyword-only parameters become
positional, and a keyword-only parameter without default after a positional default makes the generated module a SyntaxError.
(test_def.py::test_def_py3k_args_quirk documents and pins the first half, issue #405.)"""
from _common import verdict
from mako.template import Template
bad = None
try:
    out = Template('<%def name="f(a, *, b)">${a}${b}</%def>${f(1, 2)}').render()
    print("f(a, *, b) called as f(1, 2) ->", repr(out), "(Python would raise TypeError)")
    bad = "keyword-only parameter accepted positionally"
except TypeError as e:
    print("TypeError:", e)
try:
    print(Template('<%def name="f(a=1, *, b)">${a}${b}</%def>${f(b=2)}').render())
except SyntaxError as e:
    print("f(a=1, *, b): generated module does not compile:", e.msg)
    bad = "the re-emitted signature is not the one written (bare * dropped)"
verdict(bad)
