"""C04: the name print is never looked up in the render-time context: ${print} gives the builtin even when render() is given a
value of that name (mako.pyparser.reserved still lists the Python 2 keyword)."""
from _common import verdict
from mako.template import Template
out = Template("${print}").render(print="from-the-context")
print("rendered:", out)
verdict(None if out == "from-the-context" else "a context variable named print is shadowed by the builtin")
