"""shared by the canonical reproducers of listed findings: run against $MAKO_TREE (default /repo);
exit 1 + a line starting with VIOLATED if the defect is still present, exit 0 otherwise."""
import os
import sys

sys.path.insert(0, os.environ.get("MAKO_TREE", "/repo"))


def verdict(bad):
    print(("VIOLATED: " + bad) if bad else "HOLDS (the defect no longer reproduces)")
    sys.exit(1 if bad else 0)
