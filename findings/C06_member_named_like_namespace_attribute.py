"""C06/C07: a def or block whose name is also an attribute of the Namespace class (name, uri, filename, template, module, cache,
attr, context, callables, inherits ...) cannot be reached through self / parent / next / a namespace: attribute lookup finds the
Namespace object's own attribute first (Namespace.__getattr__ is only consulted for unknown names); a named block of that name
fails or silently vanishes in an inheriting template, and <%namespace import="name"> imports the attribute instead of the def."""
from _common import verdict
from mako.lookup import TemplateLookup
lk = TemplateLookup()
lk.put_string("base", 'B[${next.body()}]')
lk.put_string("leaf", '<%inherit file="base"/>L<%block name="uri">blk</%block>')
lk.put_string("solo", '[<%block name="name">hi</%block>]')
lk.put_string("lib", '<%def name="name()">DEF</%def>')
lk.put_string("imp", '<%namespace file="lib" import="name"/>${name()}')
bad = None
for uri, want in (("leaf", "B[Lblk]"), ("solo", "[hi]"), ("imp", "DEF")):
    try:
        got = lk.get_template(uri).render()
    except Exception as e:
        got = "raised %s: %s" % (type(e).__name__, e)
    print(uri, "->", got, " expected", want)
    if got != want:
        bad = "a def / block named like a Namespace attribute is not dispatched"
verdict(bad)
