"""C19: dictionary unpacking {**d} crashes the AST printer (AttributeError / TypeError in SourceGenerator.visit_Dict)"""
from _reemit import check

check('{**f}')
