"""C19: a comment that ends in a backslash is taken for an explicit line continuation, so the next line of a
<% %> block keeps its margin and the block no longer compiles (Python does not continue lines inside comments)."""
from _common import verdict
from mako.template import Template

tmpl = "<%\n    x = 1 # a comment ending in a backslash \\\n    y = 2\n%>${x + y}"
try:
    out = Template(tmpl).render_unicode()
    verdict(None if out == "3" else "rendered %r" % out)
except Exception as e:
    verdict("%s: %s" % (type(e).__name__, str(e)[:120]))
