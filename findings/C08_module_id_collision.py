"""C08 / C17: module_id = re.sub(r"\\W", "_", uri) is not injective: two URIs that differ only in non-word characters
(a-b.html / a_b.html / a.b.html / a/b.html) share the ModuleInfo registry key and the cache id.  Template.source of the
first then returns the second's text, and a cached section of one is served to the other."""
from _common import verdict
from mako.lookup import TemplateLookup
from mako import cache as CA

STORE = {}


class Impl:
    pass_context = False

    def __init__(self, cache):
        self.cache = cache

    def get_or_create(self, key, fn, **kw):
        k = (self.cache.id, key)
        if k not in STORE:
            STORE[k] = fn()
        return STORE[k]


CA.register_plugin("c08finding", __name__, "Impl")
import sys
sys.modules.setdefault(__name__, sys.modules["__main__"])
lk = TemplateLookup(cache_impl="c08finding")
lk.put_string("a-b.html", 'first <%def name="d()" cached="True">A</%def>${d()}')
lk.put_string("a_b.html", 'second <%def name="d()" cached="True">B</%def>${d()}')
t1, t2 = lk.get_template("a-b.html"), lk.get_template("a_b.html")
bad = []
if not t1.source.startswith("first"):
    bad.append("Template.source of a-b.html returns %r" % t1.source[:20])
o1, o2 = t1.render(), t2.render()
if (o1, o2) != ("first A", "second B"):
    bad.append("cached section served across templates: %r / %r" % (o1, o2))
verdict("; ".join(bad) if bad else None)
