"""C20: a gettext call in a filter list that starts on the line after the `|` is reported one line early: the lexer strips the
blanks (and the newline) in front of the filter list, and the extractor appends the list to the expression's last line."""
import io
from _common import verdict
from mako.ext import babelplugin

tmpl = "line1\n${x |\n   f(_('on line 3'))}\n"
res = list(babelplugin.extract(io.BytesIO(tmpl.encode()), ["_"], [], {}))
print(res)
verdict(None if res and res[0][0] == 3 else "message written on line 3 is reported at line %s" % (res[0][0] if res else None))
