"""C13: with format_exceptions=True an exception during Template.render_context(ctx) is swallowed and the error page is lost:
runtime._render_error replaces the Context's whole buffer stack by a fresh buffer, renders the error page into it, and nobody
reads that buffer - the caller's buffer holds the partial output only, no exception arrives.  The Context is left bound to the
error template (context._with_template), so a second render_context on it raises the exception instead."""
import io
from _common import verdict
from mako.template import Template
from mako.runtime import Context
buf = io.StringIO()
ctx = Context(buf, x=0)
t = Template("hello ${1/x}", format_exceptions=True)
try:
    t.render_context(ctx)
    out = buf.getvalue()
except Exception as e:
    out = "raised %s" % type(e).__name__
print("caller's buffer after render_context:", repr(out[:60]))
bad = None
if "ZeroDivisionError" not in out:
    bad = "neither the exception nor an error page naming it reaches the caller of render_context"
try:
    t.render_context(ctx)
    print("second render_context on the same Context: returned")
except Exception as e:
    print("second render_context on the same Context: raised", type(e).__name__)
verdict(bad)
