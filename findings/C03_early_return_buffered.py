"""C03: `return STOP_RENDERING` inside a buffered / filtered / cached def (or a filtered / buffered block) discards what the
construct had written so far: the generated code returns from inside the try whose finally pops the buffer, so the code after
it - which applies the filter and hands the buffer's content on - never runs."""
import sys
from _common import verdict
sys.path.insert(0, "/verif")
import mako.lookup as LK
from props import C03c
bad = None
for site in C03c.KNOWN_LOSS:
    got, want = C03c.case(LK, site, "direct")
    print("%-16s rendered %r, documented %r" % (site, got, want))
    if got != want:
        bad = "output written before an early return is lost in buffering constructs"
verdict(bad)
