"""C04: a reserved name bound by an assignment expression inside ${...} is not rejected; ${(context := 1)} rebinds the
render function's context and the rest of the template fails with an AttributeError."""
from _common import verdict
from mako.template import Template
from mako import exceptions
bad = None
for name in ("context", "UNDEFINED", "STOP_RENDERING", "loop"):
    try:
        Template("${(" + name + " := 1)}").render()
        out = "accepted"
    except exceptions.NameConflictError:
        out = "rejected"
    except Exception as e:
        out = "accepted, then %s: %s" % (type(e).__name__, e)
    print("${(%s := 1)}" % name, out)
    if out != "rejected":
        bad = "an assignment expression binding a reserved name raises no NameConflictError"
verdict(bad)
