"""C19: attribute access on a numeric literal loses its parentheses: (1).real becomes 1.real, a syntax error"""
from _reemit import check

check('(1).real')
