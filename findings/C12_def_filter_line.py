"""C12: an exception raised by the filter= of a <%def>/<%block> is reported by RichTraceback at the last line of the
construct's body instead of the line on which the construct begins (the filter call is emitted in the closing section of
the render function without a source-line mark)."""
from _common import verdict
from mako.template import Template
from mako import exceptions


def boom(s):
    raise ValueError("filter failed")


tmpl = 'line1\n<%block name="b" filter="boom">\n  body line 3\n  ${"expression on line 4"}\n</%block>\n'
try:
    Template(tmpl).render(boom=boom)
    verdict("filter did not raise")
except ValueError:
    tb = exceptions.RichTraceback()
    rec = [r for r in tb.records if r[4] is not None][-1]
    print("reported template line", rec[5], repr(rec[6]))
    verdict(None if rec[5] == 2 else "frame of the raising block filter is mapped to line %d, the block begins on line 2" % rec[5])
