"""C06: inside a def written in an inline <%namespace> tag of a template that is inherited from, `local` is not that template
but the adjacent template toward the derived end (the namespaces of an inherited template are generated with the context of
the template that inherits from it), so local.uri, local.get_template('relative') etc. refer to the wrong template."""
from _common import verdict
from mako.lookup import TemplateLookup
lk = TemplateLookup()
lk.put_string("/base/b.html", '<%namespace name="ns"><%def name="d()">${local.uri}</%def></%namespace>base ns.d=${ns.d()} local=${local.uri} ${next.body()}')
lk.put_string("/sub/child.html", '<%inherit file="/base/b.html"/>child')
out = lk.get_template("/sub/child.html").render()
print(out)
verdict(None if "ns.d=/base/b.html" in out else "local in the def of /base/b.html's inline namespace is not /base/b.html")
