"""C04: with enable_loop=False at the constructor and <%page enable_loop="True"/> in the template the loop context is enabled,
but render(loop=...) (and every other render entry point) accepts the reserved name: Template.reserved_names follows the
constructor flag.  The passed value is then silently shadowed inside % for."""
from _common import verdict
from mako.template import Template
from mako import exceptions
t = Template('<%page enable_loop="True"/>\n% for i in (1, 2):\n${loop.index}\n% endfor\n', enable_loop=False)
try:
    out = "accepted: %r" % t.render(loop="hi")
except exceptions.NameConflictError:
    out = "rejected"
print(out)
verdict(None if out == "rejected" else "loop is enabled (by the page tag) and render(loop=...) raises no NameConflictError")
