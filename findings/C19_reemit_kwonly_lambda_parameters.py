"""C19: keyword-only (and positional-only) parameters of a lambda are dropped when the expression is re-emitted: (lambda *, k=1: k) becomes (lambda : k)"""
from _reemit import check

check('lambda *, k=1: k')
