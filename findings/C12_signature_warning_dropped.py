"""C12: a compiler warning for a literal in a def signature is never shown."""
import sys
from _common import verdict
sys.path.insert(0, "/verif")
from props.realops import warning_probe
bad = None
for src in ("string", "file", "module-file"):
    got, want = warning_probe("def-default", src, "always", 0)
    print(src, "shown:", got, "expected exactly:", [want])
    if got == []:
        bad = "the invalid-escape warning of a def signature default is not shown on any construction path"
verdict(bad)
