"""C19: a float literal that overflows to infinity is re-emitted as the undefined name inf"""
from _reemit import check

check('1e400')
