"""C19: an assignment expression is re-emitted without its operator: (w := a) becomes wa"""
from _reemit import check

check('(w := a)')
