"""C18: a template file in UTF-16 (named by input_encoding) renders when compiled in memory, but cannot be compiled into a
module directory: the generated module is written in UTF-16 with a UTF-16 encoded coding comment, which Python cannot import
(SyntaxError: source code string cannot contain null bytes)."""
import os, shutil, tempfile
from _common import verdict
from mako.template import Template
base = tempfile.mkdtemp(prefix="c18utf16")
try:
    f = os.path.join(base, "t.html")
    with open(f, "wb") as fp:
        fp.write("héllo ${1+1}\n".encode("utf-16"))
    mem = Template(filename=f, input_encoding="utf-16").render_unicode()
    try:
        mod = Template(filename=f, input_encoding="utf-16", module_directory=os.path.join(base, "m")).render_unicode()
    except Exception as e:
        mod = "raised %s: %s" % (type(e).__name__, e)
    print("in memory:", repr(mem)); print("through a module directory:", repr(mod))
    verdict(None if mod == mem else "the template does not compile to the same template through a module file")
finally:
    shutil.rmtree(base, ignore_errors=True)
