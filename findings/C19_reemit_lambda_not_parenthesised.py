"""C19: a lambda used as callee / attribute or subscript base loses its parentheses: (lambda: a)() becomes lambda : a()"""
from _reemit import check

check('(lambda: a)()')
