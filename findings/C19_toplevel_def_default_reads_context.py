"""C19: the argument defaults of a top-level def (and of a def written directly inside a <%call> body) are evaluated where no
context exists - at module level when the template's module is imported, resp. in the ccall() wrapper - so a default that reads
a context variable raises NameError, while the same def nested in another def works."""
from _common import verdict
from mako.template import Template
bad = None
for name, src in (("top-level def", '<%def name="f(a=zz)">${a}</%def>${f()}'),
                  ("def in a call body", '<%def name="wrap()">${caller.body()}</%def><%call expr="wrap()"><%def name="f(a=zz)">${a}</%def>${f()}</%call>'),
                  ("nested def (works)", '<%def name="o()"><%def name="f(a=zz)">${a}</%def>${f()}</%def>${o()}')):
    try:
        out = Template(src).render(zz=3).strip()
    except Exception as e:
        out = "raised %s: %s" % (type(e).__name__, e)
    print(name, "->", out)
    if out != "3":
        bad = "a context variable read by an argument default is not supplied (%s)" % name
verdict(bad)
