"""C20: a gettext call in an attribute that is written on a later line of a multi-line tag is reported at the tag's
first line (the lexer records one line per tag; attribute positions are not kept)."""
import io
from _common import verdict
from mako.ext import babelplugin

tmpl = "line1\n<%def\n   name=\"e(a=_('on line 3'))\">\n</%def>\n"
res = list(babelplugin.extract(io.BytesIO(tmpl.encode()), ["_"], [], {}))
print(res)
verdict(None if res and res[0][0] == 3 else "message written on line 3 is reported at line %s" % (res[0][0] if res else None))
