"""C19: an f-string is re-emitted as the bare concatenation of its parts: f'{a}' becomes a"""
from _reemit import check

check("f'{a}'")
