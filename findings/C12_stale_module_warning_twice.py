"""C12: with a stale-magic module file in the module directory every compile warning is shown twice."""
import sys
from _common import verdict
sys.path.insert(0, "/verif")
from props.realops import warning_probe
bad = None
for pos in ("code-block", "module-code-runs"):
    got, want = warning_probe(pos, "module-file-stale-magic", "always", 0)
    print(pos, "shown:", got, "expected exactly:", [want])
    if [tuple(g) for g in got] == [tuple(want), tuple(want)]:
        bad = "warning shown twice when the module file carries another magic number"
verdict(bad)
