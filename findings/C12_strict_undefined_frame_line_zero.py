"""C12: under strict_undefined the NameError for a name nobody supplies is raised by the look-ups that the code generator puts
at the top of the render function, before the first source-line marker: RichTraceback (and the error pages) report the template
frame at line 0 with an empty source line, not at the line of the expression that reads the name."""
from _common import verdict
from mako.template import Template
from mako import exceptions
try:
    Template("a\nb\n${nosuchname}\nlast line\n", strict_undefined=True).render()
    got = "no exception"
except NameError:
    tb = exceptions.RichTraceback()
    recs = [(r[5], r[6]) for r in tb.records if r[4]]
    got = recs[-1] if recs else None
print("template frame (line, source line):", got)
verdict(None if got == (3, "${nosuchname}") else "the frame of the template is reported as %r, the name is read on line 3" % (got,))
