"""symbolic values: characters, strings, ints."""
import sys
import z3
from . import core
from .core import ProxyLeak

# ---------------------------------------------------------------- character domains
_PRED_RUNS = {}


def _runs(pred, key):
    """maximal runs of code points satisfying pred over the whole range (cached)"""
    r = _PRED_RUNS.get(key)
    if r is None:
        r = []
        start = None
        for cp in range(0x110000):
            ok = pred(chr(cp))
            if ok and start is None:
                start = cp
            elif not ok and start is not None:
                r.append((start, cp - 1))
                start = None
        if start is not None:
            r.append((start, 0x10FFFF))
        _PRED_RUNS[key] = r
    return r


class Domain:
    """finite set of representative code points (model A), or None-domain = all scalar values (model V)."""

    def __init__(self, cps=None):
        self.cps = sorted(set(cps)) if cps is not None else None
        self._pred_cache = {}

    def constrain(self, v):
        if self.cps is None:
            return z3.And(v >= 0, v <= 0x10FFFF, z3.Or(v < 0xD800, v > 0xDFFF))
        return z3.Or([v == c for c in self.cps])

    def pred(self, v, fn, key):
        """z3 Bool: fn(chr(v)) for python predicate fn; exact on the domain"""
        if self.cps is not None:
            sel = self._pred_cache.get(key)
            if sel is None:
                sel = [c for c in self.cps if fn(chr(c))]
                self._pred_cache[key] = sel
            if not sel:
                return z3.BoolVal(False)
            if len(sel) == len(self.cps):
                return z3.BoolVal(True)
            if len(sel) * 2 > len(self.cps):
                ss = set(sel)
                return z3.Not(z3.Or([v == c for c in self.cps if c not in ss]))
            return z3.Or([v == c for c in sel])
        runs = _runs(fn, key)
        if len(runs) > 2000:
            raise ProxyLeak("predicate %r too fragmented for the value model" % (key,))
        return z3.Or([(v == a) if a == b else z3.And(v >= a, v <= b) for a, b in runs])


DOMAIN = Domain(None)


def set_domain(d):
    global DOMAIN
    DOMAIN = d


SPLITLINES = "\n\r\x0b\x0c\x1c\x1d\x1e\x85  "

STD_PREDS = [
    ("isspace", str.isspace),
    ("isalnum_", lambda c: c.isalnum() or c == "_"),
    ("isdecimal", str.isdecimal),
    ("isdigit", str.isdigit),
    ("isalpha", str.isalpha),
    ("splitlines", lambda c: c in SPLITLINES),
    ("isascii", str.isascii),
    ("isupper", str.isupper),
    ("islower", str.islower),
    ("lt256", lambda c: ord(c) < 256),
    ("bmp", lambda c: ord(c) < 0x10000),
    ("isprintable", str.isprintable),
    ("identstart", lambda c: c.isidentifier()),
]


def build_domain(preds, literals, reps=2, universe=None):
    """atoms = classes of code points indistinguishable by all `preds` (name, fn) and `literals`;
    keep up to `reps` representatives per atom (all literals are kept)."""
    if universe is None:
        universe = list(range(0x0, 0x530)) + [
            0x2028, 0x2029, 0x3000, 0x200B, 0xFEFF, 0xFFFD, 0x4E2D, 0x0660, 0x20AC, 0x2603, 0x1F600, 0x10FFFF, 0xE000]
    universe = [c for c in universe if not (0xD800 <= c <= 0xDFFF)]
    lits = set(literals)
    atoms = {}
    for cp in universe:
        ch = chr(cp)
        sig = tuple(bool(fn(ch)) for _n, fn in preds) + ((cp,) if cp in lits else ())
        atoms.setdefault(sig, []).append(cp)
    out = set(lits)
    for sig, members in atoms.items():
        # prefer printable ASCII letters, then others, for readable witnesses
        members.sort(key=lambda c: (not (97 <= c <= 122), not (33 <= c <= 126), c))
        out.update(members[:reps])
    return Domain(out)


# ---------------------------------------------------------------- chars
class SymChar:
    __slots__ = ("v",)

    def __init__(self, v):
        self.v = v

    def __repr__(self):
        return "<?%s>" % self.v


def new_char(name="c", domain=None):
    p = core.cur()
    v = p.new_int(name)
    p.assume((domain or DOMAIN).constrain(v))
    return SymChar(v)


def cv(c):
    """z3 term or int for a char item"""
    return c.v if isinstance(c, SymChar) else ord(c)


def ch_eq(a, b):
    if isinstance(a, str) and isinstance(b, str):
        return a == b
    return core.cur().fork(cv(a) == cv(b))


def ch_pred(c, fn, key):
    if isinstance(c, str):
        return bool(fn(c))
    return core.cur().fork(DOMAIN.pred(c.v, fn, key))


def ch_in(c, chars):
    """c in concrete string `chars`"""
    if isinstance(c, str):
        return c in chars
    if not chars:
        return False
    return core.cur().fork(z3.Or([c.v == ord(x) for x in chars]))


def is_space(c):
    return ch_pred(c, str.isspace, "isspace")


def digits(v, base, n, name="d"):
    """n fresh Int terms (most significant first) with  v == sum d_k*base^k, 0 <= d_k < base.
    A definitional extension (the digits of 0 <= v < base**n are unique), which keeps every VC about
    renderings of v in linear arithmetic instead of div/mod.  Caller guarantees 0 <= v < base**n on the path."""
    p = core.cur()
    ds = [p.new_int(name) for _ in range(n)]
    for d in ds:
        p.assume(z3.And(d >= 0, d < base))
    total = 0
    for d in ds:
        total = total * base + d
    p.assume(v == total)
    return ds


def select_int(v, sorted_keys):
    """the element of concrete sorted ints equal to z3 Int v on this path, or None; balanced bisection so that
    the decision tree has depth O(log n) (a linear scan would make a chain that cannot be explored in parallel)"""
    p = core.cur()
    keys = sorted_keys
    lo, hi = 0, len(keys)
    while hi - lo > 1:
        mid = (lo + hi) // 2
        if p.fork(v < keys[mid]):
            hi = mid
        else:
            lo = mid
    if lo < hi and p.fork(v == keys[lo]):
        return keys[lo]
    return None


# ---------------------------------------------------------------- strings
def _items(x):
    if isinstance(x, SymStr):
        return x.items
    if isinstance(x, str):
        return list(x)
    raise TypeError("expected str, got %s" % type(x).__name__)


def _match_at(items, i, sub):
    if i + len(sub) > len(items):
        return False
    for k in range(len(sub)):
        if not ch_eq(items[i + k], sub[k]):
            return False
    return True


class SymStr:
    """string of concrete length; items are 1-char str or SymChar"""

    __slots__ = ("items",)

    def __init__(self, items=()):
        self.items = list(items)

    # -- structure
    def __len__(self):
        return len(self.items)

    def __bool__(self):
        return bool(self.items)

    def __getitem__(self, i):
        if isinstance(i, slice):
            return _mk(self.items[i])
        if isinstance(i, SymInt):
            i = i.__index__()
        return _mk([self.items[i]])

    def __iter__(self):
        for c in self.items:
            yield _mk([c])

    def __add__(self, o):
        if not isinstance(o, (str, SymStr)):
            return NotImplemented
        return _mk(self.items + _items(o))

    def __radd__(self, o):
        if not isinstance(o, str):
            return NotImplemented
        return _mk(list(o) + self.items)

    def __mul__(self, n):
        return _mk(self.items * n)

    __rmul__ = __mul__

    def __mod__(self, args):
        from . import loader
        return loader.sx_percent_format(self, args if isinstance(args, tuple) else (args,))

    # -- comparison
    def __eq__(self, o):
        if not isinstance(o, (str, SymStr)):
            return False
        oi = _items(o)
        if len(oi) != len(self.items):
            return False
        for a, b in zip(self.items, oi):
            if a is b:
                continue
            if not ch_eq(a, b):
                return False
        return True

    def __ne__(self, o):
        return not self.__eq__(o)

    def __hash__(self):
        c = self.concrete_or_none()
        if c is None:
            raise ProxyLeak("hash of an undetermined symbolic string")
        return hash(c)

    def __lt__(self, o):
        raise ProxyLeak("ordering of symbolic strings")

    __gt__ = __le__ = __ge__ = __lt__

    def is_concrete(self):
        return all(isinstance(c, str) for c in self.items)

    def concrete_or_none(self):
        if self.is_concrete():
            return "".join(self.items)
        return None

    def __contains__(self, sub):
        sub = _items(sub)
        if not sub:
            return True
        for i in range(0, len(self.items) - len(sub) + 1):
            if _match_at(self.items, i, sub):
                return True
        return False

    contains = __contains__

    # -- search
    def find(self, sub, start=0, end=None):
        sub = _items(sub)
        n = len(self.items) if end is None else min(end, len(self.items))
        if start < 0:
            start = max(0, len(self.items) + start)
        for i in range(start, n - len(sub) + 1):
            if _match_at(self.items, i, sub):
                return i
        return -1

    def rfind(self, sub, start=0, end=None):
        sub = _items(sub)
        n = len(self.items) if end is None else min(end, len(self.items))
        for i in range(n - len(sub), start - 1, -1):
            if _match_at(self.items, i, sub):
                return i
        return -1

    def index(self, sub, *a):
        r = self.find(sub, *a)
        if r < 0:
            raise ValueError("substring not found")
        return r

    def count(self, sub):
        sub = _items(sub)
        if not sub:
            return len(self.items) + 1
        n = i = 0
        while i + len(sub) <= len(self.items):
            if _match_at(self.items, i, sub):
                n += 1
                i += len(sub)
            else:
                i += 1
        return n

    def startswith(self, pre, start=0):
        if isinstance(pre, tuple):
            return any(self.startswith(p, start) for p in pre)
        return _match_at(self.items, start, _items(pre)) if start + len(pre) <= len(self.items) else False

    def endswith(self, suf):
        if isinstance(suf, tuple):
            return any(self.endswith(p) for p in suf)
        suf = _items(suf)
        if len(suf) > len(self.items):
            return False
        return _match_at(self.items, len(self.items) - len(suf), suf)

    # -- transformation
    def replace(self, a, b, count=-1):
        a = _items(a)
        b = _items(b)
        if not a:
            raise ProxyLeak("replace with empty pattern")
        out = []
        i = 0
        done = 0
        while i < len(self.items):
            if (count < 0 or done < count) and _match_at(self.items, i, a):
                out.extend(b)
                i += len(a)
                done += 1
            else:
                out.append(self.items[i])
                i += 1
        return _mk(out)

    def _strip(self, chars, left, right):
        it = self.items
        a, b = 0, len(it)
        test = is_space if chars is None else (lambda c: ch_in(c, _concrete(chars)))
        if left:
            while a < b and test(it[a]):
                a += 1
        if right:
            while b > a and test(it[b - 1]):
                b -= 1
        return _mk(it[a:b])

    def strip(self, chars=None):
        return self._strip(chars, True, True)

    def lstrip(self, chars=None):
        return self._strip(chars, True, False)

    def rstrip(self, chars=None):
        return self._strip(chars, False, True)

    def split(self, sep=None, maxsplit=-1):
        if sep is None:
            out, cur = [], []
            it = self.items
            i = 0
            n = len(it)
            while i < n:
                while i < n and is_space(it[i]):
                    i += 1
                if i >= n:
                    break
                if maxsplit >= 0 and len(out) >= maxsplit:
                    j = n
                    while j > i and is_space(it[j - 1]):
                        j -= 1
                    out.append(_mk(it[i:j]))
                    return out
                j = i
                while j < n and not is_space(it[j]):
                    j += 1
                out.append(_mk(it[i:j]))
                i = j
            return out
        sep = _items(sep)
        out = []
        cur = []
        i = 0
        while i < len(self.items):
            if (maxsplit < 0 or len(out) < maxsplit) and _match_at(self.items, i, sep):
                out.append(_mk(cur))
                cur = []
                i += len(sep)
            else:
                cur.append(self.items[i])
                i += 1
        out.append(_mk(cur))
        return out

    def rsplit(self, sep=None, maxsplit=-1):
        if maxsplit < 0:
            return self.split(sep, maxsplit)
        raise ProxyLeak("rsplit with maxsplit")

    def splitlines(self, keepends=False):
        out = []
        cur = []
        it = self.items
        i = 0
        while i < len(it):
            c = it[i]
            if ch_in(c, SPLITLINES):
                end = [c]
                if ch_eq(c, "\r") and i + 1 < len(it) and ch_eq(it[i + 1], "\n"):
                    end.append(it[i + 1])
                    i += 1
                out.append(_mk(cur + end if keepends else cur))
                cur = []
            else:
                cur.append(c)
            i += 1
        if cur:
            out.append(_mk(cur))
        return out

    def expandtabs(self, tabsize=8):
        out = []
        col = 0
        for c in self.items:
            if ch_eq(c, "\t"):
                n = tabsize - (col % tabsize) if tabsize > 0 else 0
                out.extend(" " * n)
                col += n
            elif ch_in(c, "\n\r"):
                out.append(c)
                col = 0
            else:
                out.append(c)
                col += 1
        return _mk(out)

    def join(self, parts):
        out = []
        for i, p in enumerate(parts):
            if i:
                out.extend(self.items)
            out.extend(_items(p))
        return _mk(out)

    def translate(self, table):
        """str.translate with a dict keyed by code point"""
        if not isinstance(table, dict):
            raise ProxyLeak("translate with a non-dict table")
        p = core.cur()
        out = []
        keys = sorted(table)
        for c in self.items:
            if isinstance(c, str):
                r = c.translate(table)
                out.extend(r)
                continue
            hit = select_int(c.v, keys)
            if hit is None:
                out.append(c)
            else:
                r = table[hit]
                if r is None:
                    continue
                out.extend(chr(r) if isinstance(r, int) else _items(r))
        return _mk(out)

    def lower(self):
        if any(not isinstance(c, str) for c in self.items):
            raise ProxyLeak("lower() of symbolic chars")
        return _mk([c.lower() for c in self.items])

    def isspace(self):
        return bool(self.items) and all(is_space(c) for c in self.items)

    def isdigit(self):
        return bool(self.items) and all(ch_pred(c, str.isdigit, "isdigit") for c in self.items)

    def encode(self, encoding="utf-8", errors="strict"):
        c = self.concrete_or_none()
        if c is not None:
            return c.encode(encoding, errors)
        enc = encoding.lower().replace("-", "").replace("_", "")
        p = core.cur()
        out = []
        if enc in ("ascii", "usascii", "latin1", "iso88591"):
            lim = 128 if enc in ("ascii", "usascii") else 256
            for i, ch in enumerate(self.items):
                if isinstance(ch, str):
                    out.extend(ch.encode(encoding, errors))
                    continue
                if not p.fork(ch.v < lim):
                    if errors != "strict":
                        raise ProxyLeak("symbolic encode with error handler %r" % errors)
                    raise UnicodeEncodeError(enc, "?" * len(self.items), i, i + 1, "ordinal not in range(%d)" % lim)
                out.append(ch.v)
            return SymBytes(out)
        if enc in ("utf8",):
            for ch in self.items:
                if isinstance(ch, str):
                    out.extend(ch.encode("utf-8"))
                    continue
                v = ch.v
                if p.fork(v < 0x80):
                    out.append(v)
                elif p.fork(v < 0x800):
                    d = digits(v, 64, 2, "u8")
                    out.extend([0xC0 + d[0], 0x80 + d[1]])
                elif p.fork(v < 0x10000):
                    if p.fork(z3.And(v >= 0xD800, v <= 0xDFFF)):
                        raise UnicodeEncodeError("utf-8", "?", 0, 1, "surrogates not allowed")
                    d = digits(v, 64, 3, "u8")
                    out.extend([0xE0 + d[0], 0x80 + d[1], 0x80 + d[2]])
                else:
                    d = digits(v, 64, 4, "u8")
                    out.extend([0xF0 + d[0], 0x80 + d[1], 0x80 + d[2], 0x80 + d[3]])
            return SymBytes(out)
        if enc in ("utf16", "utf16le", "utf16be", "utf32", "utf32le", "utf32be"):
            import sys as _sys
            wide = enc.startswith("utf32")
            order = enc[-2:] if enc[-2:] in ("le", "be") else ("le" if _sys.byteorder == "little" else "be")

            def unit(u, nbytes):
                if isinstance(u, int):
                    ds = list(u.to_bytes(nbytes, "big"))
                else:
                    ds = digits(u, 256, nbytes, "u16")
                return ds if order == "be" else ds[::-1]

            if enc in ("utf16", "utf32"):
                out.extend(unit(0xFEFF, 4 if wide else 2))      # the byte-order mark is written once, at the start
            for i, ch in enumerate(self.items):
                v = ord(ch) if isinstance(ch, str) else ch.v
                if not isinstance(v, int) and p.fork(z3.And(v >= 0xD800, v <= 0xDFFF)) or isinstance(v, int) and 0xD800 <= v <= 0xDFFF:
                    raise UnicodeEncodeError(encoding, "?" * len(self.items), i, i + 1, "surrogates not allowed")
                if wide:
                    out.extend(unit(v, 4))
                elif isinstance(v, int):
                    out.extend(ch.encode("utf-16-" + order))
                elif p.fork(v < 0x10000):
                    out.extend(unit(v, 2))
                else:
                    hi, lo = digits(v - 0x10000, 1024, 2, "sg")
                    out.extend(unit(0xD800 + hi, 2))
                    out.extend(unit(0xDC00 + lo, 2))
            return SymBytes(out)
        raise ProxyLeak("encode(%r) of symbolic string" % encoding)

    def __repr__(self):
        return "S(" + "".join(c if isinstance(c, str) else "¿" for c in self.items) + ")"

    def __str__(self):
        c = self.concrete_or_none()
        if c is None:
            raise ProxyLeak("str() of a symbolic string reached C code (silent concretisation refused)")
        return c

    def __format__(self, spec):
        raise ProxyLeak("format() of a symbolic string")

    # -- models
    def concretize(self, model):
        out = []
        for c in self.items:
            if isinstance(c, str):
                out.append(c)
            else:
                out.append(chr(model.eval(c.v, model_completion=True).as_long()))
        return "".join(out)


def _mk(items):
    return SymStr(items)


class SymBytes:
    """bytes of concrete length; items are ints or z3 Int terms in 0..255"""

    __slots__ = ("items",)

    def __init__(self, items=()):
        self.items = list(items)

    def __len__(self):
        return len(self.items)

    def __bool__(self):
        return bool(self.items)

    def __getitem__(self, i):
        if isinstance(i, slice):
            return SymBytes(self.items[i])
        b = self.items[i]
        return b if isinstance(b, int) else SymInt(b)

    def __iter__(self):
        for b in self.items:
            yield b if isinstance(b, int) else SymInt(b)

    def __add__(self, o):
        return SymBytes(self.items + (o.items if isinstance(o, SymBytes) else list(o)))

    def __radd__(self, o):
        return SymBytes(list(o) + self.items)

    def __hash__(self):
        raise ProxyLeak("hash of symbolic bytes")

    def __eq__(self, o):
        oi = o.items if isinstance(o, SymBytes) else (list(o) if isinstance(o, (bytes, bytearray)) else None)
        if oi is None or len(oi) != len(self.items):
            return False
        return all(core.cur().fork(a == b) if not (isinstance(a, int) and isinstance(b, int)) else a == b
                   for a, b in zip(self.items, oi))

    def startswith(self, prefix):
        if len(prefix) > len(self.items):
            return False
        for a, b in zip(self.items, list(prefix)):
            if isinstance(a, int):
                if a != b:
                    return False
            elif not core.cur().fork(a == b):
                return False
        return True

    def decode(self, encoding="utf-8", errors="strict"):
        encoding = lower(encoding)
        if not isinstance(encoding, str):
            raise ProxyLeak("decode with a symbolic encoding name")
        enc = encoding.lower().replace("-", "").replace("_", "")
        p = core.cur()
        if all(isinstance(b, int) for b in self.items):
            return bytes(self.items).decode(encoding, errors)
        if any(not isinstance(b, int) for b in self.items) and enc not in ("ascii", "usascii", "latin1", "iso88591"):
            # symbolic bytes must be ASCII: then they decode to themselves in every ASCII-compatible codec and cannot
            # be part of a multi-byte sequence; the concrete runs between them are decoded by the real codec
            import codecs as _codecs
            _codecs.lookup(encoding)
            out = []
            run = []
            for b in self.items:
                if isinstance(b, int):
                    run.append(b)
                    continue
                if not p.fork(z3.And(b >= 0, b < 128)):
                    raise ProxyLeak("non-ASCII symbolic byte in a multi-byte decode")
                if run:
                    out.extend(bytes(run).decode(encoding, errors))
                    run = []
                out.append(SymChar(b))
            if run:
                out.extend(bytes(run).decode(encoding, errors))
            return SymStr(out)
        if enc in ("ascii", "usascii", "latin1", "iso88591"):
            lim = 128 if enc in ("ascii", "usascii") else 256
            out = []
            for i, b in enumerate(self.items):
                if isinstance(b, int):
                    if b >= lim:
                        if errors == "ignore":
                            continue
                        raise UnicodeDecodeError(enc, bytes([b]), 0, 1, "ordinal not in range")
                    out.append(chr(b))
                else:
                    if lim == 128 and not p.fork(b < 128):
                        raise UnicodeDecodeError(enc, b"?", 0, 1, "ordinal not in range(128)")
                    out.append(SymChar(b))
            return SymStr(out)
        raise ProxyLeak("decode(%r) of symbolic bytes" % encoding)

    def bytes_repr(self):
        """model of repr(bytes)/str(bytes): b'...' ; exact for printable ASCII, escapes for the rest abort"""
        p = core.cur()
        out = ["b", "'"]
        for b in self.items:
            if isinstance(b, int):
                r = repr(bytes([b]))[2:-1]
                out.extend(r)
            else:
                ok = p.fork(z3.And(b >= 32, b < 127, b != 39, b != 92))
                if not ok:
                    raise core.Abort("repr of non-printable symbolic byte")
                out.append(SymChar(b))
        out.append("'")
        return SymStr(out)

    def __repr__(self):
        return "SB(%d)" % len(self.items)

    def concretize(self, model):
        return bytes((b if isinstance(b, int) else model.eval(b, model_completion=True).as_long()) for b in self.items)


def _concrete(x):
    if isinstance(x, str):
        return x
    c = x.concrete_or_none()
    if c is None:
        raise ProxyLeak("needs a concrete string")
    return c


def lift(x):
    if isinstance(x, SymStr):
        return x
    if type(x) is str:
        return SymStr(list(x))
    raise TypeError("cannot lift %r" % type(x))


def lower(x):
    """SymStr without symbolic chars -> str"""
    if isinstance(x, SymStr):
        c = x.concrete_or_none()
        return c if c is not None else x
    return x


def sym_string(n, name="c", domain=None):
    return SymStr([new_char("%s%d" % (name, i), domain) for i in range(n)])


def conc(x, model):
    """concretise nested structures of proxies under a model"""
    if isinstance(x, SymStr):
        return x.concretize(model)
    if isinstance(x, SymInt):
        return model.eval(x.e, model_completion=True).as_long()
    if isinstance(x, SymChar):
        return chr(model.eval(x.v, model_completion=True).as_long())
    if isinstance(x, SymBytes):
        return x.concretize(model)
    if isinstance(x, (list, tuple)):
        return type(x)(conc(i, model) for i in x)
    if isinstance(x, dict):
        return {conc(k, model): conc(v, model) for k, v in x.items()}
    return x


def str_eq_term(a, b):
    """z3 Bool: strings a and b (SymStr/str) are equal; False when lengths differ"""
    ai, bi = _items(a), _items(b)
    if len(ai) != len(bi):
        return z3.BoolVal(False)
    cs = []
    for x, y in zip(ai, bi):
        if x is y:
            continue
        if isinstance(x, str) and isinstance(y, str):
            if x != y:
                return z3.BoolVal(False)
            continue
        cs.append(cv(x) == cv(y))
    return z3.And(cs) if cs else z3.BoolVal(True)


# ---------------------------------------------------------------- ints
def _e(x):
    if isinstance(x, SymInt):
        return x.e
    if isinstance(x, bool):
        return int(x)
    if isinstance(x, (int, float)):
        return x
    return None


class SymInt:
    """z3 Int or Real term with python number behaviour; comparisons fork"""

    __slots__ = ("e",)

    def __init__(self, e):
        self.e = e

    def _bin(self, o, f):
        oe = _e(o)
        if oe is None:
            return NotImplemented
        return SymInt(f(self.e, oe))

    def __add__(self, o):
        return self._bin(o, lambda a, b: a + b)

    def __radd__(self, o):
        return self._bin(o, lambda a, b: b + a)

    def __sub__(self, o):
        return self._bin(o, lambda a, b: a - b)

    def __rsub__(self, o):
        return self._bin(o, lambda a, b: b - a)

    def __mul__(self, o):
        return self._bin(o, lambda a, b: a * b)

    __rmul__ = __mul__

    def __floordiv__(self, o):
        oe = _e(o)
        if isinstance(oe, int) and oe > 0:
            return SymInt(self.e / oe)  # z3 Int division floors for positive divisors
        raise ProxyLeak("floordiv by non-positive or symbolic divisor")

    def __mod__(self, o):
        oe = _e(o)
        if isinstance(oe, int) and oe > 0:
            return SymInt(self.e % oe)
        raise ProxyLeak("mod by non-positive or symbolic divisor")

    def __neg__(self):
        return SymInt(-self.e)

    def _cmp(self, o, f):
        oe = _e(o)
        if oe is None:
            return NotImplemented
        return core.cur().fork(f(self.e, oe))

    def __lt__(self, o):
        return self._cmp(o, lambda a, b: a < b)

    def __le__(self, o):
        return self._cmp(o, lambda a, b: a <= b)

    def __gt__(self, o):
        return self._cmp(o, lambda a, b: a > b)

    def __ge__(self, o):
        return self._cmp(o, lambda a, b: a >= b)

    def __eq__(self, o):
        oe = _e(o)
        if oe is None:
            return False
        return core.cur().fork(self.e == oe)

    def __ne__(self, o):
        return not self.__eq__(o)

    def __bool__(self):
        return core.cur().fork(self.e != 0)

    def __hash__(self):
        raise ProxyLeak("hash of a symbolic int")

    def __index__(self):
        """finite concretisation: the value fixed by the path condition, else enumeration of the feasible values
        (each value becomes its own path; terminates only for finitely bounded terms - guarded by a cap)"""
        p = core.cur()
        for _ in range(64):
            m = p.witness()
            v = m.eval(self.e, model_completion=True)
            if not z3.is_int_value(v):
                raise ProxyLeak("index over a non-integer term")
            if p.fork(self.e == v):
                return v.as_long()
        raise ProxyLeak("index/range over a symbolic int with more than 64 feasible values")

    def __repr__(self):
        return "<int %s>" % self.e


def new_int(name="n", lo=None, hi=None):
    p = core.cur()
    v = p.new_int(name)
    if lo is not None:
        p.assume(v >= lo)
    if hi is not None:
        p.assume(v <= hi)
    return SymInt(v)


def new_real(name="r"):
    return SymInt(core.cur().new_real(name))


class SymBool:
    __slots__ = ("e",)

    def __init__(self, e):
        self.e = e

    def __bool__(self):
        return core.cur().fork(self.e)


def new_flag(name="b"):
    return SymBool(core.cur().new_bool(name))
