"""instrumenting loader: imports modules from source with semantics-preserving AST rewrites so that
operations CPython implements in C on exact built-in types are routed through dispatchers that
behave identically on concrete values and symbolically on proxies."""
import ast
import builtins
import importlib.abc
import importlib.util
import os
import sys
import types
import re as _re

from . import core, values, symre
import codecs as _codecs
from .values import SymStr, SymChar, SymInt, SymBytes, lift, ProxyLeak

_real_isinstance = builtins.isinstance
_real_str = builtins.str
_real_repr = builtins.repr
_real_len = builtins.len
_real_ord = builtins.ord
_real_int = builtins.int


def is_proxy(x):
    return _real_isinstance(x, (SymStr, SymInt))


def _any_proxy(seq):
    for a in seq:
        if _real_isinstance(a, (SymStr, SymInt)):
            return True
        if type(a) is tuple and _any_proxy(a):
            return True
    return False


# ---------------------------------------------------------------- formatting
def hexdigit(d, upper=True):
    import z3
    return z3.If(d < 10, 48 + d, (55 if upper else 87) + d)


def sx_hex(v, upper=True, maxdigits=6):
    """SymStr hex rendering of non-negative z3 Int v (forks on the digit count)"""
    p = core.cur()
    n = 1
    while n < maxdigits and not p.fork(v < 16 ** n):
        n += 1
    if p.fork(v < 0):
        raise ProxyLeak("hex rendering of a negative symbolic int")
    return SymStr([SymChar(hexdigit(d, upper)) for d in values.digits(v, 16, n, "hx")])


def sx_dec(v, maxdigits=8):
    p = core.cur()
    if p.fork(v < 0):
        return SymStr(["-"]) + sx_dec(-v, maxdigits)
    n = 1
    while n < maxdigits and not p.fork(v < 10 ** n):
        n += 1
    return SymStr([SymChar(48 + d) for d in values.digits(v, 10, n, "dc")])


def sx_repr(a):
    if _real_isinstance(a, SymStr):
        c = a.concrete_or_none()
        if c is not None:
            return _real_repr(c)
        return sx_repr_str(a)
    if _real_isinstance(a, SymInt):
        return sx_dec(a.e)
    if type(a) in (list, tuple, dict, set) and _contains_proxy(a):
        raise ProxyLeak("repr of a container holding proxies")
    return _real_repr(a)


def _contains_proxy(x):
    if is_proxy(x):
        return True
    if type(x) in (list, tuple, set, frozenset):
        return any(_contains_proxy(i) for i in x)
    if type(x) is dict:
        return any(_contains_proxy(k) or _contains_proxy(v) for k, v in x.items())
    return False


def sx_repr_str(s):
    """repr() of a string with symbolic chars: exact for chars that repr leaves alone; forks on the
    special ones.  Quote choice follows CPython: single quotes unless the string contains ' and no \"."""
    has_sq = any(values.ch_eq(c, "'") for c in s.items)
    has_dq = any(values.ch_eq(c, '"') for c in s.items) if has_sq else False
    q = '"' if (has_sq and not has_dq) else "'"
    out = [q]
    for c in s.items:
        if isinstance(c, str):
            r = _real_repr(c)[1:-1] if c not in "'\"" else (c if c != q else "\\" + c)
            out.extend(r)
            continue
        if values.ch_eq(c, q):
            out.extend("\\" + q)
        elif values.ch_eq(c, "\\"):
            out.extend("\\\\")
        elif values.ch_eq(c, "\n"):
            out.extend("\\n")
        elif values.ch_eq(c, "\r"):
            out.extend("\\r")
        elif values.ch_eq(c, "\t"):
            out.extend("\\t")
        elif values.ch_pred(c, str.isprintable, "isprintable"):
            out.append(c)
        else:
            raise core.Abort("repr of a non-printable symbolic char")
    out.append(q)
    return SymStr(out)


def sx_str(x=""):
    if _real_isinstance(x, SymStr):
        return x
    if _real_isinstance(x, SymBytes):
        return x.bytes_repr()
    if _real_isinstance(x, SymInt):
        return sx_dec(x.e)
    if _real_isinstance(x, BaseException) and type(x).__str__ in (BaseException.__str__, Exception.__str__) and _any_proxy(x.args):
        if len(x.args) == 1:
            return sx_str(x.args[0])
        raise ProxyLeak("str() of an exception with several proxy arguments")
    return _real_str(x)


class _StrMeta(type):
    def __instancecheck__(cls, x):
        return _real_isinstance(x, (_real_str, SymStr))

    def __subclasscheck__(cls, c):
        return issubclass(c, _real_str)


class sx_strtype(metaclass=_StrMeta):
    """shadows the name `str` inside instrumented modules"""

    def __new__(cls, x="", *a, **k):
        if a or k:
            if _real_isinstance(x, SymBytes):
                return x.decode(*a, **k)
            return _real_str(x, *a, **k)
        return sx_str(x)

    join = _real_str.join
    maketrans = _real_str.maketrans


def sx_percent_format(fmt, args):
    fmt_items = values._items(fmt)
    if _real_isinstance(args, dict):
        raise ProxyLeak("%-format with mapping")
    out = []
    i = 0
    ai = 0
    n = len(fmt_items)
    while i < n:
        c = fmt_items[i]
        if not (isinstance(c, str) and c == "%") and not (not isinstance(c, str) and values.ch_eq(c, "%")):
            out.append(c)
            i += 1
            continue
        if i + 1 >= n:
            raise ValueError("incomplete format")
        spec = fmt_items[i + 1]
        if not isinstance(spec, str):
            raise ProxyLeak("symbolic format spec")
        i += 2
        if spec == "%":
            out.append("%")
            continue
        if ai >= len(args):
            raise TypeError("not enough arguments for format string")
        a = args[ai]
        ai += 1
        if spec == "s":
            out.extend(values._items(sx_str(a)))
        elif spec == "r":
            out.extend(values._items(sx_repr(a)))
        elif spec == "d":
            out.extend(values._items(sx_dec(a.e)) if _real_isinstance(a, SymInt) else ("%d" % a))
        elif spec == "X":
            out.extend(values._items(sx_hex(a.e, True)) if _real_isinstance(a, SymInt) else ("%X" % a))
        elif spec == "x":
            out.extend(values._items(sx_hex(a.e, False)) if _real_isinstance(a, SymInt) else ("%x" % a))
        else:
            raise ProxyLeak("format spec %%%s" % spec)
    if ai != len(args):
        raise TypeError("not all arguments converted during string formatting")
    return values.lower(SymStr(out))


def sx_mod(l, r):
    if type(l) is _real_str:
        args = r if type(r) is tuple else (r,)
        if _any_proxy(args):
            return sx_percent_format(l, args)
    return l % r


def sx_fstring(*parts):
    out = []
    for p in parts:
        out.extend(values._items(sx_str(p)))
    return values.lower(SymStr(out))


# ---------------------------------------------------------------- containers
class IdKey:
    """lets a proxy live as a key of a real dict; equality forks; all IdKeys collide by design"""

    __slots__ = ("v",)

    def __init__(self, v):
        self.v = v

    def __hash__(self):
        return 0

    def __eq__(self, o):
        return key_eq(self.v, o.v if _real_isinstance(o, IdKey) else o)

    def __repr__(self):
        return "IdKey(%r)" % (self.v,)


def key_eq(a, b):
    if _real_isinstance(a, IdKey):
        a = a.v
    if _real_isinstance(b, IdKey):
        b = b.v
    if type(a) is tuple or type(b) is tuple:
        if type(a) is not tuple or type(b) is not tuple or len(a) != len(b):
            return False
        return all(key_eq(x, y) for x, y in zip(a, b))
    if is_proxy(a) or is_proxy(b):
        if _real_isinstance(a, (SymStr, _real_str)) and _real_isinstance(b, (SymStr, _real_str)):
            return lift(a) == b if _real_isinstance(a, _real_str) else a == b
        if _real_isinstance(a, (SymInt, _real_int)) and _real_isinstance(b, (SymInt, _real_int)):
            return a == b
        return False
    return a == b


def _proxy_key(k):
    return is_proxy(k) or (type(k) is tuple and _any_proxy(k))


def _has_idkeys(d):
    return any(type(k) is IdKey for k in d)


def _find_key(d, key):
    if _real_isinstance(key, SymInt) and len(d) > 8 and all(type(k) is _real_int for k in d):
        hit = values.select_int(key.e, sorted(d))
        return _MISSING if hit is None else hit
    for k in list(d.keys()):
        if key_eq(k, key):
            return k
    return _MISSING


_MISSING = object()
_MAPPING_TYPES = (dict,)


def _is_plain_map(obj):
    return type(obj) is dict or (_real_isinstance(obj, dict) and type(obj).__getitem__ is dict.__getitem__)


def sx_in(item, container):
    t = type(container)
    if _proxy_key(item):
        if t is dict or t is set or t is frozenset or t is list or t is tuple or _real_isinstance(container, (dict, set, frozenset)):
            if t is list or t is tuple:
                return any(key_eq(k, item) for k in container)
            return any(key_eq(k, item) for k in list(container))
        if t is _real_str:
            return lift(container).contains(item)
        if t is SymStr:
            return container.contains(item)
        return item in container
    if t is SymStr:
        return container.contains(item)
    if (t is dict or t is set) and container and type(item) in (_real_str, tuple) and _has_idkeys(container):
        return any(key_eq(k, item) for k in list(container))
    return item in container


def sx_getitem(obj, key):
    if _proxy_key(key):
        if _real_isinstance(obj, dict):
            k = _find_key(obj, key)
            if k is _MISSING:
                if hasattr(type(obj), "__missing__"):
                    return type(obj).__missing__(obj, key)
                raise KeyError(key)
            return dict.__getitem__(obj, k)
        if _real_isinstance(key, SymInt) and type(obj) in (list, tuple, _real_str, SymStr):
            return obj[key.__index__()]
    elif type(obj) is dict and obj and type(key) in (_real_str, tuple) and _has_idkeys(obj):
        k = _find_key(obj, key)
        if k is _MISSING:
            raise KeyError(key)
        return dict.__getitem__(obj, k)
    return obj[key]


def sx_setitem(obj, key, val):
    if _real_isinstance(obj, dict) and (_proxy_key(key) or (obj and _has_idkeys(obj) and type(key) in (_real_str, tuple))):
        k = _find_key(obj, key)
        if k is _MISSING:
            c = key.concrete_or_none() if _real_isinstance(key, SymStr) else None
            dict.__setitem__(obj, c if c is not None else IdKey(key), val)
        else:
            dict.__setitem__(obj, k, val)
        return
    obj[key] = val


def sx_delitem(obj, key):
    if _real_isinstance(obj, dict) and (_proxy_key(key) or (obj and _has_idkeys(obj) and type(key) in (_real_str, tuple))):
        k = _find_key(obj, key)
        if k is _MISSING:
            raise KeyError(key)
        dict.__delitem__(obj, k)
        return
    del obj[key]


_STR_METHODS_WITH_STR_ARGS = {
    "startswith", "endswith", "find", "rfind", "index", "count", "replace", "split", "rsplit", "strip",
    "lstrip", "rstrip", "join", "partition", "__contains__", "__eq__", "__add__",
}


def sx_callm(obj, name, *args, **kw):
    t = type(obj)
    if t is _real_str:
        if name == "join":
            parts = list(args[0])
            if _any_proxy(parts):
                return values.lower(lift(obj).join(parts))
            return obj.join(parts)
        if name == "format":
            if _any_proxy(args) or _any_proxy(kw.values()):
                raise ProxyLeak("str.format with proxy arguments")
        elif args and _any_proxy(args):
            return getattr(lift(obj), name)(*args, **kw)
        return getattr(obj, name)(*args, **kw)
    if (t is dict or _real_isinstance(obj, dict)) and args and name in ("get", "pop", "setdefault", "__contains__"):
        key = args[0]
        if _proxy_key(key) or (obj and type(key) in (_real_str, tuple) and _has_idkeys(obj)):
            k = _find_key(obj, key)
            if name == "get":
                return (args[1] if len(args) > 1 else None) if k is _MISSING else dict.__getitem__(obj, k)
            if name == "__contains__":
                return k is not _MISSING
            if name == "pop":
                if k is _MISSING:
                    if len(args) > 1:
                        return args[1]
                    raise KeyError(key)
                return dict.pop(obj, k)
            if name == "setdefault":
                if k is _MISSING:
                    sx_setitem(obj, key, args[1] if len(args) > 1 else None)
                    return args[1] if len(args) > 1 else None
                return dict.__getitem__(obj, k)
    if (t is set) and args and name in ("add", "discard", "remove") and _proxy_key(args[0]):
        key = args[0]
        for k in list(obj):
            if key_eq(k, key):
                if name == "add":
                    return None
                set.discard(obj, k)
                return None
        if name == "add":
            set.add(obj, IdKey(key))
            return None
        if name == "remove":
            raise KeyError(key)
        return None
    if t is list and name in ("index", "count", "remove") and args and _proxy_key(args[0]):
        idx = [i for i, k in enumerate(obj) if key_eq(k, args[0])]
        if name == "count":
            return len(idx)
        if not idx:
            raise ValueError("not in list")
        if name == "index":
            return idx[0]
        del obj[idx[0]]
        return None
    if obj is _codecs and name in ("lookup", "getdecoder", "getencoder") and args and _real_isinstance(args[0], SymStr):
        n = values.lower(args[0])
        if not _real_isinstance(n, _real_str):
            raise ProxyLeak("codecs.%s with a symbolic codec name" % name)
        return getattr(obj, name)(n, *args[1:], **kw)
    return getattr(obj, name)(*args, **kw)


def sx_isinstance(x, t):
    if _real_isinstance(x, SymStr):
        if t is _real_str or t is sx_strtype:
            return True
        if type(t) is tuple:
            return any(sx_isinstance(x, u) for u in t)
        return False
    if _real_isinstance(x, SymBytes):
        if t is bytes:
            return True
        if type(t) is tuple:
            return any(sx_isinstance(x, u) for u in t)
        return False
    if _real_isinstance(x, SymInt):
        if t is _real_int or t is float:
            return True
        if type(t) is tuple:
            return any(sx_isinstance(x, u) for u in t)
        return False
    if t is sx_strtype:
        return _real_isinstance(x, _real_str)
    if t is OrderedSet:
        t = set
    if type(t) is tuple and (sx_strtype in t or OrderedSet in t):
        t = tuple(_real_str if u is sx_strtype else (set if u is OrderedSet else u) for u in t)
    return _real_isinstance(x, t)


def sx_ord(c):
    if _real_isinstance(c, SymStr):
        if len(c) != 1:
            raise TypeError("ord() expected a character")
        it = c.items[0]
        return ord(it) if isinstance(it, str) else SymInt(it.v)
    return _real_ord(c)


def sx_chr(i):
    if _real_isinstance(i, SymInt):
        return SymStr([SymChar(i.e)])
    return chr(i)


def sx_int(x=0, *a):
    if _real_isinstance(x, SymInt):
        return x
    if _real_isinstance(x, SymStr):
        c = x.concrete_or_none()
        if c is not None:
            return _real_int(c, *a)
        base = a[0] if a else 10
        if base not in (10, 16):
            raise ProxyLeak("int() base")
        import z3
        val = 0
        for ch in x.items:
            v = values.cv(ch)
            if base == 10:
                if not values.ch_in(ch, "0123456789"):
                    if values.ch_pred(ch, str.isdecimal, "isdecimal"):
                        raise core.Abort("non-ASCII decimal digit")
                    raise ValueError("invalid literal for int()")
                d = v - 48
            else:
                if values.ch_in(ch, "0123456789"):
                    d = v - 48
                elif values.ch_in(ch, "abcdef"):
                    d = v - 87
                elif values.ch_in(ch, "ABCDEF"):
                    d = v - 55
                else:
                    raise ValueError("invalid literal for int()")
            val = val * base + d
        return SymInt(val if not isinstance(val, int) else z3.IntVal(val))
    return _real_int(x, *a)


def sx_hexf(x):
    if _real_isinstance(x, SymInt):
        return "0x" + sx_hex(x.e, False)
    return hex(x)


def sx_len(x):
    """len() that lets an object report a symbolic length (CPython's len() insists on a real int)"""
    if type(x) in (list, tuple, dict, set, _real_str, bytes, frozenset):
        return _real_len(x)
    f = getattr(type(x), "__len__", None)
    if f is None:
        return _real_len(x)
    g = getattr(f, "__get__", None)
    r = g(x, type(x))() if g is not None else f(x)
    if _real_isinstance(r, SymInt):
        return r
    return _real_len(x)


def sx_sorted(it, *a, **k):
    it = list(it)
    if _any_proxy(it):
        raise ProxyLeak("sorted() over proxies")
    return sorted(it, *a, **k)


# ---------------------------------------------------------------- adversarial set iteration order (PYTHONHASHSEED as environment)
ORDER_SETS = False            # set by a check BEFORE the first instrumented import: shadow `set` / set displays in instrumented modules
SET_ORDER = {"mode": None}    # None = the interpreter's own order; "sorted" / "reversed" / "rotated" = an order a hash seed could produce


def _set_key(x):
    return (type(x).__name__, x if _real_isinstance(x, (_real_str, _real_int, float)) else 0)


class OrderedSet(set):
    """a set whose iteration order is chosen by the harness: any order is one some hash seed may produce for str elements"""

    def __iter__(self):
        items = list(set.__iter__(self))
        mode = SET_ORDER["mode"]
        if mode is None or len(items) < 2:
            return iter(items)
        try:
            items.sort(key=_set_key)
        except TypeError:
            return iter(items)
        if mode == "reversed":
            items.reverse()
        elif mode == "rotated":
            items = items[1:] + items[:1]
        return iter(items)

    def _wrap(name):
        def m(self, *a):
            r = getattr(set, name)(self, *a)
            return OrderedSet(r) if type(r) is set else r
        m.__name__ = name
        return m

    for _n in ("union", "intersection", "difference", "symmetric_difference", "copy", "__or__", "__and__", "__sub__", "__xor__",
               "__ror__", "__rand__", "__rsub__", "__rxor__"):
        locals()[_n] = _wrap(_n)
    del _n, _wrap

    def pop(self):
        for x in self:
            self.discard(x)
            return x
        raise KeyError("pop from an empty set")


DISPATCH = {
    "__sx_mod__": sx_mod,
    "__sx_in__": sx_in,
    "__sx_getitem__": sx_getitem,
    "__sx_setitem__": sx_setitem,
    "__sx_delitem__": sx_delitem,
    "__sx_callm__": sx_callm,
    "__sx_fstring__": sx_fstring,
    "isinstance": sx_isinstance,
    "repr": sx_repr,
    "str": sx_strtype,
    "ord": sx_ord,
    "chr": sx_chr,
    "int": sx_int,
    "hex": sx_hexf,
    "len": sx_len,
}


# ---------------------------------------------------------------- AST rewrite
def _name(n):
    return ast.Name(n, ast.Load())


class Instr(ast.NodeTransformer):
    def __init__(self):
        self._cls = []

    def visit_ClassDef(self, node):
        self._cls.append(node.name)
        try:
            self.generic_visit(node)
        finally:
            self._cls.pop()
        return node

    def _mangle(self, attr):
        if self._cls and attr.startswith("__") and not attr.endswith("__"):
            c = self._cls[-1].lstrip("_")
            if c:
                return "_%s%s" % (c, attr)
        return attr

    def visit_BinOp(self, node):
        self.generic_visit(node)
        if isinstance(node.op, ast.Mod):
            return ast.copy_location(ast.Call(_name("__sx_mod__"), [node.left, node.right], []), node)
        return node

    def visit_Compare(self, node):
        self.generic_visit(node)
        if len(node.ops) == 1 and isinstance(node.ops[0], (ast.In, ast.NotIn)):
            call = ast.Call(_name("__sx_in__"), [node.left, node.comparators[0]], [])
            if isinstance(node.ops[0], ast.NotIn):
                call = ast.UnaryOp(ast.Not(), call)
            return ast.copy_location(call, node)
        return node

    @staticmethod
    def _plain_index(sl):
        if isinstance(sl, ast.Slice):
            return False
        if isinstance(sl, ast.Tuple) and any(isinstance(e, ast.Slice) for e in sl.elts):
            return False
        return True

    def visit_Subscript(self, node):
        self.generic_visit(node)
        if isinstance(node.ctx, ast.Load) and self._plain_index(node.slice):
            return ast.copy_location(ast.Call(_name("__sx_getitem__"), [node.value, node.slice], []), node)
        return node

    def visit_Assign(self, node):
        self.generic_visit(node)
        if any(isinstance(t, ast.Subscript) and self._plain_index(t.slice) for t in node.targets):
            stmts = [ast.Assign([ast.Name("__sx_tmp__", ast.Store())], node.value)]
            for t in node.targets:
                if isinstance(t, ast.Subscript) and self._plain_index(t.slice):
                    stmts.append(ast.Expr(ast.Call(_name("__sx_setitem__"), [t.value, t.slice, _name("__sx_tmp__")], [])))
                else:
                    stmts.append(ast.Assign([t], _name("__sx_tmp__")))
            return [ast.copy_location(s, node) for s in stmts]
        return node

    def visit_Delete(self, node):
        self.generic_visit(node)
        out = []
        for t in node.targets:
            if isinstance(t, ast.Subscript) and self._plain_index(t.slice):
                out.append(ast.copy_location(ast.Expr(ast.Call(_name("__sx_delitem__"), [t.value, t.slice], [])), node))
            else:
                out.append(ast.copy_location(ast.Delete([t]), node))
        return out

    def visit_Set(self, node):
        self.generic_visit(node)
        if not ORDER_SETS:
            return node
        return ast.copy_location(ast.Call(_name("set"), [ast.List(node.elts, ast.Load())], []), node)

    def visit_SetComp(self, node):
        self.generic_visit(node)
        if not ORDER_SETS:
            return node
        return ast.copy_location(ast.Call(_name("set"), [ast.GeneratorExp(node.elt, node.generators)], []), node)

    def visit_JoinedStr(self, node):
        self.generic_visit(node)
        parts = []
        for v in node.values:
            if isinstance(v, ast.Constant):
                parts.append(v)
            elif isinstance(v, ast.FormattedValue):
                if v.format_spec is not None:
                    return node
                if v.conversion == 114:
                    parts.append(ast.Call(_name("repr"), [v.value], []))
                elif v.conversion in (-1, 115):
                    parts.append(v.value)
                else:
                    return node
        return ast.copy_location(ast.Call(_name("__sx_fstring__"), parts, []), node)

    def visit_Call(self, node):
        self.generic_visit(node)
        f = node.func
        if isinstance(f, ast.Attribute):
            if isinstance(f.value, ast.Call) and isinstance(f.value.func, ast.Name) and f.value.func.id == "super":
                return node
            return ast.copy_location(
                ast.Call(_name("__sx_callm__"), [f.value, ast.Constant(self._mangle(f.attr))] + node.args, node.keywords), node)
        return node


def instrument_source(src, path):
    tree = ast.parse(src, path)
    tree = Instr().visit(tree)
    ast.fix_missing_locations(tree)
    return compile(tree, path, "exec")


class _Loader(importlib.abc.Loader):
    def __init__(self, name, path):
        self.name, self.path = name, path

    def create_module(self, spec):
        return None

    def exec_module(self, module):
        with open(self.path, "rb") as f:
            src = f.read()
        module.__dict__.update(DISPATCH)
        if ORDER_SETS:
            module.__dict__["set"] = OrderedSet
        module.__dict__["__sx_instrumented__"] = True
        exec(instrument_source(src, self.path), module.__dict__)

    def get_source(self, name):
        with open(self.path, "rb") as f:
            return f.read().decode("utf-8")


class _Finder(importlib.abc.MetaPathFinder):
    def __init__(self, pkg, root):
        self.pkg, self.root = pkg, root

    def find_spec(self, fullname, path, target=None):
        if fullname != self.pkg and not fullname.startswith(self.pkg + "."):
            return None
        rel = fullname.split(".")[1:]
        base = os.path.join(self.root, *rel)
        if os.path.isdir(base):
            p, ispkg = os.path.join(base, "__init__.py"), True
        else:
            p, ispkg = base + ".py", False
        if not os.path.exists(p):
            return None
        return importlib.util.spec_from_file_location(
            fullname, p, loader=_Loader(fullname, p), submodule_search_locations=[base] if ispkg else None)


def install(pkg="mako", root="/repo/mako"):
    """import `pkg` from `root` through the instrumenting loader from now on (fresh copies)"""
    for k in [k for k in sys.modules if k == pkg or k.startswith(pkg + ".")]:
        del sys.modules[k]
    sys.meta_path[:] = [f for f in sys.meta_path if not (isinstance(f, _Finder) and f.pkg == pkg)]
    sys.meta_path.insert(0, _Finder(pkg, root))


def load_source_as(name, src, path, extra=None):
    """execute arbitrary source (e.g. stdlib posixpath) instrumented, as a detached module"""
    mod = types.ModuleType(name)
    mod.__file__ = path
    mod.__dict__.update(DISPATCH)
    if extra:
        mod.__dict__.update(extra)
    exec(instrument_source(src, path), mod.__dict__)
    return mod


def rebind_re(module):
    """replace the `re` module and every precompiled pattern in a module (and its classes) by SymRe"""
    for k, v in list(vars(module).items()):
        if v is _re:
            setattr(module, k, symre.SYMRE)
        elif _real_isinstance(v, _re.Pattern):
            setattr(module, k, symre.wrap_pattern(v))
        elif _real_isinstance(v, type) and getattr(v, "__module__", None) == module.__name__:
            for k2, v2 in list(vars(v).items()):
                if _real_isinstance(v2, _re.Pattern):
                    setattr(v, k2, symre.wrap_pattern(v2))
