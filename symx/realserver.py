"""serves concrete replay requests against the unpatched /repo mako (see realproc)."""
import os
import pickle
import struct
import sys
import traceback


def main():
    sys.path.insert(0, os.environ.get("MAKO_TREE", "/repo"))
    inp, out = sys.stdin.buffer, sys.stdout.buffer
    sys.stdout = sys.stderr
    from props import realops
    while True:
        hdr = inp.read(4)
        if len(hdr) < 4:
            return
        (n,) = struct.unpack("<I", hdr)
        func, args = pickle.loads(inp.read(n))
        try:
            res = (True, getattr(realops, func)(*args))
            data = pickle.dumps(res)
        except BaseException as e:
            data = pickle.dumps((False, "%s: %s\n%s" % (type(e).__name__, e, traceback.format_exc()[-1500:])))
        out.write(struct.pack("<I", len(data)) + data)
        out.flush()


if __name__ == "__main__":
    main()
