"""SymRe: a stand-in for the `re` module that matches over SymStr.

Backtracking-ordered matcher over the parse tree (re._parser) of the *live* pattern; priority of
alternatives, greedy/lazy order, group capture and the empty-iteration rule follow CPython's sre.
Character tests fork.  On concrete `str` input everything delegates to the real `re`.
"""
import re as _re
import re._parser as _parser
import re._constants as C
import z3
from . import core, values
from .values import SymStr, SymChar, ch_eq, ch_pred, ProxyLeak

_CAT = {
    C.CATEGORY_SPACE: (str.isspace, False),
    C.CATEGORY_NOT_SPACE: (str.isspace, True),
    C.CATEGORY_WORD: (lambda c: c.isalnum() or c == "_", False),
    C.CATEGORY_NOT_WORD: (lambda c: c.isalnum() or c == "_", True),
    C.CATEGORY_DIGIT: (str.isdecimal, False),
    C.CATEGORY_NOT_DIGIT: (str.isdecimal, True),
}


def set_concrete(items, c, icase=False):
    """membership of one concrete character.  Under IGNORECASE CPython's sre tests the LOWER-cased character against a set whose
    literals and ranges were extended with their case variants at compile time; category items (\\w, \\s, \\d) see the lower-cased
    character only (so U+0345, whose upper case is a Greek capital iota, is not \\w)."""
    if not icase:
        return _set1(items, c)
    lc = c.lower()[:1] or c          # sre uses the simple (one-to-one) lower-case mapping
    neg = any(op is C.NEGATE for op, _av in items)
    plain = [(op, av) for op, av in items if op in (C.LITERAL, C.RANGE)]
    cats = [(op, av) for op, av in items if op is C.CATEGORY]
    try:
        from re._casefix import _EXTRA_CASES as extra      # characters sre treats as case variants beyond lower()/upper()
    except ImportError:
        extra = {}
    low = {lc} | {chr(x) for x in extra.get(ord(lc), ())}
    variants = set(low)
    for v in list(low) + [c]:
        if len(v.upper()) == 1 and (v.upper().lower()[:1] or v.upper()) in low:
            variants.add(v.upper())
    r = any(_set1(plain, v) for v in variants) if plain else False
    r = r or (bool(cats) and _set1(cats, lc))
    return r != neg


def _set1(items, c):
    neg = False
    r = False
    o = ord(c) if len(c) == 1 else -1
    for op, av in items:
        if op is C.NEGATE:
            neg = True
        elif op is C.LITERAL:
            r = r or o == av
        elif op is C.RANGE:
            r = r or av[0] <= o <= av[1]
        elif op is C.CATEGORY:
            fn, inv = _CAT[av]
            r = r or (len(c) == 1 and bool(fn(c)) != inv)
        else:
            raise NotImplementedError(op)
    return r != neg


def _set_expr_full(items, v):
    """exact z3 formula for full-range (model V) chars"""
    neg = False
    ors = []
    for op, av in items:
        if op is C.NEGATE:
            neg = True
        elif op is C.LITERAL:
            ors.append(v == av)
        elif op is C.RANGE:
            ors.append(z3.And(v >= av[0], v <= av[1]))
        elif op is C.CATEGORY:
            fn, inv = _CAT[av]
            e = values.DOMAIN.pred(v, fn, "cat%s" % (str(av),))
            ors.append(z3.Not(e) if inv else e)
        else:
            raise NotImplementedError(op)
    e = z3.Or(ors) if ors else z3.BoolVal(False)
    return z3.Not(e) if neg else e


class Match:
    def __init__(self, pat, s, pos, start, end, groups):
        self.re = pat
        self.string = s
        self.pos = pos
        self._start, self._end, self._groups = start, end, groups

    def _g(self, g):
        if isinstance(g, str):
            g = self.re.groupindex[g]
        if g < 0 or g > self.re.groups:
            raise IndexError("no such group")
        return g

    def span(self, g=0):
        g = self._g(g)
        if g == 0:
            return (self._start, self._end)
        return self._groups.get(g, (-1, -1))

    def start(self, g=0):
        return self.span(g)[0]

    def end(self, g=0):
        return self.span(g)[1]

    def group(self, *gs):
        if not gs:
            gs = (0,)
        r = []
        for g in gs:
            a, b = self.span(g)
            r.append(None if a < 0 else self.string[a:b])
        return r[0] if len(r) == 1 else tuple(r)

    def __getitem__(self, g):
        return self.group(g)

    def groups(self, default=None):
        out = []
        for i in range(1, self.re.groups + 1):
            a, b = self.span(i)
            out.append(default if a < 0 else self.string[a:b])
        return tuple(out)

    @property
    def lastindex(self):
        best = None
        for g, (a, b) in self._groups.items():
            if a >= 0 and (best is None or g > best):
                best = g
        return best

    def __repr__(self):
        return "<symre.Match span=(%d, %d)>" % (self._start, self._end)


class Pattern:
    def __init__(self, pattern, flags=0):
        if isinstance(pattern, SymStr):
            c = pattern.concrete_or_none()
            if c is None:
                c = _determine(pattern)
            pattern = c
        self.pattern = pattern
        self.real = _re.compile(pattern, flags)
        self.tree = _parser.parse(pattern, flags)
        self.flags = self.tree.state.flags
        self.groups = self.real.groups
        self.groupindex = dict(self.real.groupindex)
        self.icase = bool(self.flags & _re.I)
        self.nodes = list(self.tree)

    # -- single attempts
    def _attempts(self, s, start):
        done = lambda p, g: iter([(p, g)])
        return m_seq(self.nodes, 0, s, start, {}, self, done)

    def _match_at(self, s, start, pos, must_advance=False, full=False):
        for e, g in self._attempts(s, start):
            if must_advance and e == start:
                continue
            if full and e != len(s):
                continue
            return Match(self, s, pos, start, e, dict(g))
        return None

    def match(self, s, pos=0, endpos=None):
        if isinstance(s, str):
            return self.real.match(s, pos) if endpos is None else self.real.match(s, pos, endpos)
        if endpos is not None:
            raise ProxyLeak("endpos")
        if pos > len(s):
            return None
        return self._match_at(s, pos, pos)

    def fullmatch(self, s, pos=0):
        if isinstance(s, str):
            return self.real.fullmatch(s, pos)
        return self._match_at(s, pos, pos, full=True)

    def search(self, s, pos=0):
        if isinstance(s, str):
            return self.real.search(s, pos)
        for start in range(pos, len(s) + 1):
            m = self._match_at(s, start, pos)
            if m is not None:
                return m
        return None

    def _iter(self, s):
        """successive matches with CPython's must_advance rule"""
        pos = 0
        must_advance = False
        n = len(s)
        while pos <= n:
            found = None
            for start in range(pos, n + 1):
                m = self._match_at(s, start, pos, must_advance and start == pos)
                if m is not None:
                    found = m
                    break
            if found is None:
                return
            yield found
            must_advance = found._end == found._start
            pos = found._end

    def finditer(self, s):
        if isinstance(s, str):
            return self.real.finditer(s)
        return self._iter(s)

    def findall(self, s):
        if isinstance(s, str):
            return self.real.findall(s)
        out = []
        for m in self._iter(s):
            if self.groups == 0:
                out.append(m.group(0))
            elif self.groups == 1:
                out.append(m.groups(SymStr())[0])
            else:
                out.append(m.groups(SymStr()))
        return out

    def split(self, s, maxsplit=0):
        if isinstance(s, str):
            return self.real.split(s, maxsplit)
        out = []
        last = 0
        n = 0
        for m in self._iter(s):
            if maxsplit and n >= maxsplit:
                break
            out.append(s[last:m._start])
            out.extend(m.groups())
            last = m._end
            n += 1
        out.append(s[last:])
        return out

    def sub(self, repl, s, count=0):
        if isinstance(s, str) and (isinstance(repl, str) or callable(repl)):
            try:
                return self.real.sub(repl, s, count)
            except TypeError:
                s = values.lift(s)
        if not callable(repl):
            r = repl if isinstance(repl, str) else repl.concrete_or_none()
            if r is None or "\\" in r:
                if r is None:
                    if any(ch_eq(c, "\\") for c in repl.items):
                        raise ProxyLeak("symbolic replacement template with backslash")
                else:
                    raise ProxyLeak("replacement template with backslash over symbolic input")
        out = []
        last = 0
        n = 0
        for m in self._iter(s):
            if count and n >= count:
                break
            out.extend(s.items[last:m._start])
            r = repl(m) if callable(repl) else repl
            out.extend(values._items(r))
            last = m._end
            n += 1
        out.extend(s.items[last:])
        return SymStr(out)

    def subn(self, repl, s, count=0):
        raise ProxyLeak("subn")

    def __repr__(self):
        return "symre.compile(%r)" % (self.pattern,)


def _determine(symstr):
    """a SymStr used as pattern text must be fixed by the path condition"""
    p = core.cur()
    out = []
    for c in symstr.items:
        if isinstance(c, str):
            out.append(c)
            continue
        v = p.determined(c.v)
        if v is None:
            raise ProxyLeak("regex pattern text depends on undetermined symbolic characters")
        out.append(chr(v.as_long()))
    return "".join(out)


def char_test(op, av, c, pat):
    flags = pat.flags
    if isinstance(c, str):
        if op is C.LITERAL:
            return (c.lower() == chr(av).lower()) if pat.icase else ord(c) == av
        if op is C.NOT_LITERAL:
            return not ((c.lower() == chr(av).lower()) if pat.icase else ord(c) == av)
        if op is C.ANY:
            return bool(flags & _re.S) or c != "\n"
        if op is C.IN:
            return set_concrete(av, c, pat.icase)
        raise NotImplementedError(op)
    p = core.cur()
    if op is C.LITERAL or op is C.NOT_LITERAL:
        lit = chr(av)
        if pat.icase and (lit.lower() != lit.upper()):
            r = ch_pred(c, lambda x: x.lower() == lit.lower(), "ilit%d" % av)
        else:
            r = p.fork(c.v == av)
        return r if op is C.LITERAL else not r
    if op is C.ANY:
        if flags & _re.S:
            return True
        return not p.fork(c.v == 10)
    if op is C.IN:
        if values.DOMAIN.cps is None and not pat.icase:
            return p.fork(_set_expr_full(av, c.v))
        key = ("set", id(av), pat.icase)
        items = av
        ic = pat.icase
        return ch_pred(c, lambda x: set_concrete(items, x, ic), key)
    raise NotImplementedError(op)


_SINGLE = (C.LITERAL, C.NOT_LITERAL, C.ANY, C.IN)


def m_seq(nodes, i, s, p, groups, pat, k):
    """results of continuation k in backtracking priority order; k(pos, groups) -> iterator"""
    if i == len(nodes):
        yield from k(p, groups)
        return
    op, av = nodes[i]
    items = s.items
    if op in _SINGLE:
        # fast path: run of single-char nodes
        while True:
            if p < len(items) and char_test(op, av, items[p], pat):
                p += 1
                i += 1
                if i == len(nodes):
                    yield from k(p, groups)
                    return
                op, av = nodes[i]
                if op not in _SINGLE:
                    break
            else:
                return
    rest = lambda p2, g2: m_seq(nodes, i + 1, s, p2, g2, pat, k)
    if op is C.SUBPATTERN:
        gnum, add_flags, del_flags, sub = av
        if add_flags or del_flags:
            raise NotImplementedError("inline flag groups")
        start = p

        def after(p2, g2):
            if gnum is not None:
                g3 = dict(g2)
                g3[gnum] = (start, p2)
            else:
                g3 = g2
            return rest(p2, g3)

        yield from m_seq(list(sub), 0, s, p, groups, pat, after)
        return
    if op is C.BRANCH:
        for alt in av[1]:
            yield from m_seq(list(alt), 0, s, p, groups, pat, rest)
        return
    if op in (C.MAX_REPEAT, C.MIN_REPEAT):
        lo, hi, sub = av
        sub = list(sub)
        greedy = op is C.MAX_REPEAT

        def rep(count, p1, g1):
            can_more = hi is C.MAXREPEAT or count < hi

            def more():
                if can_more:
                    def after(p2, g2):
                        if p2 == p1 and count >= lo:
                            return iter(())  # an empty iteration never continues the loop
                        return rep(count + 1, p2, g2)
                    yield from m_seq(sub, 0, s, p1, g1, pat, after)

            if count < lo:
                yield from more()
            elif greedy:
                yield from more()
                yield from rest(p1, g1)
            else:
                yield from rest(p1, g1)
                yield from more()

        yield from rep(0, p, groups)
        return
    if op is C.AT:
        flags = pat.flags
        if av is C.AT_BEGINNING:
            if p == 0:
                ok = True
            elif flags & _re.M:
                ok = ch_eq(items[p - 1], "\n")
            else:
                ok = False
        elif av is C.AT_BEGINNING_STRING:
            ok = p == 0
        elif av is C.AT_END:
            if p == len(items):
                ok = True
            elif flags & _re.M:
                ok = ch_eq(items[p], "\n")
            else:
                ok = p == len(items) - 1 and ch_eq(items[p], "\n")
        elif av is C.AT_END_STRING:
            ok = p == len(items)
        elif av in (C.AT_BOUNDARY, C.AT_NON_BOUNDARY):
            isw = lambda c: ch_pred(c, lambda x: x.isalnum() or x == "_", "isalnum_")
            a = p > 0 and isw(items[p - 1])
            b = p < len(items) and isw(items[p])
            ok = (a != b) == (av is C.AT_BOUNDARY)
        else:
            raise NotImplementedError(av)
        if ok:
            yield from rest(p, groups)
        return
    if op in (C.ASSERT, C.ASSERT_NOT):
        direction, sub = av
        if direction == 1:
            start = p
        else:
            lo, hi = sub.getwidth()
            if lo != hi:
                raise NotImplementedError("variable-width look-behind")
            start = p - lo
        found = None
        if start >= 0:
            for r in m_seq(list(sub), 0, s, start, groups, pat, lambda p2, g2: iter([(p2, g2)])):
                if direction == 1 or r[0] == p:
                    found = r
                    break
        if (found is not None) == (op is C.ASSERT):
            yield from rest(p, found[1] if (found is not None and op is C.ASSERT) else groups)
        return
    if op is C.GROUPREF:
        a, b = groups.get(av, (-1, -1))
        if a < 0:
            return
        L = b - a
        if p + L <= len(items):
            for j in range(L):
                x, y = items[a + j], items[p + j]
                if x is y:
                    continue
                if pat.icase:
                    raise NotImplementedError("case-insensitive back-reference")
                if not ch_eq(x, y):
                    return
            yield from rest(p + L, groups)
        return
    raise NotImplementedError(op)


SPY = None      # census hook: called with (pattern source, flags) whenever an instrumented module asks for a pattern


class SymRe:
    """stand-in for the `re` module inside an instrumented module"""

    I = IGNORECASE = _re.I
    S = DOTALL = _re.S
    X = VERBOSE = _re.X
    M = MULTILINE = _re.M
    U = UNICODE = _re.U
    A = ASCII = _re.A
    error = _re.error
    Pattern = _re.Pattern
    Match = _re.Match
    escape = staticmethod(_re.escape)

    def __init__(self):
        self._cache = {}

    def compile(self, pattern, flags=0):
        if isinstance(pattern, Pattern):
            return pattern
        if isinstance(pattern, _re.Pattern):
            pattern, flags = pattern.pattern, pattern.flags & ~_re.U
        if isinstance(pattern, SymStr):
            c = pattern.concrete_or_none()
            pattern = c if c is not None else _determine(pattern)
        k = (pattern, int(flags))
        if SPY is not None:
            SPY(pattern, int(flags))
        p = self._cache.get(k)
        if p is None:
            p = self._cache[k] = Pattern(pattern, flags)
        return p

    def match(self, pattern, s, flags=0):
        return self.compile(pattern, flags).match(s)

    def fullmatch(self, pattern, s, flags=0):
        return self.compile(pattern, flags).fullmatch(s)

    def search(self, pattern, s, flags=0):
        return self.compile(pattern, flags).search(s)

    def findall(self, pattern, s, flags=0):
        return self.compile(pattern, flags).findall(s)

    def finditer(self, pattern, s, flags=0):
        return self.compile(pattern, flags).finditer(s)

    def split(self, pattern, s, maxsplit=0, flags=0):
        return self.compile(pattern, flags).split(s, maxsplit)

    def sub(self, pattern, repl, s, count=0, flags=0):
        return self.compile(pattern, flags).sub(repl, s, count)


SYMRE = SymRe()


def wrap_pattern(p):
    """real re.Pattern -> symbolic Pattern"""
    return SYMRE.compile(p.pattern, p.flags & ~_re.U)
