"""symx core: path-forking symbolic execution of real Python code over z3 terms.

A *path* is one execution of the harness in which every branch on a symbolic value has been
resolved to a concrete bool by `fork`; the conjunction of the decisions is the path condition.
The explorer re-executes the harness with recorded decision prefixes until the decision tree is
exhausted.  Everything the harness computes from symbolic inputs stays a z3 term, so a verification
condition checked at the end of a path is decided by the solver for *all* inputs of that path.
"""
import time
import z3


class Infeasible(BaseException):
    """the replayed prefix is infeasible (engine error if it ever happens on a replay)."""


class ProxyLeak(BaseException):
    """a proxy reached an operation the engine does not model: harness error, never silent."""


class EngineError(BaseException):
    pass


class Abort(BaseException):
    """harness-requested abandonment of a path (outside the stated bound)."""


class PathTimeout(Exception):
    """the code under check did not finish one path within the wall-clock limit: reported to on_path as the path's
    exception, with the inputs the harness noted (Path.note) concretised under a model of the path condition so far"""

    def __init__(self, seconds, inputs):
        super().__init__("no result after %ds of wall-clock time on one path" % seconds)
        self.seconds = seconds
        self.inputs = inputs


import os as _os
PATH_WALL_LIMIT = int(_os.environ.get("VERIF_PATH_LIMIT", "120"))     # seconds of wall-clock time one path may take (a hang of the code under check is a finding, not a hang of the check)


CUR = None  # the active path context
DUMP_EVERY = 0   # >0: every n-th discharged VC is dumped as SMT-LIB2 for the second solver
_VC_COUNTER = [0]


def cur():
    if CUR is None:
        raise EngineError("no active path")
    return CUR


class Path:
    """one run of the harness."""

    def __init__(self, prefix, timeout_ms=20000):
        self.solver = z3.Solver()
        self.solver.set("timeout", timeout_ms)
        self.prefix = list(prefix)
        self.pos = 0
        self.trace = []
        self.alts = []  # prefixes to explore later
        self.cache = {}
        self._keep = []
        self.model = None  # a model of the current path condition, or None
        self.n_checks = 0
        self.solver_s = 0.0
        self.forks2 = 0  # two-sided forks discovered on this path
        self.tags = set()
        self.notes = []
        self.inconclusive = 0
        self.nvars = 0
        self.dumped = []
        self.noted = {}

    def note(self, name, obj):
        """remember a symbolic input of this path by name (used to describe a path that never finishes)"""
        self.noted[name] = obj

    # ---- solver plumbing
    def _check(self, *extra):
        t = time.perf_counter()
        r = self.solver.check(*extra)
        self.solver_s += time.perf_counter() - t
        self.n_checks += 1
        return r

    def assume(self, expr):
        """add a constraint that is part of the harness' precondition (placed before use)."""
        self.solver.add(expr)
        self._keep.append(expr)
        if self.model is not None:
            try:
                if not z3.is_true(self.model.eval(expr, model_completion=True)):
                    self.model = None
            except z3.Z3Exception:
                self.model = None

    def _model_says(self, expr):
        if self.model is None:
            return None
        v = self.model.eval(expr, model_completion=True)
        if z3.is_true(v):
            return True
        if z3.is_false(v):
            return False
        return None

    def fork(self, expr):
        """concrete bool for z3 Bool `expr`; both feasible sides are explored over runs.
        Every non-memoised call appends exactly one trace entry (forced or not)."""
        if isinstance(expr, bool):
            return expr
        if z3.is_true(expr):
            return True
        if z3.is_false(expr):
            return False
        key = expr.get_id()
        hit = self.cache.get(key)
        if hit is not None:
            return hit[0]
        if self.pos < len(self.prefix):
            taken = self.prefix[self.pos]
            self.model = None
        else:
            says = self._model_says(expr)
            if says is None:
                r = self._check(expr)
                if r == z3.sat:
                    self.model = self.solver.model()
                    says = True
                elif r == z3.unsat:
                    r2 = self._check(z3.Not(expr))
                    if r2 == z3.sat:
                        self.model = self.solver.model()
                        taken = False
                        says = "forcedF"
                    elif r2 == z3.unsat:
                        raise Infeasible()
                    else:
                        raise EngineError("solver unknown in fork")
                else:
                    raise EngineError("solver unknown in fork")
            if says == "forcedF":
                pass
            else:
                # `says` side is feasible (witnessed by self.model); is the other one?
                other = z3.Not(expr) if says else expr
                r = self._check(other)
                if r == z3.sat:
                    other_model = self.solver.model()
                    self.forks2 += 1
                    # take True now, queue False
                    self.alts.append(self.trace + [False])
                    taken = True
                    if not says:
                        self.model = other_model
                elif r == z3.unsat:
                    taken = says
                else:
                    raise EngineError("solver unknown in fork")
        self.pos += 1
        self.trace.append(taken)
        self.solver.add(expr if taken else z3.Not(expr))
        self.cache[key] = (taken, expr)
        return taken

    def choose(self, n, name="choice"):
        """explore every i in range(n)"""
        if n <= 1:
            return 0
        v = self.new_int(name)
        self.assume(z3.And(v >= 0, v < n))
        for i in range(n - 1):
            if self.fork(v == i):
                return i
        return n - 1

    def new_int(self, name):
        self.nvars += 1
        return z3.Int("%s!%d" % (name, self.nvars))

    def new_bool(self, name):
        self.nvars += 1
        return z3.Bool("%s!%d" % (name, self.nvars))

    def new_real(self, name):
        self.nvars += 1
        return z3.Real("%s!%d" % (name, self.nvars))

    def tag(self, t):
        self.tags.add(t)

    # ---- end-of-path queries
    def witness(self):
        """a model of the path condition"""
        if self.model is None:
            r = self._check()
            if r != z3.sat:
                raise EngineError("path condition not sat at end of path: %s" % r)
            self.model = self.solver.model()
        return self.model

    def vc(self, formula):
        """decide `path_condition => formula`.  returns ('holds', None) | ('fails', model) | ('unknown', None)"""
        if isinstance(formula, bool):
            if formula:
                return ("holds", None)
            return ("fails", self.witness())
        r = self._check(z3.Not(formula))
        if r == z3.unsat:
            if DUMP_EVERY:
                _VC_COUNTER[0] += 1
                if _VC_COUNTER[0] % DUMP_EVERY == 0 and len(self.dumped) < 2:
                    try:
                        self.dumped.append(self.smt2(formula))
                    except Exception:
                        pass
            return ("holds", None)
        if r == z3.sat:
            return ("fails", self.solver.model())
        self.inconclusive += 1
        return ("unknown", None)

    def determined(self, term):
        """concrete python value of a z3 term if the path condition fixes it, else None"""
        m = self.witness()
        val = m.eval(term, model_completion=True)
        if self._check(term != val) == z3.unsat:
            return val
        return None

    def smt2(self, formula):
        """SMT-LIB2 text of path condition and negated VC (for the second solver)"""
        s = z3.Solver()
        for a in self.solver.assertions():
            s.add(a)
        s.add(z3.Not(formula))
        return s.to_smt2()


def explore_subtree(harness, on_path, prefix, budget=None, timeout_ms=20000):
    """DFS below `prefix`.  returns (stats dict, leftover prefixes).  on_path(path, result, exc)."""
    global CUR
    stack = [list(prefix)]
    st = dict(paths=0, forks2=0, checks=0, solver_s=0.0, aborted=0, inconclusive=0, smt2=[])
    first = True
    while stack:
        if budget is not None and st["paths"] >= budget:
            break
        pre = stack.pop()
        p = Path(pre, timeout_ms)
        CUR = p
        res = exc = None
        import signal as _signal

        def _alarm(signum, frame):
            raise PathTimeout(PATH_WALL_LIMIT, None)
        try:
            old_handler = _signal.signal(_signal.SIGALRM, _alarm)
            _signal.setitimer(_signal.ITIMER_REAL, PATH_WALL_LIMIT, 1.0)      # repeats: an exception raised inside a __del__ is swallowed
            armed = True
        except ValueError:          # not in the main thread of this process: no watchdog
            armed = False
        try:
            try:
                res = harness(p)
            finally:
                if armed:
                    _signal.setitimer(_signal.ITIMER_REAL, 0)
                    _signal.signal(_signal.SIGALRM, old_handler)
        except PathTimeout as e:
            inputs = {}
            try:
                m = p.witness()
                for k, v in p.noted.items():
                    inputs[k] = v.concretize(m) if hasattr(v, "concretize") else v
            except BaseException:
                pass
            exc = PathTimeout(e.seconds, inputs)
            st["hung"] = st.get("hung", 0) + 1
        except Infeasible:
            raise EngineError("replayed prefix became infeasible: %r" % (pre,))
        except Abort:
            st["aborted"] += 1
            exc = "abort"
        except (ProxyLeak, EngineError):
            raise
        except Exception as e:  # the code under check raised: that is a result
            exc = e
        st["paths"] += 1
        if exc != "abort":
            on_path(p, res, exc)   # may fork too (reference oracles run here): same path, same bookkeeping
        if p.pos < len(p.prefix):
            raise EngineError("replay consumed %d of %d prefix decisions" % (p.pos, len(p.prefix)))
        st["forks2"] += p.forks2
        st["checks"] += p.n_checks
        st["solver_s"] += p.solver_s
        st["inconclusive"] += p.inconclusive
        if p.dumped and len(st["smt2"]) < 10:
            st["smt2"].extend(p.dumped)
        stack.extend(p.alts)
        CUR = None
    return st, stack
