"""evidence, replay scripts, known findings, exit codes."""
import hashlib
import inspect
import json
import os
import subprocess
import sys
import time

HERE = os.path.dirname(os.path.dirname(os.path.abspath(__file__)))
REPLAYS = os.path.join(HERE, "replays")
KNOWN = os.path.join(HERE, "known_findings.json")

REPLAY_HEADER = '''#!/usr/bin/env python
"""stand-alone replay of a counterexample found by /verif (property %(pid)s, %(kind)s).
Run:  cd /repo && /verif/.venv/bin/python %(path)s      exit 1 = the violation reproduces, 0 = it does not."""
import sys, os
sys.path.insert(0, os.environ.get("MAKO_TREE", "/repo"))
def _crash(t, v, tb):
    import traceback; traceback.print_exception(t, v, tb); os._exit(3)   # a crash of the replay itself is not a verdict
sys.excepthook = _crash
'''


def src_hash(obj):
    try:
        src = inspect.getsource(obj)
    except Exception:
        return None
    return hashlib.sha256(src.encode("utf-8")).hexdigest()[:16]


def qualnames(objs):
    out = []
    for o in objs:
        f = getattr(o, "__func__", o)
        name = "%s.%s" % (getattr(f, "__module__", "?"), getattr(f, "__qualname__", getattr(f, "__name__", repr(f))))
        out.append({"function": name, "sha256_16": src_hash(f)})
    return out


class Check:
    def __init__(self, pid, tier):
        self.pid = pid
        self.tier = tier
        self.seed = int(os.environ.get("VERIF_SEED", "0") or 0)
        self.t0 = time.time()
        self.sections = []
        self.assumptions = []
        self.outside = []
        self.functions = []
        self.violations = []  # confirmed, not known
        self.known_seen = []
        self.harness_errors = []
        self.unconfirmed = []
        self.samples = []
        self.replayed = 0
        self.cross = None
        self.smt2 = []
        if tier == "thorough" or os.environ.get("VERIF_CROSS"):
            from . import core as _core
            _core.DUMP_EVERY = int(os.environ.get("VERIF_CROSS_EVERY", "20"))
        try:
            with open(KNOWN) as f:
                self.known = json.load(f)
        except FileNotFoundError:
            self.known = {"findings": []}
        os.makedirs(REPLAYS, exist_ok=True)

    # -- bookkeeping
    def assume(self, *texts):
        self.assumptions.extend(texts)

    def not_claimed(self, *texts):
        self.outside.extend(texts)

    def encode(self, *objs):
        self.functions.extend(qualnames(objs))

    def section(self, name, stats, acc, bounds, tags_required=()):
        s = dict(name=name, bounds=bounds, paths=stats["paths"], two_sided_forks=stats["forks2"],
                 solver_queries=stats["checks"], solver_s=round(stats["solver_s"], 3), cpu_s=round(stats.get("cpu_s", 0), 2),
                 wall_s=round(stats["wall_s"], 2), exhaustive=bool(stats["exhausted"]), aborted_paths=stats["aborted"],
                 vcs=acc.vcs, vcs_inconclusive=acc.vcs_unknown + stats["inconclusive"], vc_failed=acc.counts.get("vc_failed", 0),
                 outcome_counts={str(k): v for k, v in sorted(acc.counts.items(), key=lambda kv: str(kv[0]))[:60]},
                 tags={str(k): v for k, v in sorted(acc.tags.items(), key=lambda kv: str(kv[0]))},
                 replayed_on_real_code=acc.replayed)
        self.sections.append(s)
        self.replayed += acc.replayed
        for t in acc.smt2:
            if len(self.smt2) < 300:
                self.smt2.append(t)
        for x in acc.samples[:6]:
            self.samples.append({"harness": name, "case": x})
        print("  [%s] %s: paths=%d forks=%d vcs=%d failed=%d queries=%d solver=%.1fs wall=%.1fs%s" % (
            self.pid, name, s["paths"], s["two_sided_forks"], s["vcs"], s["vc_failed"], s["solver_queries"], s["solver_s"],
            s["wall_s"], "" if s["exhaustive"] else " BOUND-NOT-EXHAUSTED"), flush=True)
        if not s["exhaustive"]:
            print("BOUND-NOT-EXHAUSTED property=%s harness=%s explored=%d" % (self.pid, name, s["paths"]))
        for t in tags_required:
            if not acc.tags.get(t):
                self.harness_error("vacuity: harness %s reached no path tagged %r" % (name, t))
        if s["vcs_inconclusive"]:
            print("  [%s] %s: %d inconclusive solver answers (reported, not counted as success)" % (self.pid, name, s["vcs_inconclusive"]))
        return s

    def harness_error(self, msg):
        print("HARNESS-ERROR property=%s %s" % (self.pid, msg), flush=True)
        self.harness_errors.append(msg)

    # -- replay
    def write_replay(self, kind, body, key):
        h = hashlib.sha256(repr(key).encode("utf-8")).hexdigest()[:10]
        path = os.path.join(REPLAYS, "%s-%s-%s.py" % (self.pid, kind, h))
        with open(path, "w") as f:
            f.write(REPLAY_HEADER % dict(pid=self.pid, kind=kind, path=path))
            f.write(body)
        return path

    @staticmethod
    def run_script(path, timeout=120):
        env = dict(os.environ)
        env["PYTHONDONTWRITEBYTECODE"] = "1"
        env.pop("PYTHONPATH", None)
        try:
            r = subprocess.run([sys.executable, path], cwd="/repo", env=env, capture_output=True, text=True, timeout=timeout)
            return r.returncode, (r.stdout + r.stderr)[-1500:]
        except subprocess.TimeoutExpired:
            return 124, "timeout"

    def open_findings(self):
        return [f for f in self.known.get("findings", []) if f.get("property") == self.pid and f.get("status") == "open"]

    def confirm(self, candidates, make_replay, classify, max_confirm=40, per_finding=3, goods=()):
        """candidates: list of dicts from Acc.  make_replay(c) -> (kind, body, key) ; classify(c) -> finding id | None.
        Candidates matching the characteristic predicate of an open listed finding are replayed only `per_finding`
        times per finding; every other distinct candidate is replayed (up to max_confirm)."""
        # self-test of the replay generator on every run: the script it writes must at least compile (a generator that only
        # breaks when a counterexample turns up would turn a violation into a harness error)
        try:
            _k, _body, _key = make_replay({"kind": "selftest", "input": None})
        except (KeyError, IndexError, TypeError, AttributeError):
            _body = None            # the generator needs a real input: nothing to test here
        except Exception as e:
            _body = None
            self.harness_error("replay generator of %s fails: %s: %s" % (getattr(make_replay, "__module__", "?"), type(e).__name__, e))
        if _body is not None:
            try:
                compile(_body, "<replay generator self-test: %s>" % getattr(make_replay, "__module__", "?"), "exec")
            except SyntaxError as e:
                self.harness_error("replay generator of %s writes a script that does not compile: %s (line %s: %r)" % (
                    getattr(make_replay, "__module__", "?"), e.msg, e.lineno, (e.text or "").strip()[:120]))
        # second self-test: cases the check found correct, written as candidates, must come back HOLDS from their replay
        # (a replay that says VIOLATED for everything would "confirm" counterexamples that do not reproduce)
        done_kinds = set()
        for g in goods:
            if g["kind"] in done_kinds or len(done_kinds) >= 4:
                continue
            done_kinds.add(g["kind"])
            try:
                kind, body, key = make_replay(g)
            except Exception as e:
                self.harness_error("replay generator failed on a passing case of kind %s: %s: %s" % (g["kind"], type(e).__name__, e))
                continue
            path = self.write_replay("sanity-" + kind, body, ("sanity", key))
            rc, out = self.run_script(path)
            self.sanity_replays = getattr(self, "sanity_replays", 0) + 1
            if rc != 0:
                self.harness_error("replay script %s of a case the check found correct exited %s: %s" % (path, rc, out[-400:]))
        seen = {}
        openids = {f["id"] for f in self.open_findings()}
        per = {}
        todo = []
        for c in candidates:
            kind, body, key = make_replay(c)
            if key in seen:
                continue
            seen[key] = c
            fid = classify(c)
            if fid is not None and fid in openids:
                per[fid] = per.get(fid, 0) + 1
                if per[fid] > per_finding:
                    self.known_unreplayed = getattr(self, "known_unreplayed", 0) + 1
                    continue
            todo.append((c, kind, body, key, fid))
        if len(todo) > max_confirm:
            # one kind of candidate must not crowd the others out of the replay budget: take them kind by kind in turn
            # (for each kind in order of first appearance)
            by_kind = {}
            for t in todo:
                by_kind.setdefault((t[1], t[4]), []).append(t)
            todo = []
            while any(by_kind.values()):
                for k in list(by_kind):
                    if by_kind[k]:
                        todo.append(by_kind[k].pop(0))
            print("  [%s] note: %d distinct counterexample candidates, replaying %d of them (kinds in turn)" % (self.pid, len(todo), max_confirm))
            self.unreplayed = len(todo) - max_confirm
            todo = todo[:max_confirm]
        for c, kind, body, key, fid in todo:
            path = self.write_replay(kind, body, key)
            rc, out = self.run_script(path)
            if rc == 1 and "VIOLATED" not in out:
                self.harness_error("replay script %s exited 1 without a verdict line: %s" % (path, out[-300:]))
            elif rc == 1:
                if fid is not None and fid in openids:
                    self.known_seen.append({"finding": fid, "input": c.get("input"), "replay": path})
                else:
                    self.violations.append({"candidate": _j(c), "replay": path, "output": out[-400:]})
                    print("VIOLATION property=%s replay=%s" % (self.pid, path), flush=True)
                    print("  " + out.strip().replace("\n", "\n  ")[-600:], flush=True)
            elif rc == 0:
                # the encoding said the VC fails but the real code does not show it: not API-observable
                self.unconfirmed.append({"candidate": _j(c), "replay": path})
            else:
                self.harness_error("replay script %s exited %s: %s" % (path, rc, out[-300:]))
        return len(seen)

    def known_lines(self):
        """re-run the canonical reproducer of every open finding; print KNOWN-FINDING for those that still fail"""
        for f in self.open_findings():
            script = os.path.join(HERE, f["reproducer"])
            rc, out = self.run_script(script)
            if rc == 1:
                print("KNOWN-FINDING: property=%s %s [%s]" % (self.pid, f["what"], f["id"]), flush=True)
                f["_still"] = True
            elif rc == 0:
                f["_still"] = False
            else:
                self.harness_error("reproducer %s exited %s: %s" % (script, rc, out[-300:]))

    # -- finish
    def finish(self, level="model_checking", rule=None, extra=None):
        if self.smt2:
            try:
                self.cross = cross_check_cvc5(self.smt2)
                self.cross["solver"] = "cvc5 (python API), re-deciding sampled VCs that z3 discharged (expected unsat)"
                print("  [%s] second solver: %s" % (self.pid, self.cross), flush=True)
                if self.cross["disagree"]:
                    self.harness_error("cvc5 found a VC satisfiable that z3 discharged: %d disagreements" % self.cross["disagree"])
            except Exception as e:
                self.cross = {"error": "%s: %s" % (type(e).__name__, e)}
        wall = time.time() - self.t0
        paths = sum(s["paths"] for s in self.sections)
        forks = sum(s["two_sided_forks"] for s in self.sections)
        exhaustive = all(s["exhaustive"] for s in self.sections) and bool(self.sections)
        distinct = sum(s["paths"] - s.get("aborted_paths", 0) for s in self.sections)
        cov = {
            "evaluations": max(paths, 1),
            "distinct_nontrivial": max(distinct, 2) if distinct >= 2 else distinct,
            "rule": rule or ("every case is one completed path of the decision tree = one distinct feasible combination of symbolic "
                             "decisions (distinct by construction: two paths differ in at least one decision); paths abandoned as outside "
                             "the bound are not counted"),
            "states": max(paths, 1),
            "transitions": max(2 * forks, 1),
            "traces_validated_against_impl": self.replayed,
            "samples": self.samples[:30] or [{"note": "no path explored"}],
            "exhaustive": exhaustive,
            "explanation": "states = completed symbolic paths (each a class of concrete inputs); transitions = edges of the "
                           "decision tree; every VC is decided by z3 over all inputs of its path; traces_validated = path "
                           "witnesses re-run on the unpatched real code in a separate interpreter and compared",
            "harnesses": self.sections,
            "functions_encoded": self.functions,
            "vcs_discharged": sum(s["vcs"] for s in self.sections),
            "vcs_failed": sum(s["vc_failed"] for s in self.sections),
            "vcs_inconclusive": sum(s["vcs_inconclusive"] for s in self.sections),
            "solver_queries": sum(s["solver_queries"] for s in self.sections),
            "solver_s": round(sum(s["solver_s"] for s in self.sections), 2),
            "solver": "z3 %s (python API, incremental per path)" % _z3v(),
            "outside_the_claim": self.outside,
            "known_findings_seen": self.known_seen[:20],
            "known_findings_reproducing": [f["id"] for f in self.open_findings() if f.get("_still")],
            "unconfirmed_anomalies": self.unconfirmed[:20],
            "violations_detail": self.violations[:20],
            "harness_errors": self.harness_errors[:20],
            "candidates_matching_known_findings_not_replayed": getattr(self, "known_unreplayed", 0),
            "candidates_not_replayed_over_cap": getattr(self, "unreplayed", 0),
        }
        if self.cross is not None:
            cov["second_solver"] = self.cross
        if getattr(self, "cross_engine", None) is not None:
            cov["second_engine_crosshair"] = self.cross_engine
        if extra:
            cov.update(extra)
        ev = {
            "property_id": self.pid, "tier": self.tier, "seed": self.seed, "level": level, "coverage": cov,
            "assumptions": self.assumptions, "wall_s": round(wall, 2), "violations": len(self.violations),
        }
        os.makedirs(os.path.join(HERE, "evidence"), exist_ok=True)
        with open(os.path.join(HERE, "evidence", "%s.json" % self.pid), "w") as f:
            json.dump(ev, f, indent=1, default=str, ensure_ascii=True)
        code = 1 if self.violations else (2 if self.harness_errors else 0)
        print("[%s] %s tier: %d paths, %d VCs, %d violations, %d known, %d unconfirmed, %d harness errors, %.1fs -> exit %d" % (
            self.pid, self.tier, paths, cov["vcs_discharged"], len(self.violations), len(self.known_seen), len(self.unconfirmed),
            len(self.harness_errors), wall, code), flush=True)
        return code


def _j(c):
    return json.loads(json.dumps(c, default=str))


def _z3v():
    import z3
    return z3.get_version_string()


def cross_check_cvc5(smt2_texts, limit=300, timeout_s=20):
    """re-decide dumped VCs (expected unsat) with the cvc5 python API.  returns summary dict."""
    import cvc5
    res = dict(checked=0, agree=0, disagree=0, unknown=0, errors=0)
    for text in smt2_texts[:limit]:
        try:
            tm = cvc5.TermManager() if hasattr(cvc5, "TermManager") else None
            slv = cvc5.Solver(tm) if tm is not None else cvc5.Solver()
            slv.setOption("tlimit-per", str(timeout_s * 1000))
            slv.setLogic("ALL")
            parser = cvc5.InputParser(slv)
            parser.setStringInput(cvc5.InputLanguage.SMT_LIB_2_6, text, "vc")
            sm = parser.getSymbolManager()
            out = None
            while True:
                cmd = parser.nextCommand()
                if cmd.isNull():
                    break
                r = cmd.invoke(slv, sm)
                if "check-sat" in str(cmd):
                    out = str(r).strip()
            res["checked"] += 1
            if out == "unsat":
                res["agree"] += 1
            elif out == "sat":
                res["disagree"] += 1
            else:
                res["unknown"] += 1
        except Exception as e:  # parse or API problem: inconclusive, never success
            res["errors"] += 1
            res.setdefault("first_error", str(e)[:200])
    return res
