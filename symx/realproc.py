"""a child interpreter holding the *unpatched* mako (real re, real stdlib) that answers concrete
replay requests.  One per exploring process (lazily started, fork-safe)."""
import os
import pickle
import struct
import subprocess
import sys

_PROC = {}
REAL_LIMIT = int(os.environ.get("VERIF_REAL_LIMIT", "90"))     # seconds the unpatched code may take for one request


class RealTimeout(Exception):
    """the unpatched code did not answer within the limit (it hangs or is exponentially slow on this input)"""

    def __init__(self, func, args):
        super().__init__("the real code gave no result within %ds for %s%r" % (REAL_LIMIT, func, args))
        self.func, self.args_ = func, args


HERE = os.path.dirname(os.path.dirname(os.path.abspath(__file__)))


def _get():
    pid = os.getpid()
    p = _PROC.get(pid)
    if p is None or p.poll() is not None:
        env = dict(os.environ)
        env["PYTHONPATH"] = HERE
        env["PYTHONDONTWRITEBYTECODE"] = "1"
        p = subprocess.Popen([sys.executable, "-u", "-m", "symx.realserver"], stdin=subprocess.PIPE,
                             stdout=subprocess.PIPE, cwd=HERE, env=env)
        _PROC.clear()
        _PROC[pid] = p
    return p


def call(func, *args):
    """run props.realops.<func>(*args) in the real-code child; returns its (picklable) result"""
    p = _get()
    data = pickle.dumps((func, args))
    p.stdin.write(struct.pack("<I", len(data)) + data)
    p.stdin.flush()
    import select
    ready, _w, _x = select.select([p.stdout], [], [], REAL_LIMIT)
    if not ready:
        p.kill()
        _PROC.clear()
        raise RealTimeout(func, args)
    hdr = p.stdout.read(4)
    if len(hdr) < 4:
        raise RuntimeError("real-code server died")
    (n,) = struct.unpack("<I", hdr)
    ok, val = pickle.loads(p.stdout.read(n))
    if not ok:
        raise RuntimeError("real-code server error: %s" % val)
    return val


def shutdown():
    for p in _PROC.values():
        try:
            p.stdin.close()
            p.wait(timeout=2)
        except Exception:
            p.kill()
    _PROC.clear()
