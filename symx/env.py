"""environment stubs: stdlib posixpath re-executed from source, os shims, file-system models."""
import ast
import inspect
import os as real_os
import posixpath as real_pp
import types

from . import loader, values
from .values import SymStr

_PP = None


def sym_posixpath():
    """posixpath from the running interpreter's own source, instrumented, with the pure-Python normpath
    (the C accelerator posix._path_normpath cannot take proxies); os.fspath is identity, cwd is /cwd."""
    global _PP
    if _PP is not None:
        return _PP
    src = inspect.getsource(real_pp)

    class OsShim:
        sep = "/"
        curdir = "."
        pardir = ".."
        altsep = None

        @staticmethod
        def fspath(p):
            return p

        @staticmethod
        def getcwd():
            return "/cwd"

        def __getattr__(self, k):
            return getattr(real_os, k)

    shim = OsShim()
    pp = loader.load_source_as("sx_posixpath", src, real_pp.__file__)
    tree = ast.parse(src)
    done = False
    for node in ast.walk(tree):
        if isinstance(node, ast.Try) and any(isinstance(b, ast.ImportFrom) and b.module == "posix" for b in node.body):
            fns = [n for n in node.handlers[0].body if isinstance(n, ast.FunctionDef) and n.name == "normpath"]
            if fns:
                m = ast.Module([fns[0]], [])
                exec(loader.instrument_source(ast.unparse(m), "posixpath.py:normpath"), pp.__dict__)
                done = True
    if not done:
        raise RuntimeError("pure-Python posixpath.normpath not found in the stdlib source")
    pp.os = shim
    shim.path = pp
    pp.__sx_os_shim__ = shim
    _PP = pp
    return pp


def ref_resolve(path_items):
    """reference path resolution written from POSIX semantics (independent of posixpath.normpath):
    returns (absolute?, list of segments) after removing '', '.' and resolving '..' lexically;
    '..' above the root stays at the root for absolute paths and is kept for relative ones."""
    from .values import ch_eq
    segs = []
    cur = []
    for c in list(path_items) + ["/"]:
        if ch_eq(c, "/"):
            segs.append(cur)
            cur = []
        else:
            cur.append(c)
    absolute = bool(path_items) and len(segs) > 1 and not segs[0] and ch_eq(path_items[0], "/")
    out = []
    for s in segs:
        if not s:
            continue
        if len(s) == 1 and ch_eq(s[0], "."):
            continue
        if len(s) == 2 and ch_eq(s[0], ".") and ch_eq(s[1], "."):
            if out and not out[-1] == "..":
                out.pop()
            elif not absolute:
                out.append("..")
            continue
        out.append(s)
    return absolute, out
