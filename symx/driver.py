"""parallel exhaustive exploration + accumulators."""
import collections
import multiprocessing as mp
import os
import time
import traceback

from . import core


class Acc:
    """mergeable per-harness accumulator (must stay picklable)"""

    def __init__(self):
        self.counts = collections.Counter()
        self.tags = collections.Counter()
        self.candidates = []  # failing VCs: dict(kind=..., input=..., detail=...)
        self.samples = []
        self.anomalies = []
        self.vcs = 0
        self.vcs_unknown = 0
        self.replayed = 0
        self.smt2 = []
        self.goods = []       # passing cases in candidate form: the replay generator must say HOLDS for them

    def merge(self, o):
        for g in getattr(o, "goods", []):
            if sum(1 for x in self.goods if x["kind"] == g["kind"]) < 2:
                self.goods.append(g)
        self.counts.update(o.counts)
        self.tags.update(o.tags)
        self.candidates.extend(o.candidates)
        for s in o.samples:
            if len(self.samples) < 40:
                self.samples.append(s)
        self.anomalies.extend(o.anomalies[: max(0, 50 - len(self.anomalies))])
        self.vcs += o.vcs
        self.vcs_unknown += o.vcs_unknown
        self.replayed += o.replayed
        for s in o.smt2:
            if len(self.smt2) < 300:
                self.smt2.append(s)

    def sample(self, s):
        if len(self.samples) < 6:
            p = core.CUR
            if p is not None and isinstance(s, dict) and "path_condition" not in s:
                try:
                    pc = [str(a).replace("\n", " ") for a in p.solver.assertions()]
                    s = dict(s, path_condition=" AND ".join(pc)[:500] or "true", decisions=len(p.trace))
                except Exception:
                    pass
            self.samples.append(s)

    def good(self, kind, input):
        """a case the check found CORRECT, in the form of a candidate of that kind: used to test the replay generator"""
        if sum(1 for x in self.goods if x["kind"] == kind) < 1:
            self.goods.append(dict(kind=kind, input=input, detail="sanity"))

    def candidate(self, **kw):
        if len(self.candidates) < 400:
            self.candidates.append(kw)
        self.counts["vc_failed"] += 1


_H = {}


def _task(arg):
    name, prefix, budget = arg
    harness, on_path, timeout_ms = _H[name]
    acc = Acc()
    t0 = time.time()
    try:
        st, left = core.explore_subtree(harness, lambda p, r, e: on_path(p, r, e, acc), prefix, budget, timeout_ms)
    except BaseException as e:  # engine errors must reach the master with their text
        return ("error", "%s: %s\n%s" % (type(e).__name__, e, traceback.format_exc()[-3000:]), prefix)
    st["cpu_s"] = time.time() - t0
    return ("ok", st, left, acc)


class HarnessError(Exception):
    pass


_POOL = None


def register(name, harness, on_path, timeout_ms=20000):
    """harnesses must be registered before the worker pool is forked"""
    if _POOL is not None and name not in _H:
        close_pool()
    _H[name] = (harness, on_path, timeout_ms)


def _pool(workers):
    global _POOL
    if _POOL is None:
        _POOL = mp.get_context("fork").Pool(workers)
    return _POOL


def close_pool():
    global _POOL
    if _POOL is not None:
        _POOL.terminate()
        _POOL.join()
        _POOL = None


def explore(name, harness=None, on_path=None, workers=None, time_limit=None, timeout_ms=20000, first_budget=4, budget=150):
    """exhaust the decision tree of `harness`.  returns (stats, Acc).  raises HarnessError on engine errors."""
    workers = workers or min(16, os.cpu_count() or 1)
    if harness is not None:
        register(name, harness, on_path, timeout_ms)
    t0 = time.time()
    total = dict(paths=0, forks2=0, checks=0, solver_s=0.0, aborted=0, inconclusive=0, cpu_s=0.0)
    acc = Acc()
    exhausted = True

    def merge(res):
        if res[0] == "error":
            raise HarnessError("engine error below prefix %r:\n%s" % (res[2], res[1]))
        _, st, left, a = res
        for k in total:
            total[k] += st.get(k, 0)
        acc.merge(a)
        for t in st.get("smt2", ()):
            if len(acc.smt2) < 60:
                acc.smt2.append(t)
        return left

    pending = merge(_task((name, [], first_budget)))
    if pending and workers > 1:
        pool = _pool(workers)
        b = 6
        while pending:
            if time_limit is not None and time.time() - t0 > time_limit:
                exhausted = False
                break
            batch = [(name, p, b) for p in pending]
            pending = []
            for res in pool.imap_unordered(_task, batch, chunksize=1):
                pending.extend(merge(res))
            b = min(budget, b * 2)
    else:
        while pending:
            if time_limit is not None and time.time() - t0 > time_limit:
                exhausted = False
                break
            pending = merge(_task((name, pending.pop(), budget))) + pending
    total["left"] = len(pending)
    total["exhausted"] = exhausted
    total["wall_s"] = time.time() - t0
    if exhausted and total["paths"] != total["forks2"] + 1:
        raise HarnessError("leaf-count identity violated: paths=%d two-sided forks=%d" % (total["paths"], total["forks2"]))
    return total, acc
